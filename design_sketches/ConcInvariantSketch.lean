/-! Feasibility sketch: N writers publishing a content-addressed blob via tmp+rename, any interleaving. -/
abbrev Key := Nat
abbrev Val := Nat
structure Fs where
  blob : Key → Option Val          -- complete or torn content (torn = some wrong value)
  tmp  : Nat → Option Val          -- per-process private temp file
inductive Pc | start | wrote | done deriving DecidableEq
structure Proc where
  id : Nat
  key : Key
  pc : Pc
def step (V : Key → Val) (fs : Fs) (p : Proc) (torn : Bool) : Fs × Proc :=
  match p.pc with
  | .start => if torn then ({ fs with tmp := fun i => if i = p.id then some (V p.key + 1) else fs.tmp i }, p)  -- crash-free torn write stays at start (rewrites later)
              else ({ fs with tmp := fun i => if i = p.id then some (V p.key) else fs.tmp i }, { p with pc := .wrote })
  | .wrote => ({ fs with blob := fun k => if k = p.key then fs.tmp p.id else fs.blob k }, { p with pc := .done })
  | .done => (fs, p)
def SInv (V : Key → Val) (fs : Fs) (ps : List Proc) : Prop :=
  (∀ k v, fs.blob k = some v → v = V k) ∧ (∀ p ∈ ps, p.pc = .wrote → fs.tmp p.id = some (V p.key)) ∧ ps.Pairwise (fun a b => a.id ≠ b.id)
def runAt (V : Key → Val) (fs : Fs) (ps : List Proc) (i : Nat) (torn : Bool) : Fs × List Proc :=
  match ps[i]? with
  | none => (fs, ps)
  | some p => let (fs', p') := step V fs p torn; (fs', ps.set i p')
theorem step_id (V fs p t) : (step V fs p t).2.id = p.id ∧ (step V fs p t).2.key = p.key := by
  unfold step; cases p.pc <;> simp <;> split <;> simp
#print axioms step_id
theorem inv_step (V : Key → Val) (fs : Fs) (ps : List Proc) (i : Nat) (t : Bool) (h : SInv V fs ps) :
    SInv V (runAt V fs ps i t).1 (runAt V fs ps i t).2 := by
  unfold runAt
  cases hp : ps[i]? with
  | none => simpa using h
  | some p =>
    obtain ⟨hb, ht, hd⟩ := h
    have hpm : p ∈ ps := List.mem_of_getElem? hp
    have hi : i < ps.length := by
      rcases List.getElem?_eq_some_iff.mp hp with ⟨hi, _⟩; exact hi
    have hpe : ps[i] = p := by
      rcases List.getElem?_eq_some_iff.mp hp with ⟨_, he⟩; exact he
    simp only
    refine ⟨?_, ?_, ?_⟩
    · intro k v hk
      unfold step at hk
      cases hpc : p.pc <;> simp [hpc] at hk
      · split at hk <;> exact hb k v hk
      · split at hk
        · rename_i hkk; rw [ht p hpm hpc] at hk; cases hk; rw [hkk]
        · exact hb k v hk
      · exact hb k v hk
    · intro q hq hqpc
      rcases List.mem_or_eq_of_mem_set hq with hq' | hq'
      · -- q is an untouched process: its id differs from p's unless q = p
        by_cases hqp : q = p
        · subst hqp
          unfold step; cases hpc : q.pc <;> simp [hpc]
          · split <;> simp_all
          · simp_all
          · simp_all
        · have hne : q.id ≠ p.id := by
            intro he
            rcases List.getElem_of_mem hq' with ⟨j, hj, hjq⟩
            by_cases hij : i = j
            · subst hij; exact hqp (by rw [← hjq, hpe])
            · rcases Nat.lt_or_gt_of_ne hij with hlt | hgt
              · have := List.pairwise_iff_getElem.mp hd i j hi hj hlt; rw [hpe, hjq] at this; exact this he.symm
              · have := List.pairwise_iff_getElem.mp hd j i hj hi hgt; rw [hpe, hjq] at this; exact this he
          unfold step; cases hpc : p.pc <;> simp [hpc]
          · split <;> simp [hne, ht q hq' hqpc]
          · exact ht q hq' hqpc
          · exact ht q hq' hqpc
      · subst hq'
        unfold step at hqpc ⊢; cases hpc : p.pc <;> simp [hpc] at hqpc ⊢
        · split at hqpc <;> simp_all
    · -- ids are unchanged by a step, so pairwise-distinctness is preserved by `set`
      have hid : (step V fs p t).2.id = p.id := (step_id V fs p t).1
      rw [List.pairwise_iff_getElem] at hd ⊢
      intro a b ha hb hab
      simp only [List.length_set] at ha hb
      simp only [List.getElem_set]
      by_cases hia : i = a <;> by_cases hib : i = b
      · omega
      · subst hia
        have := hd i b hi hb hab; rw [hpe] at this
        simp only [if_true, if_neg hib, hid]; exact this
      · subst hib
        have := hd a i ha hi hab; rw [hpe] at this
        simp only [if_true, if_neg hia, hid]; exact this
      · simp only [hia, hib, if_false]; exact hd a b ha hb hab

#print axioms inv_step
