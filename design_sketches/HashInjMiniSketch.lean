mutual
inductive Sg where
  | H (parts : List Part)
inductive Part where
  | lit (s : String)
  | sg (d : Sg)
end
def joinSg : List Sg → List Part
  | [] => []
  | [d] => [.sg d]
  | d :: e :: ds => .sg d :: .lit "|" :: joinSg (e :: ds)
theorem joinSg_inj : ∀ (a b : List Sg), joinSg a = joinSg b → a = b := by
  intro a
  induction a using joinSg.induct with
  | case1 => intro b h; cases b with
    | nil => rfl
    | cons y ys => cases ys <;> simp [joinSg] at h
  | case2 d => intro b h; cases b with
    | nil => simp [joinSg] at h
    | cons y ys => cases ys with
      | nil => simpa [joinSg] using h
      | cons z zs => simp [joinSg] at h
  | case3 d e ds ih => intro b h; cases b with
    | nil => simp [joinSg] at h
    | cons y ys => cases ys with
      | nil => simp [joinSg] at h
      | cons z zs =>
        simp only [joinSg, List.cons.injEq, Part.sg.injEq, true_and] at h
        obtain ⟨h1, h2⟩ := h
        rw [h1, ih _ h2]

inductive PyVal where
  | str (s : String)
  | list (xs : List PyVal)

mutual
def hsh : PyVal → Sg
  | .str s => .H (if s = "" then [] else [.lit s])
  | .list xs => .H (joinSg (hshL xs))
def hshL : List PyVal → List Sg
  | [] => []
  | x :: xs => hsh x :: hshL xs
end
mutual
def canon : PyVal → PyVal
  | .str s => .str s
  | .list [] => .str ""
  | .list (x :: xs) => .list (canon x :: canonL xs)
def canonL : List PyVal → List PyVal
  | [] => []
  | x :: xs => canon x :: canonL xs
end

theorem joinSg_nil_iff (l : List Sg) : joinSg l = [] ↔ l = [] := by
  cases l with
  | nil => simp [joinSg]
  | cons a t => cases t <;> simp [joinSg]

theorem joinSg_head (l : List Sg) (p : Part) (ps : List Part) (h : joinSg l = p :: ps) : ∃ d, p = .sg d := by
  cases l with
  | nil => simp [joinSg] at h
  | cons a t => cases t <;> simp [joinSg] at h <;> exact ⟨a, h.1.symm⟩

mutual
theorem hsh_inj : ∀ (a b : PyVal), hsh a = hsh b → canon a = canon b
  | .str s, .str t, h => by
      simp only [hsh, Sg.H.injEq] at h
      by_cases hs : s = "" <;> by_cases ht : t = "" <;> simp_all [canon]
  | .str s, .list ys, h => by
      simp only [hsh, Sg.H.injEq] at h
      by_cases hs : s = ""
      · simp only [hs, if_true] at h
        have : hshL ys = [] := (joinSg_nil_iff _).mp h.symm
        cases ys with
        | nil => simp [canon, hs]
        | cons y ys => simp [hshL] at this
      · simp only [hs, if_false] at h
        obtain ⟨d, hd⟩ := joinSg_head _ _ _ h.symm
        cases hd
  | .list xs, .str t, h => by
      simp only [hsh, Sg.H.injEq] at h
      by_cases ht : t = ""
      · simp only [ht, if_true] at h
        have : hshL xs = [] := (joinSg_nil_iff _).mp h
        cases xs with
        | nil => simp [canon, ht]
        | cons y ys => simp [hshL] at this
      · simp only [ht, if_false] at h
        obtain ⟨d, hd⟩ := joinSg_head _ _ _ h
        cases hd
  | .list xs, .list ys, h => by
      simp only [hsh, Sg.H.injEq] at h
      have hl := hshL_inj xs ys (joinSg_inj _ _ h)
      cases xs with
      | nil => cases ys with
        | nil => rfl
        | cons y ys => simp [canonL] at hl
      | cons x xs => cases ys with
        | nil => simp [canonL] at hl
        | cons y ys => simp only [canon]; simp only [canonL] at hl; rw [List.cons.injEq] at hl; rw [hl.1, hl.2]
theorem hshL_inj : ∀ (a b : List PyVal), hshL a = hshL b → canonL a = canonL b
  | [], [], _ => rfl
  | [], _ :: _, h => by simp [hshL] at h
  | _ :: _, [], h => by simp [hshL] at h
  | x :: xs, y :: ys, h => by
      simp only [hshL, List.cons.injEq] at h
      simp only [canonL]
      rw [hsh_inj x y h.1, hshL_inj xs ys h.2]
end
#print axioms hsh_inj
