mutual
inductive Sg where
  | H (parts : List Part)
  | B (bytes : List UInt8)
  | X (pairs : List (String × Sg))
inductive Part where
  | lit (s : String)
  | sg (d : Sg)
end

mutual
def Sg.dec : (a b : Sg) → Decidable (a = b)
  | .H a, .H b => match Part.decL a b with
    | isTrue h => isTrue (by rw [h])
    | isFalse h => isFalse (by intro e; cases e; exact h rfl)
  | .B a, .B b => if h : a = b then isTrue (by rw [h]) else isFalse (by intro e; cases e; exact h rfl)
  | .X a, .X b => match Sg.decP a b with
    | isTrue h => isTrue (by rw [h])
    | isFalse h => isFalse (by intro e; cases e; exact h rfl)
  | .H _, .B _ => isFalse (by intro e; cases e)
  | .H _, .X _ => isFalse (by intro e; cases e)
  | .B _, .H _ => isFalse (by intro e; cases e)
  | .B _, .X _ => isFalse (by intro e; cases e)
  | .X _, .H _ => isFalse (by intro e; cases e)
  | .X _, .B _ => isFalse (by intro e; cases e)
def Part.dec : (a b : Part) → Decidable (a = b)
  | .lit a, .lit b => if h : a = b then isTrue (by rw [h]) else isFalse (by intro e; cases e; exact h rfl)
  | .sg a, .sg b => match Sg.dec a b with
    | isTrue h => isTrue (by rw [h])
    | isFalse h => isFalse (by intro e; cases e; exact h rfl)
  | .lit _, .sg _ => isFalse (by intro e; cases e)
  | .sg _, .lit _ => isFalse (by intro e; cases e)
def Part.decL : (a b : List Part) → Decidable (a = b)
  | [], [] => isTrue rfl
  | [], _ :: _ => isFalse (by intro e; cases e)
  | _ :: _, [] => isFalse (by intro e; cases e)
  | x :: xs, y :: ys => match Part.dec x y, Part.decL xs ys with
    | isTrue h1, isTrue h2 => isTrue (by rw [h1, h2])
    | isFalse h, _ => isFalse (by intro e; cases e; exact h rfl)
    | _, isFalse h => isFalse (by intro e; cases e; exact h rfl)
def Sg.decP : (a b : List (String × Sg)) → Decidable (a = b)
  | [], [] => isTrue rfl
  | [], _ :: _ => isFalse (by intro e; cases e)
  | _ :: _, [] => isFalse (by intro e; cases e)
  | (k, x) :: xs, (l, y) :: ys =>
    if hk : k = l then
      match Sg.dec x y, Sg.decP xs ys with
      | isTrue h1, isTrue h2 => isTrue (by rw [hk, h1, h2])
      | isFalse h, _ => isFalse (by intro e; cases e; exact h rfl)
      | _, isFalse h => isFalse (by intro e; cases e; exact h rfl)
    else isFalse (by intro e; cases e; exact hk rfl)
end
instance : DecidableEq Sg := Sg.dec
instance : DecidableEq Part := Part.dec
example : Sg.H [] ≠ Sg.H [.lit "a"] := by decide +kernel
example : Sg.X [("a", .H [])] = Sg.X [("a", .H [])] := by decide +kernel
example : Sg.X [("a", .H [.sg (.B [1,2])])] ≠ Sg.X [("a", .H [.sg (.B [1,3])])] := by decide +kernel
example : Sg.X [("a", .H [.sg (.B [1,2])])] ≠ Sg.X [("a", .H [.sg (.B [1,3])])] := by simp
example : Sg.H [] ≠ Sg.H [.lit "a"] := by simp
theorem t1 : Sg.X [("a", .H [.sg (.B [1,2])])] ≠ Sg.X [("a", .H [.sg (.B [1,3])])] := by decide +kernel
#print axioms t1
#print axioms Sg.dec
