mutual
inductive Sg where
  | H (parts : List Part)
  | X (pairs : List (String × Sg))
  deriving Repr
inductive Part where
  | lit (s : String)
  | sg (d : Sg)
  deriving Repr
end

mutual
def Sg.beq : Sg → Sg → Bool
  | .H a, .H b => Part.beqL a b
  | .X a, .X b => Sg.beqP a b
  | _, _ => false
def Part.beq : Part → Part → Bool
  | .lit a, .lit b => a == b
  | .sg a, .sg b => Sg.beq a b
  | _, _ => false
def Part.beqL : List Part → List Part → Bool
  | [], [] => true
  | a :: as, b :: bs => Part.beq a b && Part.beqL as bs
  | _, _ => false
def Sg.beqP : List (String × Sg) → List (String × Sg) → Bool
  | [], [] => true
  | (k, a) :: as, (l, b) :: bs => k == l && Sg.beq a b && Sg.beqP as bs
  | _, _ => false
end


def joinSg : List Sg → List Part
  | [] => []
  | [d] => [.sg d]
  | d :: e :: ds => .sg d :: .lit "|" :: joinSg (e :: ds)

theorem joinSg_inj : ∀ (a b : List Sg), joinSg a = joinSg b → a = b := by
  intro a
  induction a using joinSg.induct with
  | case1 => intro b h; cases b with
    | nil => rfl
    | cons y ys => cases ys <;> simp [joinSg] at h
  | case2 d => intro b h; cases b with
    | nil => simp [joinSg] at h
    | cons y ys => cases ys with
      | nil => simpa [joinSg] using h
      | cons z zs => simp [joinSg] at h
  | case3 d e ds ih => intro b h; cases b with
    | nil => simp [joinSg] at h
    | cons y ys => cases ys with
      | nil => simp [joinSg] at h
      | cons z zs =>
        simp only [joinSg, List.cons.injEq, Part.sg.injEq, true_and] at h
        obtain ⟨h1, h2⟩ := h
        rw [h1, ih _ h2]
#print axioms joinSg_inj
