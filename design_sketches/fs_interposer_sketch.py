"""Feasibility: record the file-system operations of LocalFileStore without touching /repo, and kill at op k."""
import sys, os, builtins, io, tempfile, collections
sys.path.insert(0, "/tmp/probe/pk")
import dds
from dds.store import LocalFileStore
TRACE = []; KILL_AT = None
class Killed(BaseException): pass
def tick(op, *a):
    TRACE.append((op,) + tuple(str(x) for x in a))
    if KILL_AT is not None and len(TRACE) > KILL_AT: raise Killed()
def rel(p, base): 
    p = os.fspath(p); return p.replace(base, "$B") if isinstance(p, str) else p
def install(base):
    real = {n: getattr(os, n) for n in ("makedirs","remove","symlink","replace","rename")}
    real_exists, real_isdir, real_open = os.path.exists, os.path.isdir, builtins.open
    def wrap(n):
        def f(*a, **k):
            tick(n, *[rel(x, base) for x in a]); return real[n](*a, **k)
        return f
    for n in real: setattr(os, n, wrap(n))
    os.path.exists = lambda p: (tick("exists", rel(p, base)), real_exists(p))[1]
    os.path.isdir  = lambda p: (tick("isdir", rel(p, base)), real_isdir(p))[1]
    class F:
        def __init__(self, f, name): self.f, self.name = f, name
        def write(self, b):
            h = len(b)//2
            tick("write1", self.name, h); self.f.write(b[:h]); self.f.flush()
            tick("write2", self.name, len(b)-h); return self.f.write(b[h:]) + h
        def __enter__(self): return self
        def __exit__(self, *e): tick("close", self.name); self.f.close()
        def __getattr__(self, n): return getattr(self.f, n)
    def myopen(p, mode="r", *a, **k):
        sp = os.fspath(p)
        if isinstance(sp, str) and sp.startswith(base):
            tick("open", rel(sp, base), mode); f = real_open(p, mode, *a, **k)
            return F(f, rel(sp, base)) if "w" in mode else f
        return real_open(p, mode, *a, **k)
    builtins.open = myopen
base = tempfile.mkdtemp(); install(base)
s = LocalFileStore(base + "/i", base + "/d"); n0 = len(TRACE)
s.store_blob("KEY", "hello"); n1 = len(TRACE)
s.sync_paths(collections.OrderedDict([("/a/b", "KEY")])); n2 = len(TRACE)
print("init:", TRACE[:n0]); print("store_blob:", TRACE[n0:n1]); print("sync_paths:", TRACE[n1:n2])
# kill in the middle of the blob write
KILL_AT = len(TRACE) + 2
try: s.store_blob("KEY2", "world")
except Killed: print("killed after", TRACE[-3:])
KILL_AT = None
print("state after kill: has_blob", s.has_blob("KEY2"), "fetch", repr(s.fetch_blob("KEY2")), "file:", repr(io.open(base+"/i/blobs/KEY2","rb").read()))
