class _L:
    def __init__(self): self.items=[]
    def rec(self,*a): self.items.append(a)
    def take(self):
        r=self.items; self.items=[]; return r
L=_L()
