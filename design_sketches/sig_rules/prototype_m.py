"""Prototype of the model's signature rules, compared byte-for-byte with the real analysis."""
import sys, inspect; import os; sys.path.insert(0, os.path.dirname(os.path.abspath(__file__)))
import dds
from dds.store import MemoryStore
from dds.fun_args import dds_hash as H, dds_hash_commut as X
dds.accept_module("sg")
import sg.m as m

class Cap(MemoryStore):
    def sync_paths(self, p): self.last = dict(p); super().sync_paths(p)
st = Cap(); dds.set_store(st)
dds.eval(m.root)
impl = st.last

def lines(f): return inspect.getsource(f).split("\n")
NONE = object()
def build(body, argctx, deps, subs, exts, vars_):
    named, inner = argctx
    pairs = [] if body is None else [("body_sig", body)]
    if any(v is None for v in named.values()):
        pairs += [("arg_context", inner)]
    else:
        pairs += [(f"arg_{k}", v) for k, v in named.items()]
    pairs += [(f"dep_{p}", s) for p, s in deps.items()]
    pairs += [(f"fun_dep_{i}", s) for i, s in enumerate(subs)]
    pairs += [(f"ext_dep_{k}", H(dds.structures.CanonicalPath(__import__('pathlib').PurePosixPath(v)))) for k, v in exts.items()]
    pairs += [(f"ext_variable_{k}", H(v)) for k, v in vars_.items()]
    return X(pairs) if pairs else None

# abstract program: name -> (fn, params[(name, default|NONE)], vars, exts, items)
# items: ("call", callee, line) | ("keep", path, callee, [consts or None], {kw: const|None}, line) | ("ref", callee, line)
P = {
 "leaf":   (m.leaf,   [], {"V": 3}, {}, []),
 "leaf2":  (m.leaf2,  [("a", NONE)], {"W": "w"}, {}, []),
 "k_const":(m.k_const,[("a", NONE), ("b", 2)], {}, {}, []),
 "k_rt":   (m.k_rt,   [("a", NONE)], {}, {}, [("call", "leaf", 2)]),
 "helper": (m.helper, [("n", NONE)], {}, {}, [("call", "leaf", 2), ("keep", "/h/rt", "k_rt", [None], {}, 3)]),
 "root":   (m.root,   [], {}, {"L": "sg/m/L"}, [("call", "leaf", 2), ("keep", "/c1", "k_const", [1], {}, 3),
            ("keep", "/c2", "k_const", [1], {"b": 5}, 4), ("keep", "/r1", "k_rt", [None], {}, 5),
            ("call", "leaf2", 6), ("call", "helper", 7), ("ref", "leaf", 9)]),
}
paths = {}
def ast_args(params, pos, kw):
    out = {}
    for i, (n, d) in enumerate(params):
        if i < len(pos): v = pos[i]; out[n] = None if v is None else H(v)
        elif n in kw:    v = kw[n];  out[n] = None if v is None else H(v)
        elif d is not NONE: out[n] = H(d or "__none__")
        else: out[n] = None
    return out
def sig(name, argctx, seen_names=None):
    fn, params, vars_, exts, items = P[name]
    ls = lines(fn)
    input_sig = build(None, argctx, {}, [], exts, vars_) or H([])
    inters = []
    called = set()
    for it in items:
        kind = it[0]; line = it[-1]
        if kind == "ref" and it[1] in called: continue
        ctx_pairs = [("body_sig", H(ls[: line + 1])), ("function_input_hash", input_sig)]
        if inters: ctx_pairs.append(("function_inter_hash", X([(f"fun_dep_{i}", s) for i, s in enumerate(inters)])))
        ctx = X(ctx_pairs)
        if kind in ("call", "ref"):
            callee = it[1]; called.add(callee)
            s = sig(callee, (ast_args(P[callee][1], [], {}), ctx))
        else:
            _, path, callee, pos, kw, _ = it
            first = callee not in called
            s = sig(callee, (ast_args(P[callee][1], pos, kw), ctx)); paths[path] = s
            called.add(callee)
            if first:
                # generic_visit of the keep call then meets the callee *name*: analysed as a bare reference
                inters.append(s)
                ctx_pairs = [("body_sig", H(ls[: line + 1])), ("function_input_hash", input_sig),
                             ("function_inter_hash", X([(f"fun_dep_{i}", x) for i, x in enumerate(inters)]))]
                s = sig(callee, (ast_args(P[callee][1], [], {}), X(ctx_pairs)))
        inters.append(s)
    return build(H(ls), argctx, {}, inters, exts, vars_)
root_sig = sig("root", ({}, None))
ok = True
for p in sorted(impl):
    print(p, impl[p][:16], paths.get(p, "?")[:16], impl[p] == paths.get(p)); ok &= impl[p] == paths.get(p)
print("ALL EQUAL" if ok and set(impl) == set(paths) else "MISMATCH")
