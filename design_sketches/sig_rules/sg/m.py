import dds
from plog import L
V = 3
W = "w"
def leaf():
    return "leaf" + str(V)
def leaf2(a):
    return "leaf2" + str(a) + W
def k_const(a, b=2):
    return "kc" + str(a) + str(b)
def k_rt(a):
    return "krt" + str(a) + leaf()
def helper(n):
    r = leaf()
    return dds.keep("/h/rt", k_rt, n + r)
def root():
    a = leaf()
    b = dds.keep("/c1", k_const, 1)
    c = dds.keep("/c2", k_const, 1, b=5)
    d = dds.keep("/r1", k_rt, a + b)
    e = leaf2(d)
    f = helper(e)
    L.rec("x")
    g = leaf
    return a + b + c + d + e + f
