import dds
def inner(a):
    return "i" + str(a)
def outer(n):
    return dds.keep("/in", inner, n)
def root():
    x = 1
    return dds.keep("/out", outer, x + 1)
