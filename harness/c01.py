"""C01 - memoised evaluation returns exactly what plain execution would return.

Every step of every generated history is evaluated three times: by the real dds (in-process, /repo),
by running the *same files* with a dds-free stand-in (reference subprocess), and by the Lean model
(`evalStep` / `plainFn`). Correspondence: returned value, error, execution log, byte-exact signatures,
plain-execution value. Property oracle (implementation only): value returned by dds == value returned
by the dds-free run, at every step, whatever was evaluated before against the same store.
"""
import json

from .c05 import dec as c05dec
from . import common, hist, pipeline, progs

DESIGN_REF = "DESIGN.md §5 C01"
ASSUMPTIONS = ["supported subset = straight-line functions over accepted modules: plain calls without arguments, higher-order "
               "references, keeps with literal / run-time / default / keyword arguments, data functions, tracked module variables of "
               "the authorised types; classes, lambdas and conditionals around keep are outside the model (DESIGN §8)",
               "edits between values that dds_hash identifies (documented identifications and C05 known findings) are excluded: "
               "they are C05's concern",
               "values that mention the non-accepted companion module are compared modulo its version (non-accepted code is "
               "assumed not to change results)"]


def run(ctx):
    res = common.Result()
    thorough = ctx["tier"] == "thorough"
    common.import_dds()

    uc = progs.UniverseCheck()
    from dds.fun_args import dds_hash as _dds_hash

    def hash_fn(v):
        try:
            return _dds_hash(c05dec(v))
        except Exception as e:  # unsupported value: no hash, no collision
            return "exc:" + repr(v)

    def on_record(rec, s):
        res.evaluations += 1
        uc.add_world(progs.model_world(rec.world, "extmod"), hash_fn)
        res.count("edit_" + rec.edit["kind"])
        res.count("store_" + rec.store_kind)
        res.count("entry_" + rec.entry["kind"])
        hist.compare_with_model(rec, res)
        r, rr = rec.real, rec.ref
        res.nontrivial(json.dumps([rec.hist, rec.step]))
        if rr["error"] is not None:
            res.count("reference_error")
            return
        if r["error"] is not None and r["error"].get("code") == "OVERLAPPING_PATH" and not progs.sites_ok(rec.world):
            # outside the supported subset, and said so: a path kept twice with different code or arguments
            res.count("rejected_path_kept_twice")
            return
        if r["error"] is not None and r["error"].get("kind") == "dds" and "before the function that produces it" in (r["error"].get("msg") or ""):
            # an edit (e.g. a deleted call) left a dds.load in front of the call that produces its path: refused by design (C09),
            # where plain execution would silently read the previous content
            res.count("rejected_load_before_produce")
            return
        if r["error"] is not None:
            res.violations.append({"what": "dds fails where plain execution succeeds: %s" % (r["error"],),
                                   "input": {"step": rec.brief(), "source": progs.render_world(rec.world, "extmod")}, "kf": None})
        elif pipeline.norm_ext(r["value"]) != pipeline.norm_ext(rr["value"]):
            res.violations.append({"what": "value returned by dds differs from plain execution of the same code",
                                   "input": {"step": rec.brief(), "dds": r["value"], "plain": rr["value"],
                                             "source": progs.render_world(rec.world, "extmod")}, "kf": None})
    kinds = ("memory", "local", "local_lru", "memory", "noop") if thorough else ("memory", "memory", "local", "local_lru", "noop")
    recs = hist.run_histories(ctx, res, 400 if thorough else 60, 10 if thorough else 6, store_kinds=kinds,
                              on_record=on_record)
    # pipelines that read back, with dds.load, paths kept earlier in the same evaluation (and, after an edit that deletes the
    # producer, paths committed by earlier evaluations)
    recs += hist.run_histories(ctx, res, 120 if thorough else 30, 6, store_kinds=("memory", "local", "memory"), on_record=on_record,
                               allow=("call", "ref", "keep", "datafn", "load", "shadow"))
    # paths produced by an EARLIER evaluation, loaded (once / several times) in front of a keep that is fed the loaded value:
    # produce, evaluate, change the producer, produce again, evaluate - every value is the plain one (the C09 matrix in short)
    import copy as _copy
    rng = ctx["rng"]
    for li, (pl, pr, nl) in enumerate([(pl, pr, nl) for pl in ("feeds_keep", "kept", "root") for pr in ("datafn", "keep") for nl in (1, 2, 3)]):
        if not thorough and li % 2 == (ctx["seed"] % 2):
            continue
        w, meta = progs.gen_load_world(rng, pl, pr, "earlier", "none", nloads=nl)
        prod_entry = {"kind": "direct", "fun": "fp"} if pr == "datafn" else {"kind": "keep", "fun": "fp", "path": "/prod"}
        with pipeline.Session(["memory", "local"][li % 2], tag="c01l") as s:
            msteps = [{"set_store": "dict"}]
            outs = []
            for ver in range(3):
                w2 = _copy.deepcopy(w)
                for f in w2["funs"]:
                    if f["name"] == "fp":
                        for _ in range(ver % 2 + (ver // 2) * 2):
                            f["tag"] = progs.bump_tag(f["tag"])
                s.set_world(w2)
                msteps.append({"world": progs.model_world(w2, s.extmod)})
                for e in (prod_entry, {"kind": "eval", "fun": "f0"}):
                    r, rr = s.run(e)
                    msteps.append({"run": {"entry": e}})
                    outs.append((e, r, rr, w2))
                    res.evaluations += 1
                    res.count("external_load_steps")
                    res.nontrivial("extload %d %d %s" % (li, ver, e["kind"]))
                    if rr["error"] is None and (r["error"] is not None or pipeline.norm_ext(r["value"]) != pipeline.norm_ext(rr["value"])):
                        res.violations.append({"what": "value returned by dds differs from plain execution of the same code (a path produced by an earlier "
                                                       "evaluation is loaded %d time(s)): %r (error %s) vs %r" % (nl, r["value"], r["error"], rr["value"]),
                                               "input": {"case": meta, "version": ver, "entry": e, "source": progs.render_world(w2, "extmod")}, "kf": None})
            if ctx["driver_ok"]:
                ans = common.drv_batch([{"op": "history", "max": 10000, "steps": msteps}])[0]
                for (e, r, rr, w2), m in zip(outs, ans.get("ok") or []):
                    if r["value"] != m["value"] or r["log"] != m["log"] or (r["paths"] is not None and r["error"] is None and r["paths"] != dict(m["paths"])):
                        res.disagreements.append({"what": "implementation differs from the model (external loads)", "case": meta, "impl": [r["value"], r["log"]],
                                                  "model": [m["value"], m["log"]], "source": progs.render_world(w2, "extmod")})
                        break
    # functions invoked from several sites (a path possibly kept twice): rejected explicitly, or every value right
    recs += hist.run_histories(ctx, res, 80 if thorough else 24, 3, store_kinds=("memory",), on_record=on_record, allow="multi")
    # directed stratum: literal arguments flowing down chains of keeps through run-time expressions
    recs += hist.run_histories(ctx, res, 100 if thorough else 20, 6, store_kinds=("memory",), on_record=on_record, allow="chain",
                               edit_kinds=["const_arg", "const_arg", "var", "body", "revert", "none", "multiline", "rt_arg", "rt_arg"])
    if res.disagreements and not res.violations:
        # the model no longer describes the code: search harder for a concrete failing input on the real code
        res.notes.append("correspondence broken: extended failing-input search (x6 histories, longer)")
        saved = ctx["driver_ok"]
        ctx["driver_ok"] = False
        hist.run_histories(ctx, res, 200, 10, store_kinds=("memory",), on_record=on_record)
        if not res.violations:
            # directed: deep keep nesting, edits that change what a signature must see
            hist.run_histories(ctx, res, 150, 8, store_kinds=("memory",), on_record=on_record, allow="chain",
                               edit_kinds=["const_arg", "const_arg", "var", "body", "revert"])
        ctx["driver_ok"] = saved
    if recs:
        r0 = recs[len(recs) // 2]
        res.sample({"step": r0.brief(), "dds": r0.real["value"], "plain": r0.ref["value"], "executed": r0.real["log"],
                    "source": progs.render_world(r0.world, "extmod")})
    # language features outside the model (classes, inheritance, import aliases, ...): real dds against plain execution only
    from . import c01x
    c01x.run_extended(ctx, res, thorough)
    # the top-level entry points called with arguments, for every kind of parameter list (public API only)
    c01x.run_toplevel_entry(ctx, res, "values")
    # which names of a function body are module names at all (nested scopes): implementation, model and CPython's symbol table
    from . import c01s
    c01s.run_scope(ctx, res, thorough)
    # kept calls executed several times in one evaluation (loops)
    c01s.run_loops(ctx, res, thorough)
    c01s.run_result_types(ctx, res, thorough)
    # names bound by import statements inside function bodies: implementation, model (DdsModel/Imports.lean), CPython
    c01s.run_imports(ctx, res, thorough)
    c01s.run_imports_in_package_init(ctx, res, thorough)
    c01s.run_lazy_submodule(ctx, res, thorough)
    # the code lives in IPython cells
    c01s.run_notebook(ctx, res, thorough)
    # the order in which the calls of an expression are analysed
    c01s.run_order(ctx, res, thorough)
    pipeline.close_ref()
    # the hypotheses of C01.sig_sound / memo_correct / history_correct on everything that was generated
    res.count("universe_function_versions", uc.functions)
    res.count("keeps_applied_to_data_functions(outside keepsPlain)", uc.keeps_on_data_functions)
    for pb in sorted(set(uc.problems))[:5]:
        res.disagreements.append({"what": "hypothesis of the Lean theorems (structure Universe) not met by a generated program: " + pb})
    res.rule = ("seeded histories over generated pipelines (2..8 functions; call / reference / keep with literal, run-time, default and "
                "keyword arguments / data functions; module variables int, str, list, dict) x edits {body, variable, literal argument, "
                "unrelated additions, reordering, non-accepted code, revert, restart, copy to another module, entry-style switch} x "
                "stores {memory, local, local+cache, noop}; one case = one evaluation step")
    res.violations = res.violations[:5]
    return res
