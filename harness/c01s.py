"""C01, discovery of the module names of a function body (Lean: DdsModel/Scope.lean, theorem C01.names_looked_up_are_module_reads).

Three observers of one generated function body (lambdas, comprehensions, assignment expressions, nested functions, global /
nonlocal declarations, for / with / augmented targets, del, except-as; local names drawn from the same pool as the module's
variables and functions, so that they shadow them):
  * the implementation: the real analysis of the function (dds.introspect.introspect): the module variables it records
    (external_deps) and the module functions it analyses (parsed_body);
  * the model: `ddsNames` (what the code computes) and `pyGlobalReads` (Python's resolution), run by the driver;
  * CPython itself: the compiled function: the names its bytecode (and the code objects nested in it) loads from the module.
Correspondence: implementation == ddsNames (as sets); pyGlobalReads == CPython. The theorem closes the triangle.
Property oracle: directed functions where a local of a nested scope shadows a module variable / function that the enclosing
function also reads: after an edit of that variable / function the kept function returns what plain execution returns.
"""
import json
import os
import re
import shutil
import sys
import tempfile
from collections import OrderedDict

from . import common, pipeline

VARS = ["VA", "VB", "VC"]
FUNS = ["hf", "hg"]
LOCALS = ["p", "q", "t"]
POOL = VARS + FUNS + LOCALS


class Gen(object):
    def __init__(self, rng):
        self.rng = rng
        self.uid = 0

    def name(self, pool=POOL):
        return self.rng.choice(pool)

    def expr(self, depth, no_walrus=False, forbidden=()):
        """forbidden: iteration variables of the enclosing comprehensions (an assignment expression may not rebind them)"""
        r = self.rng.random()
        if depth <= 0 or r < 0.30:
            return {"t": "name", "x": self.name()} if self.rng.random() < 0.85 else {"t": "const"}
        if r < 0.40:
            return {"t": "attr", "e": self.expr(depth - 1, no_walrus, forbidden), "a": "real"}
        if r < 0.62:
            f = self.expr(depth - 1, no_walrus, forbidden)
            return {"t": "app", "f": f, "a": self.expr(depth - 1, no_walrus, forbidden),
                    "call": f["t"] == "name" and f["x"] in FUNS and self.rng.random() < 0.8}
        if r < 0.74:
            ps = self.rng.sample(POOL, self.rng.randint(0, 2))
            # an assignment expression inside a lambda binds in the lambda: the enclosing comprehensions do not matter
            return {"t": "lam", "params": ps, "body": self.expr(depth - 1, no_walrus, ())}
        if r < 0.92:
            ts = self.rng.sample(POOL, self.rng.randint(1, 2))
            return {"t": "comp", "targets": ts, "iter": self.expr(depth - 1, True, forbidden),
                    "inner": self.expr(depth - 1, no_walrus, tuple(forbidden) + tuple(ts)),
                    "kind": self.rng.choice(["list", "set", "gen", "dict"])}
        if no_walrus:
            return {"t": "name", "x": self.name()}
        cands = [x for x in VARS + LOCALS if x not in forbidden]
        if not cands:
            return {"t": "name", "x": self.name()}
        return {"t": "walrus", "x": self.rng.choice(cands), "e": self.expr(depth - 1, no_walrus, forbidden)}

    def stmts(self, depth, n, enclosing_bound, nested):
        """a function body: declarations first, then n statements; returns (stmt, declared names)"""
        body = []
        for _ in range(n):
            body.append(self.stmt(depth, enclosing_bound, nested))
        return body

    def stmt(self, depth, enclosing_bound, nested):
        r = self.rng.random()
        if r < 0.30:
            return {"t": "expr", "e": self.expr(depth)}
        if r < 0.55:
            ts = self.rng.sample(VARS + LOCALS + (FUNS if self.rng.random() < 0.3 else []), self.rng.randint(1, 2))
            style = self.rng.choice(["assign", "for", "with", "aug"])
            if style in ("with", "aug"):
                ts = ts[:1]
            return {"t": "assign", "targets": ts, "e": self.expr(depth), "style": style}
        if r < 0.60:
            return {"t": "del", "x": self.name(VARS + LOCALS)}
        if r < 0.66:
            return {"t": "exceptAs", "x": self.name(VARS + LOCALS)}
        if r < 0.82 and depth > 0:
            return self.defn(depth - 1, enclosing_bound)
        if r < 0.92 and depth > 0:
            return {"t": "seq", "a": {"t": "expr", "e": self.expr(depth - 1)}, "b": self.stmt(depth - 1, enclosing_bound, nested), "style": "if"}
        return {"t": "skip"}

    def defn(self, depth, enclosing_bound):
        self.uid += 1
        fname = self.rng.choice(["inner%d" % self.uid] + (FUNS + LOCALS if self.rng.random() < 0.3 else []))
        ps = self.rng.sample(POOL, self.rng.randint(0, 2))
        hdr = self.expr(1, no_walrus=True) if self.rng.random() < 0.4 else {"t": "const"}
        if hdr["t"] != "const":
            ps = ps + ["_d%d" % self.uid]
        body = self.stmts(depth, self.rng.randint(1, 3), None, True)
        decl = []
        used_before = set()
        # global declarations: not parameters, variables only (functions are excluded: the by-name analysis of functions is
        # flow-sensitive for assigned names)
        if self.rng.random() < 0.35:
            gl = [x for x in self.rng.sample(VARS + LOCALS, self.rng.randint(1, 2)) if x not in ps and x not in aug_targets(seq(body))]
            if gl:
                decl.append({"t": "global", "xs": gl})
                used_before.update(gl)
        if enclosing_bound and self.rng.random() < 0.3:
            nl = [x for x in self.rng.sample(sorted(enclosing_bound), 1) if x not in ps and x not in used_before]
            if nl:
                decl.append({"t": "nonlocal", "xs": nl})
        return {"t": "defn", "name": fname, "params": ps, "header": hdr, "body": seq(decl + body)}


def seq(items):
    if not items:
        return {"t": "skip"}
    if len(items) == 1:
        return items[0]
    return {"t": "seq", "a": items[0], "b": seq(items[1:]), "style": "plain"}


def aug_targets(stmt):
    """targets of augmented assignments in the scope of the statement (an augmented assignment to a name declared global reads
    and rewrites a module variable: outside the fragment)"""
    t = stmt["t"]
    if t == "assign" and stmt.get("style") == "aug":
        return set(stmt["targets"])
    if t == "seq":
        return aug_targets(stmt["a"]) | aug_targets(stmt["b"])
    return set()


def strip(node):
    """the model's view: without the rendering hints"""
    if isinstance(node, dict):
        return {k: strip(v) for k, v in node.items() if k not in ("style", "kind", "call")}
    if isinstance(node, list):
        return [strip(x) for x in node]
    return node


def bound_of(stmt):
    """names bound by a statement in its own scope (for choosing nonlocal declarations); an under-approximation is fine"""
    t = stmt["t"]
    if t == "assign":
        return set(stmt["targets"])
    if t == "seq":
        return bound_of(stmt["a"]) | bound_of(stmt["b"])
    if t in ("del", "exceptAs"):
        return {stmt["x"]}
    return set()


def render_expr(e):
    t = e["t"]
    if t == "name":
        return e["x"]
    if t == "const":
        return "1"
    if t == "attr":
        return "(%s).%s" % (render_expr(e["e"]), e["a"])
    if t == "app":
        if e.get("call"):
            return "%s(%s)" % (render_expr(e["f"]), render_expr(e["a"]))
        return "(%s + %s)" % (render_expr(e["f"]), render_expr(e["a"]))
    if t == "lam":
        return "(lambda %s: %s)" % (", ".join(e["params"]), render_expr(e["body"]))
    if t == "comp":
        tg = ", ".join(e["targets"]) if len(e["targets"]) > 1 else e["targets"][0]
        if len(e["targets"]) > 1:
            tg = "(%s)" % tg
        inner, it, kind = render_expr(e["inner"]), render_expr(e["iter"]), e.get("kind", "list")
        if kind == "list":
            return "[%s for %s in %s]" % (inner, tg, it)
        if kind == "set":
            return "{%s for %s in %s}" % (inner, tg, it)
        if kind == "dict":
            return "{1: %s for %s in %s}" % (inner, tg, it)
        return "list(%s for %s in %s)" % (inner, tg, it) if False else "(%s for %s in %s)" % (inner, tg, it)
    if t == "walrus":
        return "(%s := %s)" % (e["x"], render_expr(e["e"]))
    raise ValueError(t)


def render_stmt(s, ind):
    pad = "    " * ind
    t = s["t"]
    if t == "expr":
        return [pad + render_expr(s["e"])]
    if t == "assign":
        tg = ", ".join(s["targets"])
        style = s.get("style", "assign")
        if style == "for":
            return [pad + "for %s in %s:" % (tg, render_expr(s["e"])), pad + "    pass"]
        if style == "with":
            return [pad + "with %s as %s:" % (render_expr(s["e"]), tg), pad + "    pass"]
        if style == "aug":
            return [pad + "%s += %s" % (tg, render_expr(s["e"]))]
        return [pad + "%s = %s" % (tg, render_expr(s["e"]))]
    if t == "del":
        return [pad + "del " + s["x"]]
    if t == "global":
        return [pad + "global " + ", ".join(s["xs"])]
    if t == "nonlocal":
        return [pad + "nonlocal " + ", ".join(s["xs"])]
    if t == "exceptAs":
        return [pad + "try:", pad + "    pass", pad + "except Exception as %s:" % s["x"], pad + "    pass"]
    if t == "defn":
        ps = list(s["params"])
        if s["header"]["t"] != "const":
            ps = ps[:-1] + ["%s=%s" % (ps[-1], render_expr(s["header"]))]
        return [pad + "def %s(%s):" % (s["name"], ", ".join(ps))] + render_stmt(s["body"], ind + 1)
    if t == "seq":
        if s.get("style") == "if":
            return [pad + "if %s:" % render_expr(s["a"]["e"])] + render_stmt(s["b"], ind + 1)
        return render_stmt(s["a"], ind) + render_stmt(s["b"], ind)
    if t == "skip":
        return [pad + "pass"]
    raise ValueError(t)


MODULE_HEAD = ("VA = 1\nVB = 2\nVC = 3\np = 4\nq = 5\nt = 6\n\n"
               "def hf(*a):\n    return 7\n\n\ndef hg(*a):\n    return 8\n\n\n")


ORACLE = r"""
import dis, json, sys
out = []
for (src, fname) in json.load(sys.stdin):
    top = compile(src, "<generated>", "exec")
    fn = [c for c in top.co_consts if hasattr(c, "co_code") and c.co_name == fname][0]
    names = set()
    def walk(code):
        for ins in dis.get_instructions(code):
            if ins.opname in ("LOAD_GLOBAL", "LOAD_NAME"):
                names.add(ins.argval)
        for c in code.co_consts:
            if hasattr(c, "co_code"):
                walk(c)
    walk(fn)
    out.append(sorted(names))
json.dump({"version": list(sys.version_info[:3]), "names": out}, sys.stdout)
"""


def cpython_global_reads(cases):
    """for every (source, function name): the names the compiled function (and the code objects nested in it) loads from the
    module - LOAD_GLOBAL in the bytecode. Compiled by an interpreter that gives comprehensions their own code object (< 3.12):
    CPython 3.12.0 / 3.12.1 inline comprehensions and, when a name is the variable of one comprehension and read from the
    module in another one of the same function, compile the read as a local one (plain execution then raises
    UnboundLocalError): an interpreter defect, not the language. Returns (list of sets, interpreter version) or (None, None)."""
    import subprocess
    for exe in ("python3-vt", "python3.11", "python3.10", "python3.9"):
        path = shutil.which(exe)
        if not path:
            continue
        try:
            p = subprocess.run([path, "-c", ORACLE], input=json.dumps(cases), capture_output=True, text=True, timeout=300)
            ans = json.loads(p.stdout)
        except BaseException:
            continue
        if tuple(ans["version"]) < (3, 12, 0) and len(ans["names"]) == len(cases):
            return [set(x) for x in ans["names"]], ".".join(str(v) for v in ans["version"])
    return None, None


def analysed_names(modname, fname):
    """the real analysis of the function: (module variables recorded, module functions analysed)"""
    import importlib
    import dds
    from dds.introspect import introspect
    from dds._eval_ctx import EvalMainContext
    from dds.fun_args import get_arg_ctx
    import dds.introspect as di
    mod = importlib.import_module(modname)
    f = getattr(mod, fname)
    ectx = EvalMainContext(f.__module__, whitelisted_packages=di._accepted_packages, start_globals={},
                           resolved_references=OrderedDict())
    fis = introspect(f, ectx, get_arg_ctx(f, (), {}))
    vs = set(str(d.local_path) for d in fis.external_deps)
    fs = set(str(x.fun_path).strip("<>").split("/")[-1] for x in fis.parsed_body)
    return vs, fs


DIRECTED = [
    # (name, source of the function(s), entry, edits: list of (old text, new text) applied to the module one after the other)
    ("comprehension variable named like a module variable that the function also reads",
     "def f0():\n    return term('f0', VA, [VA for VA in (1, 2)])\n", [("VA = 1\n", "VA = 11\n")]),
    ("generator variable named like a module function that the function also calls",
     "def f0():\n    return term('f0', hf(), list(hf for hf in (1, 2)))\n", [("    return 7\n", "    return 77\n")]),
    ("name assigned in a nested function, module variable of that name read by the enclosing function",
     "def f0():\n    def inner():\n        VB = 5\n        return VB\n    return term('f0', inner(), VB)\n", [("VB = 2\n", "VB = 22\n")]),
    ("name assigned in a nested function, module function of that name called by the enclosing function",
     "def f0():\n    def inner():\n        hg = 5\n        return hg\n    return term('f0', inner(), hg())\n", [("    return 8\n", "    return 88\n")]),
    ("name assigned in a nested function, module function of that name referenced by name in the enclosing function",
     "def f0():\n    def inner():\n        hg = 5\n        return hg\n    k = hg\n    return term('f0', inner(), k())\n", [("    return 8\n", "    return 88\n")]),
    ("parameter of a nested function named like a module variable read by the enclosing function",
     "def f0():\n    def inner(VC):\n        return VC\n    return term('f0', inner(1), VC)\n", [("VC = 3\n", "VC = 33\n")]),
    ("lambda parameter named like a module variable read by the enclosing function",
     "def f0():\n    g = lambda VA: VA + 1\n    return term('f0', g(1), VA)\n", [("VA = 1\n", "VA = 11\n")]),
    ("assignment to a name declared global in a nested function, module variable read by the enclosing function",
     "def f0():\n    def inner():\n        global t\n        return t\n    t2 = inner()\n    return term('f0', t2, VB)\n", [("t = 6\n", "t = 66\n"), ("VB = 2\n", "VB = 23\n")]),
    ("dict comprehension and nested lambda",
     "def f0():\n    g = (lambda VB: VB)\n    d = {k: g(k) for k in (1,)}\n    return term('f0', d, VB)\n", [("VB = 2\n", "VB = 24\n")]),
    ("name bound by 'except ... as' in a nested function",
     "def f0():\n    def inner():\n        try:\n            raise ValueError()\n        except ValueError as VC:\n            pass\n        return 1\n    return term('f0', inner(), VC)\n",
     [("VC = 3\n", "VC = 34\n")]),
]


def run_scope(ctx, res, thorough):
    rng = ctx["rng"]
    common.import_dds()
    import dds
    n_cases = 400 if thorough else 120
    base = tempfile.mkdtemp(prefix="ddsverif_c01s_")
    pkg = "c1s_%d" % os.getpid()
    try:
        os.makedirs(os.path.join(base, pkg))
        open(os.path.join(base, pkg, "__init__.py"), "w").close()
        sys.path.insert(0, base)
        dds.accept_module(pkg)
        g = Gen(rng)
        cases = []
        src = MODULE_HEAD
        for i in range(n_cases):
            g.uid = 0
            params = rng.sample(POOL, rng.randint(0, 2))
            body_items = g.stmts(3, rng.randint(1, 4), None, False)
            # nested functions may declare nonlocal the names bound so far in the enclosing body
            fixed = []
            bound_so_far = set(params)
            for st in body_items:
                if st["t"] == "defn" and rng.random() < 0.5 and bound_so_far:
                    st = Gen.defn(g, 2, bound_so_far)
                fixed.append(st)
                bound_so_far |= bound_of(st)
            body = seq(fixed)
            fsrc = "def f%d(%s):\n" % (i, ", ".join("%s=0" % p_ for p_ in params)) + "\n".join(render_stmt(body, 1)) + "\n\n\n"
            try:
                compile(MODULE_HEAD + fsrc, "<generated>", "exec")
            except SyntaxError as e:
                res.count("scope_cases_rejected_by_python(%s)" % (str(e.msg)[:40]))
                continue
            cases.append((i, params, body, fsrc))
            src += fsrc
        with open(os.path.join(base, pkg, "scopes.py"), "w") as fh:
            fh.write(src)
        oracle, over = cpython_global_reads([(MODULE_HEAD + fsrc, "f%d" % i) for (i, _, _, fsrc) in cases])
        res.count("scope_oracle_interpreter_%s" % (over or "unavailable"))
        answers = common.drv_batch([{"op": "scope", "params": ps, "body": strip(b)} for (_, ps, b, _) in cases]) if ctx["driver_ok"] else []
        for idx, (i, params, body, fsrc) in enumerate(cases):
            res.evaluations += 1
            res.count("scope_cases")
            res.nontrivial("scope " + fsrc)
            try:
                vs, fs = analysed_names(pkg + ".scopes", "f%d" % i)
            except BaseException as e:
                # the analysis refuses some expressions as the function of a call: outside the fragment
                res.count("scope_cases_refused_by_analysis(%s: %s)" % (type(e).__name__, re.sub(r"[^A-Za-z ]+", " ", str(e))[:60]))
                continue
            if oracle is None:
                py = None
            else:
                py = oracle[idx] - {"Exception"}
            impl = set(vs) | set(fs)
            if not answers:
                # without the model: the implementation against CPython directly
                if py is not None and impl != py:
                    res.disagreements.append({"what": "names looked up by the analysis differ from the names CPython resolves to the module",
                                              "analysis": sorted(impl), "cpython": sorted(py), "source": fsrc})
                continue
            m = answers[idx]
            if "dds" not in m:
                res.disagreements.append({"what": "driver rejected the body", "detail": m, "source": fsrc})
                continue
            if py is not None and set(m["python"]) != py:
                res.disagreements.append({"what": "model pyGlobalReads differs from CPython's symbol table", "model": sorted(set(m["python"])),
                                          "cpython": sorted(py), "source": fsrc})
            if set(m["dds"]) != impl:
                res.disagreements.append({"what": "names looked up by the analysis (module variables recorded + module functions analysed) differ from "
                                                  "the model ddsNames", "analysis": sorted(impl), "model": sorted(set(m["dds"])), "source": fsrc})
            if len(set(m["python"])) < len(set(m["old"])) or set(m["old"]) != set(m["python"]):
                res.count("scope_cases_where_brute_force_locals_differ")
            if idx == 3:
                res.sample({"scope_case": fsrc, "looked_up": sorted(impl), "cpython": sorted(py or [])})
        if len(res.disagreements) > 6:
            del res.disagreements[6:]
    finally:
        if base in sys.path:
            sys.path.remove(base)
        for k in list(sys.modules):
            if k.split(".")[0] == pkg:
                del sys.modules[k]
        shutil.rmtree(base, ignore_errors=True)
    # directed, end to end: keep, edit the shadowed module variable / function, keep again: always the plain value
    real = pipeline.real_runner()
    ref = pipeline.ref_worker()
    for di_, (what, fsrc, edits) in enumerate(DIRECTED):
        base = tempfile.mkdtemp(prefix="ddsverif_c01sd_")
        pkg = "c1sd_%d_%d" % (os.getpid(), di_)
        try:
            real.reset_process_state()
            real.set_store(["memory", "local"][di_ % 2], os.path.join(base, "si"), os.path.join(base, "sd"))
            head = "import dds\nfrom ddsverif_rt import log, term\n\n" + MODULE_HEAD
            versions = [head]
            for (a, b) in edits:
                if versions[-1].count(a) != 1:
                    raise common.Infra("directed scope case %d: edit %r does not apply" % (di_, a))
                versions.append(versions[-1].replace(a, b))
            versions.append(head)      # and back
            os.makedirs(os.path.join(base, pkg), exist_ok=True)
            open(os.path.join(base, pkg, "__init__.py"), "w").close()
            for step, hd in enumerate(versions):
                with open(os.path.join(base, pkg, "main.py"), "w") as fh:
                    fh.write(hd + fsrc)
                real.load_world(base, pkg + ".main", None, accept=pkg)
                ref.call(cmd="world", dir=base, module=pkg + ".main", extmod=None)
                entry = {"kind": "keep", "fun": "f0", "path": "/scope/f0"}
                rr = ref.call(cmd="run", entry=entry)
                r = real.run(entry)
                res.evaluations += 1
                res.count("scope_directed_steps")
                res.nontrivial("scope directed %d %d" % (di_, step))
                if rr.get("error") is not None:
                    raise common.Infra("directed scope case %d does not run: %s" % (di_, rr["error"]))
                if r["error"] is not None or r["value"] != rr["value"]:
                    res.violations.append({"what": "%s: after the edit the kept function returns %r (error %s), plain execution %r" % (
                        what, r["value"], r["error"], rr["value"]), "input": {"source": hd + fsrc, "step": step, "edits": edits}, "kf": None})
                    break
        finally:
            shutil.rmtree(base, ignore_errors=True)
            for k in list(sys.modules):
                if k.split(".")[0] == pkg:
                    del sys.modules[k]


# ---------------------------------------------------------------------------------------------
# names bound by import statements inside function bodies (Lean: DdsModel/Imports.lean)
# ---------------------------------------------------------------------------------------------

I_MODS = ["m1", "m2"]          # always used as  X.fa()
I_FNS = ["g1", "g2", "hf"]     # always used as  X()
I_VRS = ["v1", "v2", "VA"]     # always used bare
I_LOCALS = ["p", "q"]
I_POOL = I_MODS + I_FNS + I_VRS + I_LOCALS
SUBS = ["ma", "mb", "mc"]


class GenI(object):
    """function bodies of the fragment of DdsModel/Imports.lean; `pk`: the accepted package, `ext`: a package that is not accepted"""

    def __init__(self, rng, pk, ext):
        self.rng, self.pk, self.ext = rng, pk, ext
        self.uid = 0
        self.hot = []          # the names imported so far in this function: used more often than the others

    def use(self, x):
        if x in I_MODS:
            return {"t": "app", "f": {"t": "attr", "e": {"t": "name", "x": x}, "a": "fa"}, "a": {"t": "const"}, "shape": "attrcall"}
        if x in I_FNS:
            return {"t": "app", "f": {"t": "name", "x": x}, "a": {"t": "const"}, "shape": "call"}
        return {"t": "name", "x": x}

    def expr(self, depth):
        r = self.rng.random()
        if depth <= 0 or r < 0.45:
            pool = self.hot if (self.hot and self.rng.random() < 0.5) else I_POOL
            return self.use(self.rng.choice(pool)) if self.rng.random() < 0.9 else {"t": "const"}
        if r < 0.65:
            return {"t": "app", "f": self.expr(depth - 1), "a": self.expr(depth - 1), "shape": "plus"}
        if r < 0.80:
            return {"t": "lam", "params": self.rng.sample(I_POOL, self.rng.randint(0, 2)), "body": self.expr(depth - 1)}
        ts = self.rng.sample(I_POOL, self.rng.randint(1, 2))
        return {"t": "comp", "targets": ts, "iter": self.expr(depth - 1), "inner": self.expr(depth - 1), "kind": self.rng.choice(["list", "set", "gen"])}

    def imp(self, accepted_only, avoid=()):
        kind = self.rng.choice(["mod", "fun", "var"])
        x = self.rng.choice([n for n in {"mod": I_MODS, "fun": I_FNS, "var": I_VRS}[kind] if n not in avoid] or ["m1"])
        if x in avoid:
            return {"t": "skip"}
        kind = "mod" if x in I_MODS else ("fun" if x in I_FNS else "var")
        root = self.pk if (accepted_only or self.rng.random() < 0.8) else self.ext
        sub = self.rng.choice(SUBS) if root == self.pk else "ext"
        path = [root, sub] + {"mod": [], "fun": ["fb"], "var": ["XA"]}[kind]
        self.hot.append(x)
        return {"t": "imp", "x": x, "p": path, "form": self.rng.choice(["absolute", "relative"]) if root == self.pk else "absolute"}

    def stmt(self, depth, accepted_only):
        r = self.rng.random()
        if r < 0.30:
            return {"t": "expr", "e": self.expr(depth)}
        if r < 0.48:
            # (now and then a local variable with the name of the imported root package)
            pool = I_POOL + ([self.pk] if self.rng.random() < 0.5 else [])
            return {"t": "assign", "targets": self.rng.sample(pool, self.rng.randint(1, 2)), "e": self.expr(depth)}
        if r < 0.66:
            return self.imp(accepted_only)
        if r < 0.82 and depth > 0:
            return self.defn(depth - 1, accepted_only)
        if r < 0.97 and depth > 0:
            # a compound statement (it opens no scope): the statement b - often an import - sits in its body, in an exception handler,
            # in a finally clause, under a case of a match statement
            cond = self.expr(depth - 1)
            if cond["t"] in ("const", "app"):
                # (a condition that the compiler can fold to a constant lets it drop the branch that cannot run - and with it the
                # names the oracle looks for: the condition starts with a name)
                cond = {"t": "app", "f": self.use(self.rng.choice(I_VRS + I_LOCALS)), "a": cond, "shape": "plus"}
            return {"t": "seq", "a": {"t": "expr", "e": cond}, "b": self.stmt(depth - 1, accepted_only),
                    "style": self.rng.choice(["if", "else", "except", "finally", "with", "while", "match", "tryelse"])}
        return {"t": "skip"}

    def defn(self, depth, accepted_only):
        self.uid += 1
        fname = self.rng.choice(["inner%d" % self.uid] + (I_FNS + I_LOCALS if self.rng.random() < 0.3 else []))
        ps = self.rng.sample(I_POOL + ([self.pk] if self.rng.random() < 0.35 else []), self.rng.randint(0, 2))
        hdr = self.use(self.rng.choice(I_POOL)) if self.rng.random() < 0.4 else {"t": "const"}
        if hdr["t"] != "const":
            ps = ps + ["_d%d" % self.uid]
        body = [self.stmt(depth, accepted_only) for _ in range(self.rng.randint(1, 3))]
        decl = []
        if self.rng.random() < 0.3:
            imported = {b["x"] for b in body if b["t"] == "imp"}
            gl = [x for x in self.rng.sample(I_VRS + I_LOCALS, self.rng.randint(1, 2)) if x not in ps and x not in imported]
            if gl:
                decl.append({"t": "global", "xs": gl})
        return {"t": "defn", "name": fname, "params": ps, "header": hdr, "body": seq(decl + body)}


def render_imp(s, pk):
    x, path = s["x"], s["p"]
    if len(path) == 2:
        if s.get("form") == "relative":
            return "from . import %s as %s" % (path[1], x)
        return ("import %s.%s as %s" % (path[0], path[1], x)) if (hash(x + path[1]) % 2) else ("from %s import %s as %s" % (path[0], path[1], x))
    if s.get("form") == "relative":
        return "from .%s import %s as %s" % (path[1], path[2], x)
    return "from %s.%s import %s as %s" % (path[0], path[1], path[2], x)


def render_istmt(s, ind, pk):
    pad = "    " * ind
    t = s["t"]
    if t == "imp":
        return [pad + render_imp(s, pk)]
    if t == "defn":
        ps = list(s["params"])
        if s["header"]["t"] != "const":
            ps = ps[:-1] + ["%s=%s" % (ps[-1], render_iexpr(s["header"]))]
        return [pad + "def %s(%s):" % (s["name"], ", ".join(ps))] + render_istmt(s["body"], ind + 1, pk)
    if t == "seq":
        st = s.get("style")
        if st in ("if", "else", "except", "finally", "with", "while", "match", "tryelse"):
            a, b = render_iexpr(s["a"]["e"]), render_istmt(s["b"], ind + 1, pk)
            if st == "if":
                return [pad + "if %s:" % a] + b
            if st == "else":
                return [pad + "if %s:" % a, pad + "    pass", pad + "else:"] + b
            if st == "except":
                return [pad + "try:", pad + "    " + a, pad + "except Exception:"] + b
            if st == "finally":
                return [pad + "try:", pad + "    " + a, pad + "finally:"] + b
            if st == "tryelse":
                return [pad + "try:", pad + "    " + a, pad + "except Exception:", pad + "    pass", pad + "else:"] + b
            if st == "with":
                return [pad + "with %s:" % a] + b
            if st == "while":
                return [pad + "while %s:" % a] + b
            return [pad + "match %s:" % a, pad + "    case _:"] + render_istmt(s["b"], ind + 2, pk)
        return render_istmt(s["a"], ind, pk) + render_istmt(s["b"], ind, pk)
    if t == "expr":
        return [pad + render_iexpr(s["e"])]
    if t == "assign":
        return [pad + "%s = %s" % (", ".join(s["targets"]), render_iexpr(s["e"]))]
    if t == "global":
        return [pad + "global " + ", ".join(s["xs"])]
    if t == "skip":
        return [pad + "pass"]
    raise ValueError(t)


def render_iexpr(e):
    t = e["t"]
    if t == "app":
        if e.get("shape") == "attrcall":
            return "%s.fa()" % e["f"]["e"]["x"]
        if e.get("shape") == "call":
            return "%s()" % e["f"]["x"]
        return "(%s + %s)" % (render_iexpr(e["f"]), render_iexpr(e["a"]))
    return render_expr(dict(e, body=e.get("body"), inner=e.get("inner"))) if t not in ("lam", "comp") else (
        "(lambda %s: %s)" % (", ".join(e["params"]), render_iexpr(e["body"])) if t == "lam" else
        {"list": "[%s for %s in %s]", "set": "{%s for %s in %s}", "gen": "(%s for %s in %s)"}[e.get("kind", "list")] % (
            render_iexpr(e["inner"]), ("(%s)" % ", ".join(e["targets"])) if len(e["targets"]) > 1 else e["targets"][0], render_iexpr(e["iter"])))


def strip_i(node):
    if isinstance(node, dict):
        return {k: strip_i(v) for k, v in node.items() if k not in ("style", "kind", "shape", "form")}
    if isinstance(node, list):
        return [strip_i(x) for x in node]
    return node


def expected_records(refs, pk, modname):
    """what the analysis records for the objects / names it looks up (every name is used in the way of its pool)"""
    out = set()
    for r in refs:
        kind, val = r.split(":", 1)
        if kind == "g":
            if val in ("hf", "g1"):
                out.add("fun:%s/%s/%s" % (pk, modname, val))
            elif val in ("VA", "v1"):
                out.add("var:" + val)
            elif val == "m1":
                out.add("fun:%s/mc/fa" % pk)         # the module binds m1 to <pk>.mc
        else:
            parts = val.split("/")
            if parts[0] != pk:
                continue
            if len(parts) == 2:
                out.add("fun:%s/fa" % val)
            elif parts[2] == "fb":
                out.add("fun:" + val)
            else:
                out.add("var:" + val)
    return out


IMPORT_CASES = [
    # (what, source of f1 (kept) written against the package %(pk)s, must evaluate (True) / may be refused (False))
    ("a use that comes before the import in the text and after it in the execution",
     "def f1():\n    out = []\n    for i in (0, 1):\n        if i == 1:\n            out.append(tool.fa())\n        else:\n            from %(pk)s import ma as tool\n    return term('f1', out)\n", True),
    ("a variable read through a module that the text imports further down",
     "def f1():\n    out = []\n    for i in (0, 1):\n        if i == 1:\n            out.append(tool.XA)\n        else:\n            from %(pk)s import ma as tool\n    return term('f1', out)\n", True),
    ("one name bound by two imports, one per branch",
     "def f1(flag=True):\n    if flag:\n        import %(pk)s.ma as impl\n    else:\n        import %(pk)s.mb as impl\n    return term('f1', impl.fa())\n", False),
    ("the import of a nested function next to a module-level name of the enclosing one",
     "from %(pk)s.mb import fa as h\n\ndef f1():\n    def g():\n        from %(pk)s.ma import fa as h\n        return h()\n    return term('f1', g(), h())\n", True),
    ("a parameter, a comprehension variable and a class attribute with the name of an imported module",
     "def f1():\n    from %(pk)s import ma as tool\n    def k(tool):\n        return tool.upper()\n    ks = [tool for tool in tool.fa()]\n"
     "    class K(object):\n        tool = 1\n        def m(self):\n            return tool.fa()\n    return term('f1', k('x'), ks, K().m())\n", True),
    ("a default value that uses the import the parameter is named after",
     "def f1():\n    from %(pk)s import ma as tool\n    def g(tool=tool.fa()):\n        return tool\n    return term('f1', g())\n", True),
    ("a local variable and a parameter with the name of the root package of the import",
     "def f1(%(pk)s=5):\n    from %(pk)s import ma\n    from %(pk)s.mb import fa as fb_, XA as xb\n    %(pk)s = 3\n    return term('f1', ma.fa(), fb_(), xb, %(pk)s)\n", True),
    ("functions referenced, not called, through names imported in the body",
     "from ddsverif_rt import hof\n\ndef f1():\n    from %(pk)s.ma import fa as r\n    from %(pk)s import mb as tool\n    return term('f1', hof(r), hof(tool.fa))\n", True),
    ("imports in an exception handler (the fallback when an accelerated version is missing) and under a case of a match statement",
     "def f1():\n    try:\n        raise ImportError('no accelerated version')\n    except ImportError:\n        from %(pk)s import ma as impl\n"
     "    match 1:\n        case _:\n            from %(pk)s.mb import fa as slow\n    return term('f1', impl.fa(), slow())\n", True),
    ("imports of variables and functions, relative forms",
     "def f1():\n    from .ma import fa as a1, XA as x1\n    from . import mb\n    return term('f1', a1(), x1, mb.fa(), mb.XA)\n", True),
]


def run_imports(ctx, res, thorough):
    """(1) generated bodies: the real analysis against the model `analyse` (DdsModel/Imports.lean), the model's Python resolution against
    the names CPython loads from the module; (2) directed, end to end: edits of the imported module, dds against plain execution"""
    rng = ctx["rng"]
    common.import_dds()
    import dds
    from dds.structures import DDSException
    n_cases = 300 if thorough else 100
    base = tempfile.mkdtemp(prefix="ddsverif_c01i_")
    pk, ext = "c1i_%d" % os.getpid(), "c1x_%d" % os.getpid()
    sub_src = "XA = 1\n\ndef fa():\n    return 1\n\n\ndef fb():\n    return 2\n"
    try:
        for d_, subs in ((pk, SUBS), (ext, ["ext"])):
            os.makedirs(os.path.join(base, d_))
            with open(os.path.join(base, d_, "__init__.py"), "w") as fh:
                fh.write("".join("from . import %s\n" % s_ for s_ in subs))
            for s_ in subs:
                with open(os.path.join(base, d_, s_ + ".py"), "w") as fh:
                    fh.write(sub_src)
        sys.path.insert(0, base)
        dds.accept_module(pk)
        head = ("import %s.mc as m1\n\nVA = 1\nv1 = 2\n\n\ndef hf(*a):\n    return 7\n\n\ndef g1(*a):\n    return 8\n\n\n" % pk)
        g = GenI(rng, pk, ext)
        cases, src = [], head
        for i in range(n_cases):
            g.uid = 0
            g.hot = []
            accepted_only = rng.random() < 0.7
            params = rng.sample(I_POOL, rng.randint(0, 2))
            items = [g.stmt(3, accepted_only) for _ in range(rng.randint(1, 4))]
            if i % 10 == 3:
                # a name bound twice in one scope: to one object (fine) or to two (refused)
                first = g.imp(True)
                second = dict(first, p=list(first["p"])) if rng.random() < 0.4 else dict(first, p=[first["p"][0], rng.choice(SUBS)] + first["p"][2:])
                items = [first] + items + [second]
            body = seq(items)
            fsrc = "def f%d(%s):\n" % (i, ", ".join("%s=0" % p_ for p_ in params)) + "\n".join(render_istmt(body, 1, pk)) + "\n\n\n"
            try:
                compile(head + fsrc, "<generated>", "exec")
            except SyntaxError as e:
                res.count("import_cases_rejected_by_python(%s)" % (str(e.msg)[:40]))
                continue
            cases.append((i, params, body, fsrc))
            src += fsrc
        with open(os.path.join(base, pk, "scopes.py"), "w") as fh:
            fh.write(src)
        oracle, over = cpython_global_reads([(head + fsrc, "f%d" % i) for (i, _, _, fsrc) in cases])
        answers = common.drv_batch([{"op": "imports", "params": ps, "body": strip_i(b), "accepted": [pk]}
                                    for (_, ps, b, _) in cases]) if ctx["driver_ok"] else []
        for idx, (i, params, body, fsrc) in enumerate(cases):
            res.evaluations += 1
            res.count("import_cases")
            res.nontrivial("imports " + fsrc)
            refused = None
            try:
                vs, fs = analysed_names_full(pk + ".scopes", "f%d" % i)
                impl = {"var:" + v.replace(".", "/") for v in vs} | {"fun:" + f for f in fs}
            except DDSException as e:
                refused = e.error_code.name if e.error_code is not None else "NO_CODE"
                impl = None
            except BaseException as e:
                res.count("import_cases_refused_by_analysis(%s: %s)" % (type(e).__name__, re.sub(r"[^A-Za-z ]+", " ", str(e))[:60]))
                continue
            if not answers:
                continue
            m = answers[idx]
            if "python" not in m:
                res.disagreements.append({"what": "driver rejected the body", "detail": m, "source": fsrc})
                continue
            if m["analysis"] is None or refused is not None:
                res.count("import_cases_refused_two_bindings")
                if not (m["analysis"] is None and refused == "CONSTRUCT_NOT_SUPPORTED"):
                    res.disagreements.append({"what": "a name bound to two objects: the analysis %s, the model %s" % (
                        "refuses (%s)" % refused if refused else "accepts", "refuses" if m["analysis"] is None else "accepts"), "source": fsrc})
                continue
            want = expected_records(m["analysis"], pk, "scopes")
            if impl != want:
                res.disagreements.append({"what": "objects and names looked up by the analysis (variables recorded + functions analysed) differ from the model "
                                                  "(DdsModel/Imports.lean analyse)", "analysis": sorted(impl), "model": sorted(want), "model_refs": m["analysis"], "source": fsrc})
            if m["hypotheses"]:
                res.count("import_cases_under_the_hypotheses_of_the_theorem")
                if m["analysis"] != m["python"]:
                    res.disagreements.append({"what": "the model contradicts its theorem (ddsRefs = pyRefs under the hypotheses)", "source": fsrc, "model": m})
            if set(m["unresolved"]) != set(m["python"]):
                res.count("import_cases_where_no_resolution_differs")
            if set(m["text_order"]) != set(m["python"]) and m["hypotheses"]:
                res.count("import_cases_where_text_order_resolution_differs")
            if set(m["chain"]) != set(m["python"]) and m["hypotheses"]:
                res.count("import_cases_where_a_local_hides_the_root_package")
            if oracle is not None:
                py_globs = {r[2:] for r in m["python"] if r.startswith("g:")}
                if py_globs != oracle[idx] - {"Exception"}:
                    res.disagreements.append({"what": "the model's Python resolution (pyRefs) reads other names from the module than CPython does",
                                              "model": sorted(py_globs), "cpython": sorted(oracle[idx]), "source": fsrc})
            if idx == 2:
                res.sample({"import_case": fsrc, "looked_up": sorted(impl), "model": m["analysis"]})
        if len(res.disagreements) > 6:
            del res.disagreements[6:]
    finally:
        if base in sys.path:
            sys.path.remove(base)
        for k in list(sys.modules):
            if k.split(".")[0] in (pk, ext):
                del sys.modules[k]
        shutil.rmtree(base, ignore_errors=True)
    # directed, end to end: keep, edit the imported module, keep again: the value of plain execution (or a refusal where allowed)
    real = pipeline.real_runner()
    ref = pipeline.ref_worker()
    for di_, (what, fsrc, must) in enumerate(IMPORT_CASES):
        base = tempfile.mkdtemp(prefix="ddsverif_c01id_")
        pkg = "c1id_%d_%d" % (os.getpid(), di_)
        try:
            real.reset_process_state()
            real.set_store(["memory", "local"][di_ % 2], os.path.join(base, "si"), os.path.join(base, "sd"))
            ref.call(cmd="refpaths", paths={})
            os.makedirs(os.path.join(base, pkg), exist_ok=True)
            with open(os.path.join(base, pkg, "__init__.py"), "w") as fh:
                fh.write("from . import ma, mb\n")
            with open(os.path.join(base, pkg, "main.py"), "w") as fh:
                fh.write("import dds\nfrom ddsverif_rt import log, term\n\n" + fsrc % {"pk": pkg} + "\ndef f0():\n    return dds.keep('/imp/f1', f1)\n")
            for step, (va, vb) in enumerate([(1, 1), (2, 1), (2, 2), (1, 1)]):
                for (mn, v) in (("ma", va), ("mb", vb)):
                    with open(os.path.join(base, pkg, mn + ".py"), "w") as fh:
                        fh.write("XA = %d\n\ndef fa():\n    return '%s.fa#%d'\n" % (10 * v, mn, v))
                real.load_world(base, pkg + ".main", None, accept=pkg)
                ref.call(cmd="world", dir=base, module=pkg + ".main", extmod=None)
                entry = {"kind": "eval", "fun": "f0"}
                rr = ref.call(cmd="run", entry=entry)
                r = real.run(entry)
                res.evaluations += 1
                res.count("import_directed_steps")
                res.nontrivial("imports directed %d %d" % (di_, step))
                if rr.get("error") is not None:
                    raise common.Infra("directed import case %d does not run: %s" % (di_, rr["error"]))
                if r["error"] is not None and r["error"].get("kind") == "dds" and not must:
                    res.count("import_directed_steps_refused")
                    continue
                if r["error"] is not None or r["value"] != rr["value"]:
                    res.violations.append({"what": "%s: after an edit of the imported module the kept function returns %r (error %s), plain execution %r" % (
                        what, r["value"], r["error"], rr["value"]), "input": {"source": fsrc % {"pk": pkg}, "step": step}, "kf": None})
                    break
        finally:
            shutil.rmtree(base, ignore_errors=True)
            for k in list(sys.modules):
                if k.split(".")[0] == pkg:
                    del sys.modules[k]


def run_imports_in_package_init(ctx, res, thorough):
    """the kept function lives in the __init__.py of a sub-package and imports, in its body, from that sub-package with relative
    imports (from .conf import scale): '.' is the sub-package itself, not its parent - where a module of the same name sits as a decoy"""
    real = pipeline.real_runner()
    ref = pipeline.ref_worker()
    for ci, store_kind in enumerate(["memory", "local"]):
        base = tempfile.mkdtemp(prefix="ddsverif_c01ip_")
        pkg = "c1ip_%d_%d" % (os.getpid(), ci)
        try:
            real.reset_process_state()
            real.set_store(store_kind, os.path.join(base, "si"), os.path.join(base, "sd"))
            ref.call(cmd="refpaths", paths={})
            os.makedirs(os.path.join(base, pkg, "etl"), exist_ok=True)
            open(os.path.join(base, pkg, "__init__.py"), "w").close()
            with open(os.path.join(base, pkg, "etl", "__init__.py"), "w") as fh:
                fh.write("import dds\nfrom ddsverif_rt import term\nfrom . import conf as _conf_is_loaded\n\n"
                         "def f1():\n    from .conf import scale\n    from . import conf\n    from .. import conf as up\n    return term('f1', scale(), conf.K, up.scale())\n")
            with open(os.path.join(base, pkg, "main.py"), "w") as fh:
                fh.write("import dds\nfrom ddsverif_rt import term\nfrom . import conf as _up_is_loaded\nfrom .etl import f1\n\ndef f0():\n    return dds.keep('/imp/init', f1)\n")
            for step, (v_etl, v_up) in enumerate([(1, 1), (2, 1), (2, 2), (1, 1)]):
                with open(os.path.join(base, pkg, "etl", "conf.py"), "w") as fh:
                    fh.write("K = %d\n\ndef scale():\n    return 'etl#%d'\n" % (10 * v_etl, v_etl))
                with open(os.path.join(base, pkg, "conf.py"), "w") as fh:
                    fh.write("K = %d\n\ndef scale():\n    return 'up#%d'\n" % (7 * v_up, v_up))
                real.load_world(base, pkg + ".main", None, accept=pkg)
                ref.call(cmd="world", dir=base, module=pkg + ".main", extmod=None)
                entry = {"kind": "eval", "fun": "f0"}
                rr = ref.call(cmd="run", entry=entry)
                r = real.run(entry)
                res.evaluations += 1
                res.count("import_in_package_init_steps")
                res.nontrivial("imports in a package __init__ %d %d" % (ci, step))
                if rr.get("error") is not None:
                    raise common.Infra("the package-init import case does not run: %s" % (rr["error"],))
                if r["error"] is not None or r["value"] != rr["value"]:
                    res.violations.append({"what": "a kept function defined in the __init__.py of a sub-package, with relative imports in its body: after an edit of the "
                                                   "imported modules it returns %r (error %s), plain execution %r" % (r["value"], r["error"], rr["value"]),
                                           "input": {"step": step, "versions": [v_etl, v_up], "store": store_kind}, "kf": None})
                    break
        finally:
            shutil.rmtree(base, ignore_errors=True)
            for k in list(sys.modules):
                if k.split(".")[0] == pkg:
                    del sys.modules[k]


LAZY_SCRIPT = ("import sys, json\nsys.path.insert(0, %(repo)r)\nsys.path.insert(0, %(proj)r)\nimport dds\nfrom dds.structures import DDSException\n"
               "dds.set_store('local', internal_dir=%(si)r, data_dir=%(sd)r)\ndds.accept_module('lazypk')\n%(pre)s\nimport lazypk.pipe\n"
               "try:\n    out = ['value', dds.keep('/lazy/price', lazypk.pipe.price, 5)]\n"
               "except DDSException as e:\n    out = ['refused', e.error_code.name if e.error_code is not None else None]\n"
               "print('RESULT ' + json.dumps({'dds': out, 'plain': lazypk.pipe.price(5)}))\n")


def run_lazy_submodule(ctx, res, thorough):
    """a sub-module of an accepted package that only the body of the kept function imports: when a fresh process analyses the function
    the sub-module is not loaded yet. Every run (one process each, one store; the sub-module edited in between) returns the value of
    plain execution or is refused - a stored result of the old code is never served"""
    import subprocess
    proj = tempfile.mkdtemp(prefix="ddsverif_c01z_")
    try:
        os.makedirs(os.path.join(proj, "lazypk"))
        open(os.path.join(proj, "lazypk", "__init__.py"), "w").close()
        with open(os.path.join(proj, "lazypk", "pipe.py"), "w") as fh:
            fh.write("import dds\n\ndef price(qty):\n    from lazypk import rates\n    import lazypk.rates as r2\n    from lazypk.rates import fee\n    return qty * rates.RATE + fee() + r2.RATE\n")
        outs = []
        for step, (rate, fee, pre) in enumerate([(3, 1, ""), (10, 1, ""), (10, 7, ""), (10, 7, "import lazypk.rates"), (4, 7, "import lazypk.rates"), (4, 9, "")]):
            with open(os.path.join(proj, "lazypk", "rates.py"), "w") as fh:
                fh.write("RATE = %d\n\ndef fee():\n    return %d\n" % (rate, fee))
            shutil.rmtree(os.path.join(proj, "lazypk", "__pycache__"), ignore_errors=True)
            with open(os.path.join(proj, "main.py"), "w") as fh:
                fh.write(LAZY_SCRIPT % {"repo": common.REPO, "proj": proj, "si": os.path.join(proj, "si"), "sd": os.path.join(proj, "sd"), "pre": pre})
            cp = subprocess.run([sys.executable, "-B", os.path.join(proj, "main.py")], capture_output=True, text=True, cwd=proj, timeout=300)
            lines = [l for l in cp.stdout.splitlines() if l.startswith("RESULT ")]
            o = json.loads(lines[-1][7:]) if lines else {"error": (cp.stderr.strip().splitlines() or ["no output"])[-1][:300]}
            outs.append(o)
            res.evaluations += 1
            res.count("lazy_submodule_runs")
            res.nontrivial("lazy sub-module run %d" % step)
            if "error" in o:
                res.violations.append({"what": "a pipeline whose kept function imports a sub-module of its package in its body fails outside dds: %s" % o["error"],
                                       "input": {"step": step, "rate": rate, "fee": fee}, "kf": None})
                break
            if o["dds"][0] == "refused":
                res.count("lazy_submodule_runs_refused")
                continue
            if o["dds"][1] != o["plain"]:
                res.violations.append({"what": "a kept function that imports, in its body, a sub-module of its accepted package that nothing has loaded yet: run %d of the "
                                               "script (RATE = %d, fee() returns %d%s) is served %r, plain execution gives %r (all runs: %s)" % (
                                                   step, rate, fee, ", the script imports the sub-module first" if pre else "", o["dds"][1], o["plain"], outs),
                                       "input": {"step": step, "rate": rate, "fee": fee, "runs": outs}, "kf": None})
                break
    finally:
        shutil.rmtree(proj, ignore_errors=True)


def analysed_names_full(modname, fname):
    """the real analysis of the function: (local paths of the variables recorded, full paths of the functions analysed)"""
    import importlib
    from dds.introspect import introspect
    from dds._eval_ctx import EvalMainContext
    from dds.fun_args import get_arg_ctx
    import dds.introspect as di
    mod = importlib.import_module(modname)
    f = getattr(mod, fname)
    ectx = EvalMainContext(f.__module__, whitelisted_packages=di._accepted_packages, start_globals={},
                           resolved_references=OrderedDict())
    fis = introspect(f, ectx, get_arg_ctx(f, (), {}))
    vs = set(str(d.local_path) for d in fis.external_deps)
    fs = set(str(x.fun_path).strip("<>") for x in fis.parsed_body)
    return vs, fs


LOOPS = [
    # (what, source of f0 and helpers, must evaluate: True = the values of plain execution are required, False = a refusal is fine)
    ("a keep in a comprehension, one argument per iteration",
     "def g(i):\n    log('g')\n    return term('g', i)\n\ndef f0():\n    return term('f0', [dds.keep('/l/x', g, i) for i in range(3)])\n", False),
    ("a keep in a for loop, one argument per iteration",
     "def g(i):\n    log('g')\n    return term('g', i)\n\ndef f0():\n    out = []\n    for i in (1, 2):\n        out.append(dds.keep('/l/y', g, i))\n    return term('f0', out)\n", False),
    ("a data function called in a loop with an argument per iteration",
     "@dds.data_function('/l/w')\ndef g(i):\n    log('g')\n    return term('g', i)\n\ndef f0():\n    return term('f0', [g(i) for i in (4, 5)])\n", False),
    ("a helper that keeps, called in a loop with another keyword argument each time",
     "def g(i, k=0):\n    log('g')\n    return term('g', i, k)\n\ndef h(k):\n    return dds.keep('/l/h', g, 1, k=k)\n\ndef f0():\n    return term('f0', [h(k) for k in (7, 8)])\n", False),
    ("a keep in a loop, the same argument at every iteration",
     "def g(i):\n    log('g')\n    return term('g', i)\n\ndef f0():\n    return term('f0', [dds.keep('/l/s', g, 5) for _ in range(3)])\n", True),
    ("a keep in a loop, the same run-time argument at every iteration, spelled in two ways",
     "def g(i, k=0):\n    log('g')\n    return term('g', i, k)\n\ndef f0():\n    v = len('ab')\n    out = []\n    for j in range(2):\n        out.append(dds.keep('/l/t', g, v, k=v))\n    return term('f0', out)\n", True),
]


def run_loops(ctx, res, thorough):
    """a kept call whose arguments are computed at run time gets its key from the place of the call: executed several times in one
    evaluation (a loop) with other arguments it would be served the first result. Every such evaluation either returns the values
    of plain execution or is refused with a DDS error - never other values."""
    real = pipeline.real_runner()
    ref = pipeline.ref_worker()
    for li, (what, fsrc, must) in enumerate(LOOPS):
        base = tempfile.mkdtemp(prefix="ddsverif_c01l_")
        pkg = "c1l_%d_%d" % (os.getpid(), li)
        try:
            real.reset_process_state()
            real.set_store(["memory", "local", "local_lru"][li % 3], os.path.join(base, "si"), os.path.join(base, "sd"))
            ref.call(cmd="refpaths", paths={})
            src = "import dds\nfrom ddsverif_rt import log, term\n\n" + fsrc
            os.makedirs(os.path.join(base, pkg), exist_ok=True)
            open(os.path.join(base, pkg, "__init__.py"), "w").close()
            with open(os.path.join(base, pkg, "main.py"), "w") as fh:
                fh.write(src)
            real.load_world(base, pkg + ".main", None, accept=pkg)
            ref.call(cmd="world", dir=base, module=pkg + ".main", extmod=None)
            for attempt in (1, 2):
                entry = {"kind": "eval", "fun": "f0"}
                rr = ref.call(cmd="run", entry=entry)
                r = real.run(entry)
                res.evaluations += 1
                res.count("loop_steps")
                res.nontrivial("loops %d %d" % (li, attempt))
                if rr.get("error") is not None:
                    raise common.Infra("loop case %d does not run: %s" % (li, rr["error"]))
                refused = r["error"] is not None and r["error"].get("kind") == "dds"
                if refused and not must:
                    res.count("loop_steps_refused")
                    continue
                if r["error"] is not None or r["value"] != rr["value"]:
                    res.violations.append({"what": "%s: dds returns %r (error %s), plain execution %r" % (what, r["value"], r["error"], rr["value"]),
                                           "input": {"source": src, "evaluation": attempt}, "kf": None})
                    break
        finally:
            shutil.rmtree(base, ignore_errors=True)
            for k in list(sys.modules):
                if k.split(".")[0] == pkg:
                    del sys.modules[k]


RESULT_TYPES = [
    # (what, source of f1 (the kept function); f0 keeps it and returns repr of what the keep returned)
    ("a dict with integer, float, boolean and None keys", "def f1():\n    log('f1')\n    return {1: 'a', 2.5: 'b', True: 'c', None: 'd', 'k': 7}\n"),
    ("a dict with tuple values", "def f1():\n    log('f1')\n    return {'a': (1, 3), 'b': [(1,), ()], 'c': {'d': (2, (3, 4))}}\n"),
    ("a dict with only integer keys", "def f1():\n    log('f1')\n    return {2: 2, 10: {3: 4}}\n"),
    ("an empty dict, list, tuple, set", "def f1():\n    log('f1')\n    return [{}, [], (), set(), frozenset()]\n"),
    ("nested tuples and lists", "def f1():\n    log('f1')\n    return (1, [2, (3, [4, (5,)])], 'x', b'y', bytearray(b'z'))\n"),
    ("numbers of every kind", "def f1():\n    log('f1')\n    return [0, -0.0, 1e300, 10 ** 40, True, 1.5, complex(1, 2), float('inf')]\n"),
    ("sets and frozensets", "def f1():\n    log('f1')\n    return [sorted(set([3, 1, 2])), frozenset([7]), {5}]\n"),
    ("an ordered dict, a range, a slice, bytes", "import collections\n\ndef f1():\n    log('f1')\n    return [collections.OrderedDict([(2, 1), (1, 2)]), range(3), slice(1, 2), b'', '', None]\n"),
    ("a named tuple of a library and an object of a class of the accepted module",
     "from ddsverif_rt import Pair\n\nclass Box(object):\n    def __init__(self, v):\n        self.v = v\n"
     "    def __repr__(self):\n        return 'Box(%r)' % (self.v,)\n\ndef f1():\n    log('f1')\n    return [Pair(1, (2, 3)), Box({1: (1,)}), Pair]\n"),
    ("a long string with characters outside ASCII and line ends", "def f1():\n    log('f1')\n    return 'h\\u00e9\\r\\n\\u20ac\\n' * 30000 + '\\r'\n"),
    ("bytes with every byte value", "def f1():\n    log('f1')\n    return bytes(range(256)) * 300\n"),
]


def run_result_types(ctx, res, thorough):
    """the value a keep returns is the value of plain execution, whatever its type, also when it is served from the store:
    by the evaluation that computed it, by a second evaluation and by one that uses a new store object on the same directories"""
    real = pipeline.real_runner()
    ref = pipeline.ref_worker()
    tail = ("\n@dds.data_function('/rt/d')\ndef f2():\n    return f1()\n\ndef f0():\n    a = dds.keep('/rt/p', f1)\n    b = f2()\n"
            "    return repr((type(a).__name__, a, type(b).__name__, b))\n")
    for li, (what, fsrc) in enumerate(RESULT_TYPES):
        for store_kind in ("memory", "local", "local_lru"):
            base = tempfile.mkdtemp(prefix="ddsverif_c01t_")
            pkg = "c1t_%d_%d_%s" % (os.getpid(), li, store_kind)
            try:
                real.reset_process_state()
                real.set_store(store_kind, os.path.join(base, "si"), os.path.join(base, "sd"))
                ref.call(cmd="refpaths", paths={})
                src = "import dds\nfrom ddsverif_rt import log, term\n\n" + fsrc + tail
                os.makedirs(os.path.join(base, pkg), exist_ok=True)
                open(os.path.join(base, pkg, "__init__.py"), "w").close()
                with open(os.path.join(base, pkg, "main.py"), "w") as fh:
                    fh.write(src)
                real.load_world(base, pkg + ".main", None, accept=pkg)
                ref.call(cmd="world", dir=base, module=pkg + ".main", extmod=None)
                for attempt in (1, 2, 3):
                    if attempt == 3 and store_kind != "memory":
                        real.set_store(store_kind, os.path.join(base, "si"), os.path.join(base, "sd"))
                    entry = {"kind": "eval", "fun": "f0"}
                    rr = ref.call(cmd="run", entry=entry)
                    r = real.run(entry)
                    res.evaluations += 1
                    res.count("result_type_steps")
                    res.nontrivial("result types %d %s %d" % (li, store_kind, attempt))
                    if rr.get("error") is not None:
                        raise common.Infra("result-type case %d does not run: %s" % (li, rr["error"]))
                    if r["error"] is not None or r["value"] != rr["value"]:
                        res.violations.append({"what": "%s kept on the %s store: dds returns %.300r (error %s), plain execution %.300r"
                                                       % (what, store_kind, r["value"], r["error"], rr["value"]),
                                               "input": {"source": src, "evaluation": attempt, "store": store_kind}, "kf": None})
                        break
            finally:
                shutil.rmtree(base, ignore_errors=True)
                for k in list(sys.modules):
                    if k.split(".")[0] == pkg:
                        del sys.modules[k]


NOTEBOOK = r"""
import sys, json
sys.path.insert(0, %(repo)r)
from IPython.core.interactiveshell import InteractiveShell
sh = InteractiveShell.instance()
out = []
def cell(src):
    r = sh.run_cell(src, store_history=True)
    if r.error_in_exec is not None or r.error_before_exec is not None:
        out.append(["CELL-ERROR", src, repr(r.error_in_exec or r.error_before_exec)[:300]])
cell("import dds\ndds.set_store('local', internal_dir=%(si)r, data_dir=%(sd)r)\nRES = []")
cells = %(cells)r
for c in cells:
    cell(c)
    cell("RES.append([repr(dds.keep('/nb/top', top)), repr(top())])")
cell("import json as _j\n_OUT = _j.dumps(RES)")
print("RESULT " + json.dumps({"pairs": json.loads(sh.user_ns.get("_OUT", "[]")), "errors": out}))
"""

NOTEBOOK_CELLS = [
    # every cell (re)defines something; after each one the kept value of top() is compared with the plain call
    "V = 1\ndef h():\n    return 'h1'\n",
    "class K(object):\n    def run(self):\n        return 'run1'\n",
    "def top():\n    return (h(), V, K().run(), [V for V in (7,)], sorted(w for w in ('a',)))\n",
    "def h():\n    return 'h2'\n",
    "V = 2",
    "class K(object):\n    def run(self):\n        return 'run2'\n",
    "def h():\n    return 'h1'\n",
    "import functools\n@functools.lru_cache(maxsize=None)\ndef c():\n    return 'c1'\n\ndef top():\n    return (h(), V, c())\n",
    "@functools.lru_cache(maxsize=None)\ndef c():\n    return 'c2'\n",
    "def g(x):\n    return ('g', x, h())\n\ndef mid():\n    return dds.keep('/nb/g', g, V)\n\ndef top():\n    return (mid(), V)\n",
    "def h():\n    return 'h3'\n",
    "V = 3",
]


def run_notebook(ctx, res, thorough):
    """the same guarantees when the code lives in IPython cells (functions, classes and variables defined and redefined cell by
    cell): after every cell, dds.keep of the top function returns what calling it returns"""
    import subprocess
    base = tempfile.mkdtemp(prefix="ddsverif_c01n_")
    try:
        script = NOTEBOOK % {"repo": common.REPO, "si": os.path.join(base, "si"), "sd": os.path.join(base, "sd"), "cells": NOTEBOOK_CELLS}
        try:
            p = subprocess.run([sys.executable, "-c", script], capture_output=True, text=True, timeout=300, cwd=base)
        except subprocess.TimeoutExpired:
            raise common.Infra("notebook run timed out")
        line = [l for l in p.stdout.split("\n") if l.startswith("RESULT ")]
        if not line:
            if "No module named 'IPython'" in p.stderr:
                res.count("notebook_skipped_no_ipython")
                return
            raise common.Infra("notebook run failed: " + p.stderr[-400:])
        ans = json.loads(line[-1][len("RESULT "):])
        first_top = 2      # top() exists from the third cell on
        pairs = ans["pairs"]
        res.evaluations += len(pairs)
        res.count("notebook_cells", len(pairs))
        res.nontrivial("notebook")
        for i, (kept, plain) in enumerate(pairs):
            if kept != plain:
                res.violations.append({"what": "IPython cells: after cell %d dds.keep('/nb/top', top) returns %s, calling top() returns %s" % (
                    i + first_top, kept, plain), "input": {"cells": NOTEBOOK_CELLS[: i + first_top + 1]}, "kf": None})
                break
        real_errs = [e for e in ans["errors"] if not (e[1].startswith("RES.append") and NOTEBOOK_CELLS and "name 'top' is not defined" in e[2])]
        if real_errs and not res.violations:
            res.violations.append({"what": "IPython cells: a cell fails under dds: %s" % (real_errs[0],), "input": {"cells": NOTEBOOK_CELLS}, "kf": None})
    finally:
        shutil.rmtree(base, ignore_errors=True)


def gen_ce(rng, depth, counter):
    """a call expression over the module functions h0.. (every call its own function, so that it can be recognised)"""
    r = rng.random()
    if depth <= 0 or r < 0.25:
        return {"t": "atom"}
    if r < 0.75 and counter[0] < 8:
        i = counter[0]
        counter[0] += 1
        nargs = rng.randint(0, 3)
        args = {"t": "atom"}
        items = [gen_ce(rng, depth - 1, counter) for _ in range(nargs)]
        for it in reversed(items):
            args = {"t": "pair", "a": it, "b": args}
        return {"t": "call", "id": i, "func": {"t": "atom"}, "args": args, "style": rng.choice(["pos", "kw"])}
    return {"t": "pair", "a": gen_ce(rng, depth - 1, counter), "b": gen_ce(rng, depth - 1, counter), "style": "op"}


def flatten_args(args):
    out = []
    while args["t"] == "pair" and args.get("style") != "op":
        out.append(args["a"])
        args = args["b"]
    return out


def render_ce(e):
    if e["t"] == "atom":
        return "1"
    if e["t"] == "pair":
        return "(%s, %s)" % (render_ce(e["a"]), render_ce(e["b"]))
    items = flatten_args(e["args"])
    if e.get("style") == "kw":
        parts = ["a%d=%s" % (j, render_ce(x)) for j, x in enumerate(items)]
    else:
        parts = [render_ce(x) for x in items]
    return "h%d(%s)" % (e["id"], ", ".join(parts))


def run_order(ctx, res, thorough):
    """the order in which the calls of an expression are analysed (it decides what is in the context of each call): the real
    analysis (parsed_body), the model (ddsOrder / pyOrder, theorem C01.calls_analysed_in_evaluation_order) and Python itself (the
    order in which the functions are entered when the expression is evaluated)"""
    rng = ctx["rng"]
    import dds
    n_cases = 120 if thorough else 40
    base = tempfile.mkdtemp(prefix="ddsverif_c01o_")
    pkg = "c1o_%d" % os.getpid()
    try:
        os.makedirs(os.path.join(base, pkg))
        open(os.path.join(base, pkg, "__init__.py"), "w").close()
        sys.path.insert(0, base)
        dds.accept_module(pkg)
        src = "ENTERED = []\n\n" + "".join("def h%d(*a, **k):\n    ENTERED.append(%d)\n    return %d\n\n\n" % (i, i, i) for i in range(8))
        cases = []
        for ci in range(n_cases):
            counter = [0]
            e = gen_ce(rng, 4, counter)
            if counter[0] < 2:
                continue
            cases.append((ci, e))
            src += "def f%d():\n    return %s\n\n\n" % (ci, render_ce(e))
        with open(os.path.join(base, pkg, "order.py"), "w") as fh:
            fh.write(src)
        answers = common.drv_batch([{"op": "order", "e": strip(e)} for (_, e) in cases]) if ctx["driver_ok"] else []
        import importlib
        from dds.introspect import introspect
        from dds._eval_ctx import EvalMainContext
        from dds.fun_args import get_arg_ctx
        import dds.introspect as di
        mod = importlib.import_module(pkg + ".order")
        for idx, (ci, e) in enumerate(cases):
            f = getattr(mod, "f%d" % ci)
            res.evaluations += 1
            res.count("order_cases")
            res.nontrivial("order " + render_ce(e))
            del mod.ENTERED[:]
            f()
            python_order = list(mod.ENTERED)
            try:
                ectx = EvalMainContext(f.__module__, whitelisted_packages=di._accepted_packages, start_globals={}, resolved_references=OrderedDict())
                fis = introspect(f, ectx, get_arg_ctx(f, (), {}))
                impl = [int(str(x.fun_path).strip("<>").split("/")[-1][1:]) for x in fis.parsed_body]
            except BaseException as ex:
                res.disagreements.append({"what": "the analysis of a function with nested calls fails: %s: %s" % (type(ex).__name__, str(ex)[:120]), "source": render_ce(e)})
                continue
            if impl != python_order:
                res.count("order_cases_where_the_analysis_differs_from_python")
            # the first pass of the analysis (IntroVisitorIndirect: its ordered loads and calls feed the load-order check) visits the
            # same calls: its order is compared with Python's and the model's too
            try:
                from dds._introspect_indirect import introspect_indirect
                ectx2 = EvalMainContext(f.__module__, whitelisted_packages=di._accepted_packages, start_globals={}, resolved_references=OrderedDict())
                fii = introspect_indirect(f, ectx2)
                ind = [int(str(x.fun_path).strip("<>").split("/")[-1][1:]) for x in fii.indirect_deps if hasattr(x, "fun_path")]
            except BaseException as ex:
                ind = "EXC:%s:%s" % (type(ex).__name__, str(ex)[:120])
            if isinstance(ind, list):
                # (a call is recorded when it is met and once more when the name of its function is visited: first occurrences)
                ind = [x for i_, x in enumerate(ind) if x not in ind[:i_]]
            res.count("order_cases_indirect_pass_%s" % ("in_python_order" if ind == python_order else "other"))
            if ind != python_order:
                res.disagreements.append({"what": "the first pass of the analysis (the one whose ordered loads and calls feed the load-order check) meets the calls of an "
                                                  "expression in the order %s, Python makes them in the order %s (model pyOrder: %s)" % (
                                                      ind, python_order, answers[idx].get("python") if answers else None), "source": render_ce(e)})
            if not answers:
                if impl != python_order:
                    res.disagreements.append({"what": "calls analysed in the order %s, Python makes them in the order %s" % (impl, python_order), "source": render_ce(e)})
                continue
            m = answers[idx]
            if m.get("python") != python_order:
                res.disagreements.append({"what": "model pyOrder differs from the order in which Python enters the functions", "model": m.get("python"),
                                          "python": python_order, "source": render_ce(e)})
            if m.get("dds") != impl:
                res.disagreements.append({"what": "the order in which the analysis records the calls of an expression differs from the model ddsOrder",
                                          "analysis": impl, "model": m.get("dds"), "source": render_ce(e)})
        if len(res.disagreements) > 6:
            del res.disagreements[6:]
    finally:
        if base in sys.path:
            sys.path.remove(base)
        for k in list(sys.modules):
            if k.split(".")[0] == pkg:
                del sys.modules[k]
        shutil.rmtree(base, ignore_errors=True)
