"""C01, extended stratum: language features that are outside the Lean model (classes and methods, inheritance, static
methods, import aliases, functions of sub-modules, functions held in variables, nested definitions, comprehensions and
lambdas in bodies, default values taken from module variables).

Two-way only (there is no model to compare with): the real dds in-process against the dds-free run of the same files in a
subprocess, at every step of an edit history (edit one slot, evaluate, ..., revert, evaluate) on one store lineage:
the value returned by dds must be the value of plain execution of the current files.
Each template is a small package; a *slot* is a literal in one place of the code (a method body, a base-class method, a
helper in a sub-module, a module variable, ...). An edit bumps one slot.
"""
import copy
import json
import os
import shutil
import sys
import tempfile

from . import pipeline

HEAD = "import dds\nfrom ddsverif_rt import log, term, rt, hof\n"


def T_class_fresh(s):
    return {"main": HEAD + """
V0 = %(var)d

class K(object):
    def __init__(self, a):
        self.a = a
        self.b = %(init)d

    def m(self, x):
        return term('K.m#%(m)d', self.a, self.b, x, V0)

    def other(self):
        return %(other)d

def f1():
    return K(2).m(3)

def f0():
    return dds.keep('/x/p', f1)
""" % s}, ["var", "init", "m", "other"]


def T_class_object_first(s):
    return {"main": HEAD + """
class K(object):
    def __init__(self):
        self.b = %(init)d

    def m(self):
        return helper(self.b)

def helper(b):
    return term('helper#%(helper)d', b)

def f1():
    k = K()
    return k.m()

def f0():
    return dds.keep('/x/p', f1)
""" % s}, ["init", "helper"]


def T_inheritance(s):
    return {"main": HEAD + """
class Base(object):
    def m(self):
        return term('Base.m#%(base)d')

class Derived(Base):
    def m2(self):
        return term('Derived.m2#%(derived)d', self.m())

def f1():
    return Derived().m2()

def f0():
    return dds.keep('/x/p', f1)
""" % s}, ["base", "derived"]


def T_staticmethod(s):
    return {"main": HEAD + """
class K(object):
    @staticmethod
    def sm(x):
        return term('K.sm#%(sm)d', x)

    @classmethod
    def cm(cls, x):
        return term('K.cm#%(cm)d', x)

def f1():
    return term('f1', K.sm(1), K.cm(2))

def f0():
    return dds.keep('/x/p', f1)
""" % s}, ["sm", "cm"]


def T_import_forms(s):
    return {"sub": "from ddsverif_rt import term\nSUBV = %(subv)d\n\ndef inner():\n    return term('inner#%(inner)d', SUBV)\n\ndef h():\n    return term('h#%(h)d', inner())\n" % s,
            "main": HEAD + """
import %(pkg)s.sub
import %(pkg)s.sub as s2
from %(pkg)s.sub import h as hh
from %(pkg)s import sub as s3

def f_attr():
    return %(pkg)s.sub.h()

def f_alias():
    return s2.h()

def f_fromas():
    return hh()

def f_frompkg():
    return s3.h()

def f0():
    return term('f0', dds.keep('/x/a', f_attr), dds.keep('/x/b', f_alias), dds.keep('/x/c', f_fromas), dds.keep('/x/d', f_frompkg))
""" % s}, ["subv", "inner", "h"]


def T_imports_in_bodies(s):
    # the imports sit in the bodies of the functions that use them (modules that are slow to import, optional dependencies)
    return {"__init__": "from . import sub\n",
            "sub": "from ddsverif_rt import term\nSUBV = %(subv)d\n\ndef inner():\n    return term('inner#%(inner)d', SUBV)\n\ndef h():\n    return term('h#%(h)d', inner())\n" % s,
            "main": HEAD + """
def f_attr():
    import %(pkg)s.sub
    return %(pkg)s.sub.h()

def f_alias():
    import %(pkg)s.sub as s2
    return term('alias', s2.h(), s2.SUBV)

def f_fromas():
    from %(pkg)s.sub import h as hh, SUBV as sv
    return term('fromas', hh(), sv)

def f_frompkg():
    from %(pkg)s import sub
    return term('frompkg', sub.h(), sub.SUBV)

def f_relative():
    from . import sub as s4
    from .sub import inner
    return term('relative', s4.h(), inner())

def f_nested():
    def g():
        from %(pkg)s.sub import h
        return h()
    return term('nested', g())

def hmod():
    return term('hmod#%(hmod)d')

def f_nested_scopes():
    # the names an import binds inside a nested function are not names of the enclosing one; a parameter / a comprehension
    # variable with the name of an imported module is not the module
    from %(pkg)s import sub as tool
    def g():
        from %(pkg)s.sub import inner as hmod
        return hmod()
    def k(tool):
        return tool.upper()
    ks = [tool for tool in ('p', 'q')]
    return term('scopes', g(), hmod(), k('x'), ks, tool.h())

def leaf():
    return term('leaf#%(inner)d')

def f_keep():
    from dds import keep as kp
    return term('keep', kp('/x/inner', leaf))

def f0():
    return term('f0', dds.keep('/x/a', f_attr), dds.keep('/x/b', f_alias), dds.keep('/x/c', f_fromas), dds.keep('/x/d', f_frompkg),
                dds.keep('/x/e', f_relative), dds.keep('/x/f', f_nested), dds.keep('/x/g', f_keep), dds.keep('/x/h', f_nested_scopes))
""" % s}, ["subv", "inner", "h", "hmod"]


def T_constructor_parameter_names(s):
    # a module variable with the name of a parameter of the constructor, read by another method
    return {"main": HEAD + """
scale = %(var)d
offset = %(off)d

class M(object):
    def __init__(self, scale, offset=0):
        self.k = scale

    def run(self, x):
        return term('M.run#%(m)d', self.k, scale, x)

    def shifted(me):
        return term('M.shifted', me.k, offset)

def f1():
    return term('f1', M(2).run(3), M(4, offset=1).shifted())

def f0():
    return dds.keep('/x/p', f1)
""" % s}, ["var", "off", "m"]


def T_fun_in_variable(s):
    return {"main": HEAD + """
def h():
    return term('h#%(h)d')

def g():
    return term('g#%(g)d')

def f1():
    fun = h
    return term('f1', fun(), hof(g))

def f0():
    return dds.keep('/x/p', f1)
""" % s}, ["h", "g"]


def T_nested_and_comprehension(s):
    return {"main": HEAD + """
V0 = %(var)d

def h(i):
    return term('h#%(h)d', i)

def f1():
    def inner(x):
        return term('inner#%(inner)d', x, V0)
    xs = [h(i) for i in range(2)]
    ys = list(map(lambda i: h(i + 10), range(2)))
    return term('f1', inner(1), *(xs + ys))

def f0():
    return dds.keep('/x/p', f1)
""" % s}, ["var", "h", "inner"]


def T_default_from_variable(s):
    return {"main": HEAD + """
V0 = %(var)d

def f1(a=V0, b=(%(tup)d, 'x')):
    return term('f1#%(f1)d', a, b)

def f2(a):
    return term('f2', a)

def f0():
    return term('f0', dds.keep('/x/p', f1), dds.keep('/x/q', f2, %(lit)d))
""" % s}, ["var", "tup", "f1", "lit"]


def T_method_calls_function(s):
    return {"main": HEAD + """
def h(x):
    return term('h#%(h)d', x)

class K(object):
    factor = %(attr)d

    def m(self):
        return term('K.m', h(self.factor))

def f1():
    return K().m()

def f0():
    return term('f0', dds.keep('/x/p', f1))
""" % s}, ["h", "attr"]


def T_data_function_chain(s):
    return {"main": HEAD + """
V0 = %(var)d

@dds.data_function('/x/leaf')
def leaf():
    return term('leaf#%(leaf)d', V0)

@dds.data_function('/x/mid')
def mid():
    return term('mid#%(mid)d', leaf())

def f0():
    return term('f0', mid(), leaf())
""" % s}, ["var", "leaf", "mid"]


def T_class_attribute_from_variable(s):
    return {"main": HEAD + """
V0 = %(var)d

class K(object):
    factor = V0

    def m(self):
        return term('K.m#%(m)d', self.factor)

def f1():
    return K().m()

def f0():
    return dds.keep('/x/p', f1)
""" % s}, ["var", "m"]


def T_init_calls_function(s):
    return {"main": HEAD + """
def h():
    return term('h#%(h)d')

class K(object):
    def __init__(self):
        self.v = h()

    def m(self):
        return term('K.m#%(m)d', self.v)

def f1():
    return K().m()

def f0():
    return dds.keep('/x/p', f1)
""" % s}, ["h", "m"]


def T_from_import_variable(s):
    return {"sub": """SUBV = %(subv)d
SUBT = (%(subt)d, 'x')
""" % s,
            "main": HEAD + """
from %(pkg)s.sub import SUBV, SUBT

def f1():
    return term('f1#%(f1)d', SUBV, SUBT)

def f0():
    return dds.keep('/x/p', f1)
""" % s}, ["subv", "subt", "f1"]


def T_class_in_submodule(s):
    return {"sub": """from ddsverif_rt import term

class K(object):
    def m(self):
        return term('K.m#%(m)d', helper())

def helper():
    return term('helper#%(helper)d')
""" % s,
            "main": HEAD + """
import %(pkg)s.sub as s2
from %(pkg)s.sub import K as KK

def f1():
    return term('f1', s2.K().m(), KK().m())

def f0():
    return dds.keep('/x/p', f1)
""" % s}, ["m", "helper"]


def T_generator_and_conditional_expression(s):
    return {"main": HEAD + """
V0 = %(var)d

def h(i):
    return term('h#%(h)d', i)

def g():
    return term('g#%(g)d')

def gen():
    for i in range(2):
        yield h(i)

def f1():
    x = g() if V0 >= 0 else h(0)
    return term('f1', x, *list(gen()))

def f0():
    return dds.keep('/x/p', f1)
""" % s}, ["var", "h", "g"]


def T_function_as_default_argument(s):
    return {"main": HEAD + """
def h():
    return term('h#%(h)d')

def f1(g=h):
    return term('f1#%(f1)d', g())

def f0():
    return dds.keep('/x/p', f1)
""" % s}, ["h", "f1"]


def T_reexport_and_relative_imports(s):
    return {"__init__": "from .sub import h\n",
            "sub": """from ddsverif_rt import term
from . import leaf
from .leaf import low as lw

def h():
    return term('h#%(h)d', leaf.low(), lw())
""" % s,
            "leaf": """from ddsverif_rt import term
LV = %(lv)d

def low():
    return term('low#%(low)d', LV)
""" % s,
            "main": HEAD + """
from %(pkg)s import h
from %(pkg)s.sub import *

def f1():
    return term('f1', h())

def f0():
    return dds.keep('/x/p', f1)
""" % s}, ["h", "low", "lv"]


def T_module_level_lambda(s):
    return {"main": HEAD + """
V0 = %(var)d
g = lambda x: term('lam#%(lam)d', x, V0)

def f1():
    return term('f1', g(1))

def f0():
    return dds.keep('/x/p', f1)
""" % s}, ["var", "lam"]


def T_object_attribute_holds_object(s):
    return {"main": HEAD + """
class Inner(object):
    def m(self):
        return term('Inner.m#%(inner)d')

class Outer(object):
    def __init__(self):
        self.inner = Inner()

    def run(self):
        return term('Outer.run#%(outer)d', self.inner.m())

def f1():
    return Outer().run()

def f0():
    return dds.keep('/x/p', f1)
""" % s}, ["inner", "outer"]


def T_variables_of_library_types(s):
    return {"main": HEAD + """
import datetime
import pathlib
from collections import OrderedDict

D0 = datetime.date(2020, 1, 1 + %(date)d)
P0 = pathlib.PurePosixPath('/a/b%(path)d')
O0 = OrderedDict([('k', %(od)d)])

def f1():
    return term('f1', str(D0), str(P0), O0['k'])

def f0():
    return dds.keep('/x/p', f1)
""" % s}, ["date", "path", "od"]


def T_argument_expressions(s):
    """arguments of keeps and calls that are expressions, not constants: signed numbers, sums, tuples, a literal behind a name"""
    s2 = _Zero(s)
    s2["lag1"] = s2["lag"] + 1
    s2["neg1"] = s2["neg"] + 2
    return {"main": HEAD + """
def shifted(k):
    return term('shifted#%(sh)d', k)

def scaled(k, w=1.5):
    return term('scaled#%(sc)d', k, w)

def f1():
    a = dds.keep('/x/lag', shifted, %(lag1)d)
    b = dds.keep('/x/lead', shifted, -%(lag1)d)
    c = dds.keep('/x/neg', scaled, -%(neg1)d, w=-0.5)
    d = dds.keep('/x/pos', scaled, %(neg1)d, w=+0.5)
    e = scaled(-%(pos)d - 1)
    g = shifted((%(tup)d, -1))
    h = shifted(not %(tup)d)
    return term('f1', a, b, c, d, e, g, h)

def f0():
    return dds.keep('/x/p', f1)
""" % s2}, ["sh", "sc", "lag", "neg", "pos", "tup"]


class _Zero(dict):
    def __missing__(self, k):
        return 0


def T_references_through_attributes(s):
    """functions and classes that are only *referenced* (passed on, stored in a variable or a display), reached through a
    module alias, a module imported from the package, a class held in a variable, a static method of a class"""
    return {"sub": "from ddsverif_rt import term\n\ndef g():\n    return term('g#%(g)d')\n\n\nclass K(object):\n    def run(self):\n        return term('run#%(run)d')\n\n"
                   "    @staticmethod\n    def sm():\n        return term('sm#%(sm)d')\n" % s,
            "main": HEAD + """
import %(pkg)s.sub as hp
from %(pkg)s import sub
from %(pkg)s.sub import K

def r_alias():
    return hof(hp.g)

def r_mod():
    return hof(sub.g)

def r_class_var():
    k = K
    return k().run()

def r_static():
    return hof(K.sm)

def r_display():
    fs = [hp.g, sub.K]
    return term('d', fs[0](), fs[1]().run())

def f0():
    return term('f0', dds.keep('/x/r1', r_alias), dds.keep('/x/r2', r_mod), dds.keep('/x/r3', r_class_var),
                dds.keep('/x/r4', r_static), dds.keep('/x/r5', r_display))
""" % s}, ["g", "run", "sm"]


def T_calls_in_arguments(s):
    """calls made inside the argument expressions of a keep / of a call (evaluated before the call itself)"""
    return {"main": HEAD + """
def h():
    return term('h#%(h)d')

def h2(a):
    return term('h2#%(h2)d', a)

def g(x, y=0):
    return term('g#%(g)d', x, y)

def f1():
    a = dds.keep('/x/a', g, h())
    b = dds.keep('/x/b', g, 1, y=h2(2))
    c = g(h())
    d = dds.keep('/x/d', g, [h2(i) for i in (1, 2)])
    e = dds.keep('/x/e', g, h2(h()))
    return term('f1', a, b, c, d, e)

def f0():
    return dds.keep('/x/p', f1)
""" % s}, ["h", "h2", "g"]


def T_functools_wrappers(s):
    """helper functions wrapped by functools.lru_cache / functools.cache (objects that are not plain functions), called and
    referenced by name"""
    return {"main": HEAD + """
import functools

@functools.lru_cache(maxsize=None)
def h():
    return term('h#%(h)d')

@functools.cache
def h2(x):
    return term('h2#%(h2)d', x)

@functools.lru_cache
def h3():
    return term('h3#%(h3)d')

def f1():
    return term('f1', h(), h2(3), hof(h3))

def f0():
    return dds.keep('/x/p', f1)
""" % s}, ["h", "h2", "h3"]


def T_calls_in_callee(s):
    """calls and references inside the expression of the function that is called: Cls(helper()).method(...),
    combine(f, g)(...), str(helper()).upper()"""
    return {"main": HEAD + """
class Scaler(object):
    def __init__(self, p):
        self.p = p

    def apply(self, x):
        return term('apply#%(ap)d', self.p, x)

def params():
    return term('params#%(pa)d')

def double():
    return term('double#%(db)d')

def inc():
    return term('inc#%(ic)d')

def compose(f, g):
    return lambda: term('compose#%(cp)d', f(), g())

def f1():
    a = Scaler(params()).apply(10)
    b = compose(double, inc)()
    c = str(params()).upper()
    return term('f1', a, b, c)

def f0():
    return dds.keep('/x/p', f1)
""" % s}, ["ap", "pa", "db", "ic", "cp"]


# explicit refusals of dds (DDSException with one of these codes): the construct is outside the supported subset
REFUSALS = ("TYPE_NOT_SUPPORTED", "CONSTRUCT_NOT_SUPPORTED", "UNSUPPORTED_CALLABLE_TYPE", "AUTHORIZED_TYPE_NOT_UNDERSTOOD")

TEMPLATES = [T_class_fresh, T_class_object_first, T_inheritance, T_staticmethod, T_import_forms, T_imports_in_bodies, T_constructor_parameter_names, T_fun_in_variable,
             T_nested_and_comprehension, T_default_from_variable, T_method_calls_function, T_data_function_chain,
             T_class_attribute_from_variable, T_init_calls_function, T_from_import_variable, T_class_in_submodule,
             T_generator_and_conditional_expression, T_function_as_default_argument, T_reexport_and_relative_imports,
             T_object_attribute_holds_object, T_variables_of_library_types, T_argument_expressions,
             T_references_through_attributes, T_calls_in_arguments, T_functools_wrappers, T_calls_in_callee]
# T_module_level_lambda is not in the list: a lambda bound to a module variable is refused with an uncoded DDSException
# ('Could not find call node'): outside the supported subset (the test-suite marks lambdas under dds.eval as not implemented)


def run_extended(ctx, res, thorough):
    """appends violations to `res`; returns the number of evaluation steps"""
    rng = ctx["rng"]
    real = pipeline.real_runner()
    ref = pipeline.ref_worker()
    steps_total = 0
    reps = 3 if thorough else 1
    for rep in range(reps):
        for ti, tmpl in enumerate(TEMPLATES):
            base = tempfile.mkdtemp(prefix="ddsverif_c01x_")
            pkg = "px_%d_%d_%d" % (os.getpid(), rep, ti)
            try:
                _, slot_names = tmpl(_Zero(pkg=pkg))
                slots = dict((n, 0) for n in slot_names)
                history = [dict(slots)]
                store_kind = ["memory", "local", "local_lru"][(rep + ti) % 3]
                real.reset_process_state()
                real.set_store(store_kind, os.path.join(base, "si"), os.path.join(base, "sd"))
                ref.call(cmd="refpaths", paths={})
                # every slot is edited at least once (in a random order), with reverts and plain re-evaluations in between
                todo = list(slot_names)
                rng.shuffle(todo)
                plan = ["first"]
                for n_ in todo:
                    plan.append("edit:" + n_)
                    if rng.random() < 0.3:
                        plan.append(rng.choice(["revert", "none"]))
                plan += [rng.choice(["edit", "revert", "none"]) for _ in range(3 if thorough else 1)]
                for si, kind in enumerate(plan):
                    forced = None
                    if kind.startswith("edit:"):
                        kind, forced = "edit", kind[5:]
                    desc = {"kind": kind}
                    if kind == "edit":
                        n = forced or rng.choice(slot_names)
                        slots[n] += 1 + rng.randint(0, 2)
                        desc["slot"] = n
                        history.append(dict(slots))
                    elif kind == "revert" and len(history) >= 2:
                        slots = dict(history[-2])
                        history.append(dict(slots))
                    files, _ = tmpl(dict(slots, pkg=pkg))
                    os.makedirs(os.path.join(base, pkg), exist_ok=True)
                    if "__init__" not in files:
                        with open(os.path.join(base, pkg, "__init__.py"), "w") as f:
                            f.write("")
                    for name, src in files.items():
                        with open(os.path.join(base, pkg, name + ".py"), "w") as f:
                            f.write(src)
                    real.load_world(base, pkg + ".main", None, accept=pkg)
                    ref.call(cmd="world", dir=base, module=pkg + ".main", extmod=None)
                    entry = {"kind": "eval", "fun": "f0"}
                    rr = ref.call(cmd="run", entry=entry)
                    r = real.run(entry)
                    steps_total += 1
                    res.evaluations += 1
                    res.count("extended_" + tmpl.__name__)
                    res.nontrivial("x %s %d %d" % (tmpl.__name__, rep, si))
                    if rr.get("error") is not None or "worker_error" in rr:
                        res.count("extended_reference_error")
                        continue
                    case = {"template": tmpl.__name__, "step": si, "edit": desc, "slots": dict(slots), "store": store_kind,
                            "files": files}
                    if r["error"] is not None and r["error"].get("kind") == "dds" and r["error"].get("code") in REFUSALS:
                        # said loudly to be outside the supported subset: not a wrong value
                        res.count("extended_refused_" + str(r["error"].get("code")))
                        break
                    if r["error"] is not None:
                        res.violations.append({"what": "extended stratum: dds fails where plain execution succeeds: %s" % (r["error"],),
                                               "input": case, "kf": None})
                        break
                    if r["value"] != rr["value"]:
                        res.violations.append({"what": "extended stratum (%s): value returned by dds differs from plain execution of the same files" % tmpl.__name__,
                                               "input": dict(case, dds=r["value"], plain=rr["value"]), "kf": None})
                        break
            finally:
                shutil.rmtree(base, ignore_errors=True)
                for k in list(sys.modules):
                    if k.split(".")[0] == pkg:
                        del sys.modules[k]
    return steps_total


def run_toplevel_entry(ctx, res, what):
    """the top-level entry points with arguments, through the public API only: dds.keep(path, f, *args, **kwargs) and
    dds.eval(f, *args, **kwargs) for every kind of parameter list. what='values' (C01): a call is refused or returns what plain
    execution returns, whatever was evaluated before with other arguments. what='entry' (C02): a function kept by a nested keep of an
    evaluation and then kept / called at the top level with the same (defaulted) arguments, or the other way round, is not executed
    again."""
    import importlib
    import dds
    import dds._api as api
    pipeline.real_runner()
    import ddsverif_rt
    saved_store = api._store_var
    base = tempfile.mkdtemp(prefix="ddsverif_c01t_")
    pkg = "c01t_%d_%s" % (os.getpid(), what)
    src = ("import dds\nfrom ddsverif_rt import log, term\n\n"
           "def plain2(a, b=2):\n    log('plain2')\n    return term('plain2', a, b)\n\n"
           "def star_kw(*xs, scale=1):\n    log('star_kw')\n    return term('star_kw', list(xs), scale)\n\n"
           "def kwonly(a, *, scale=1):\n    log('kwonly')\n    return term('kwonly', a, scale)\n\n"
           "def star(a, *rest):\n    log('star')\n    return term('star', a, list(rest))\n\n"
           "def kwargs(a, **kw):\n    log('kwargs')\n    return term('kwargs', a, sorted(kw.items()))\n\n"
           "def opt_none(x=None):\n    log('opt_none')\n    return term('opt_none', x)\n\n"
           "def opt_none2(a=1, x=None, y=0):\n    log('opt_none2')\n    return term('opt_none2', a, x, y)\n\n"
           "def opt_false(x=False):\n    log('opt_false')\n    return term('opt_false', x)\n\n"
           "@dds.data_function('/t/df_none')\ndef df_none(x=None):\n    log('df_none')\n    return term('df_none', x)\n\n"
           "def pipe_star_kw(*xs, scale=1):\n    return term('pipe', dds.keep('/t/inner_star_kw', star_kw, *xs, scale=scale))\n\n"
           "def nested():\n    return term('nested', dds.keep('/t/opt_none', opt_none), dds.keep('/t/opt_none2', opt_none2), dds.keep('/t/opt_false', opt_false), df_none())\n")
    try:
        os.makedirs(os.path.join(base, pkg))
        open(os.path.join(base, pkg, "__init__.py"), "w").close()
        with open(os.path.join(base, pkg, "main.py"), "w") as fh:
            fh.write(src)
        sys.path.insert(0, base)
        importlib.invalidate_caches()
        dds.accept_module(pkg)
        mod = importlib.import_module(pkg + ".main")
        for store_kind in ("memory", "local"):
            sdir = os.path.join(base, "s_" + store_kind)
            if store_kind == "memory":
                dds.set_store("memory")
            else:
                dds.set_store("local", internal_dir=os.path.join(sdir, "si"), data_dir=os.path.join(sdir, "sd"))
            if what == "values":
                calls = [("plain2", (1,), {}), ("plain2", (1, 3), {}), ("plain2", (1,), {"b": 4}), ("plain2", (1,), {"b": 2}),
                         ("star_kw", (1, 2), {"scale": 3}), ("star_kw", (1, 2), {"scale": 10}), ("star_kw", (1,), {"scale": 10}), ("star_kw", (1, 2, 3), {"scale": 10}),
                         ("star_kw", (1, 2, 3), {}), ("kwonly", (1,), {"scale": 3}), ("kwonly", (1,), {"scale": 4}), ("kwonly", (2,), {}),
                         ("star", (1, 2, 3), {}), ("star", (1, 2, 4), {}), ("star", (1,), {}), ("kwargs", (1,), {"p": 1}), ("kwargs", (1,), {"p": 2}), ("kwargs", (1,), {"q": 1}),
                         ("pipe_star_kw", (1, 2), {"scale": 3}), ("pipe_star_kw", (1, 2), {"scale": 10}), ("pipe_star_kw", (5, 2), {"scale": 10})]
                for entry in ("keep", "eval"):
                    for (fname, args, kw) in calls:
                        f = getattr(mod, fname)
                        if fname == "pipe_star_kw":
                            want = ddsverif_rt.term("pipe", mod.star_kw(*args, **kw))
                        else:
                            want = f(*args, **kw)
                        try:
                            got = dds.keep("/t/top_" + fname, f, *args, **kw) if entry == "keep" else dds.eval(f, *args, **kw)
                        except BaseException as e:
                            # a loud failure (NotImplementedError for *args / keyword-only parameters, an assertion for **kwargs given
                            # at the top level): outside the supported subset, no value is returned
                            res.count("toplevel_call_refused_%s_%s" % (fname, type(e).__name__))
                            api._eval_ctx = None
                            continue
                        res.evaluations += 1
                        res.count("toplevel_calls_with_arguments")
                        res.nontrivial("toplevel %s %s %s %s %s" % (store_kind, entry, fname, args, sorted(kw.items())))
                        if got != want:
                            res.violations.append({"what": "dds.%s of %s with the arguments %s %s returns %r, plain execution %r (evaluated before on the same store: the same "
                                                           "function with other arguments)" % (entry, fname, args, kw, got, want),
                                                   "input": {"source": src, "entry": entry, "function": fname, "args": list(args), "kwargs": kw, "store": store_kind}, "kf": None})
            else:
                for order in ("nested_first", "top_first"):
                    if store_kind == "memory":
                        dds.set_store("memory")
                    else:
                        dds.set_store("local", internal_dir=os.path.join(sdir, order, "si"), data_dir=os.path.join(sdir, order, "sd"))
                    tops = [lambda: dds.keep("/t/opt_none", mod.opt_none), lambda: dds.keep("/t/opt_none2", mod.opt_none2),
                            lambda: dds.keep("/t/opt_false", mod.opt_false), lambda: mod.df_none()]
                    steps = [("nested", lambda: dds.eval(mod.nested))] + [("top%d" % i, t) for i, t in enumerate(tops)]
                    if order == "top_first":
                        steps = steps[1:] + steps[:1]
                    executed = []
                    failed = None
                    for (sname, step) in steps + steps:
                        del ddsverif_rt.LOG[:]
                        try:
                            step()
                        except BaseException as e:
                            failed = "%s: %s: %s" % (sname, type(e).__name__, str(e)[:160])
                            api._eval_ctx = None
                            break
                        executed += [(sname, x) for x in ddsverif_rt.LOG]
                    res.evaluations += len(steps) * 2
                    res.count("entry_style_switches")
                    res.nontrivial("entry style %s %s" % (store_kind, order))
                    names = [x for (_, x) in executed]
                    twice = sorted(set(n for n in names if names.count(n) > 1))
                    if failed or twice:
                        res.violations.append({"what": "functions with optional parameters left at their defaults (None, False, 0), kept once by the nested keeps of an evaluation and "
                                                       "once at the top level (%s), nothing edited in between: %s" % (order, failed or "executed more than once: %s (%s)" % (twice, executed)),
                                               "input": {"source": src, "order": order, "store": store_kind}, "kf": None})
    except BaseException as e:
        res.violations.append({"what": "the top-level entry stratum failed: %s: %s" % (type(e).__name__, str(e)[:300]), "input": {"source": src}, "kf": None})
    finally:
        api._eval_ctx = None
        api._store_var = saved_store
        if base in sys.path:
            sys.path.remove(base)
        shutil.rmtree(base, ignore_errors=True)
        for k in list(sys.modules):
            if k.split(".")[0] == pkg:
                del sys.modules[k]
