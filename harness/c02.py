"""C02 - nothing is recomputed unless something it depends on changed.

Correspondence: the set of function bodies executed at every step equals the Lean model's prediction
(the model's `evalStep` log), together with signatures / values as in C01.
Property oracle (implementation only): (a) after a step that changes nothing a kept function can
observe - identical re-evaluation, restart, revert to an already evaluated version, unrelated
definitions, reordering, edits of non-accepted code, the same code copied to another accepted module,
data function called directly after dds.eval of it - no kept function body runs; (b) after a single
edit, a context-free kept node (zero-argument data function, keep whose arguments are all literals)
that cannot reach the edited function / variable does not run.
"""
import json

from . import common, hist, pipeline, progs

DESIGN_REF = "DESIGN.md §5 C02, §4.1"
ASSUMPTIONS = ["the dependency cone of DESIGN §4.1; oracle (b) uses only its context-free part, which is computable on the abstract "
               "program without the model; the general case is decided by agreement with the model's executed set"]


def run(ctx):
    res = common.Result()
    thorough = ctx["tier"] == "thorough"
    common.import_dds()

    prev_ok = {}

    def on_record(rec, s):
        res.evaluations += 1
        was_ok = prev_ok.get(rec.hist, False)
        prev_ok[rec.hist] = rec.real["error"] is None
        res.count("edit_" + rec.edit["kind"])
        hist.compare_with_model(rec, res, what=("log", "paths", "value"))
        if rec.real["error"] is not None:
            return
        kept = hist.kept_functions(rec.world)
        ran = [x for x in rec.real["log"] if x in kept]
        if rec.entry["kind"] in ("keep", "direct"):
            # the root is itself kept
            if rec.entry["fun"] in rec.real["log"]:
                ran = ran + [rec.entry["fun"]] if rec.entry["fun"] not in ran else ran
        kind = rec.edit["kind"]
        res.nontrivial(json.dumps([rec.hist, rec.step]))
        if kind in hist.NO_RECOMPUTE_EDITS and kind != "entry_switch" or (kind == "entry_switch" and rec.entry["kind"] == "direct"):
            if ran:
                res.violations.append({"what": "kept function bodies %s were executed although nothing they can observe changed (step kind: %s)" % (ran, kind),
                                       "input": {"step": rec.brief(), "executed": rec.real["log"],
                                                 "source": progs.render_world(rec.world, "extmod")}, "kf": None})
        elif kind == "body" and rec.edit.get("after_call_of"):
            # the edit is on a line of the caller strictly after the end of a kept call: the text up to the call, the
            # caller's inputs and the calls before it are unchanged, so the kept callee (single call site) is not re-run
            res.count("edit_after_call")
            g = rec.edit["after_call_of"]
            if was_ok and g in ran:
                res.violations.append({"what": "kept function %s (path %s) was re-executed by an edit of a caller line AFTER the end of its call" % (g, rec.edit.get("after_path")),
                                       "input": {"step": rec.brief(), "executed": rec.real["log"],
                                                 "before": progs.render_world(rec.prev_world, "extmod"),
                                                 "after": progs.render_world(rec.world, "extmod")}, "kf": None})
        elif kind in ("body", "var", "const_arg"):
            free = hist.context_free_nodes(rec.world)
            for path, fname in free.items():
                if fname in ran and not hist.may_observe(rec.world, fname, rec.edit):
                    res.violations.append({"what": "kept function %s (path %s) was re-executed by an edit outside its dependency cone: %s" % (fname, path, rec.edit),
                                           "input": {"step": rec.brief(), "executed": rec.real["log"],
                                                     "before": progs.render_world(rec.prev_world, "extmod"),
                                                     "after": progs.render_world(rec.world, "extmod")}, "kf": None})
                    break
    kinds = ("memory", "local", "memory", "local_lru")
    recs = hist.run_histories(ctx, res, 300 if thorough else 50, 10 if thorough else 7, store_kinds=kinds, on_record=on_record)
    recs += hist.run_histories(ctx, res, 80 if thorough else 15, 6, store_kinds=("memory",), on_record=on_record, allow="chain",
                               edit_kinds=["const_arg", "var", "body", "revert", "none", "unrelated_fun", "reorder", "copy"])
    # directed: kept calls wrapped in a library call that goes on for several lines, edited after the end of the kept call
    recs += hist.run_histories(ctx, res, 120 if thorough else 40, 4, store_kinds=("memory",), on_record=on_record,
                               edit_kinds=["wrap_lit", "wrap_lit", "none", "body"],
                               world_filter=lambda w: any(it.get("wrap") for f in w["funs"] for it in f["items"]))
    if res.disagreements and not res.violations:
        saved = ctx["driver_ok"]
        ctx["driver_ok"] = False
        hist.run_histories(ctx, res, 300, 10, store_kinds=("memory",), on_record=on_record)
        ctx["driver_ok"] = saved
    if recs:
        r0 = recs[len(recs) // 3]
        res.sample({"step": r0.brief(), "executed": r0.real["log"], "source": progs.render_world(r0.world, "extmod")})
    # where the process runs: the same unchanged program evaluated from another working directory, in a fresh process and after
    # os.chdir in the same process, on one local store - nothing is recomputed (tracked variables hold relative and absolute
    # file-system paths, dates, plain values)
    import os
    import shutil
    import tempfile
    base = tempfile.mkdtemp(prefix="ddsverif_c02w_")
    try:
        mod = "c2w_%d" % os.getpid()
        src = ("import dds\nimport pathlib\nimport datetime\nfrom ddsverif_rt import log, term\n\n"
               "RAW = pathlib.Path('data/raw.csv')\nHERE = pathlib.Path('.')\nABS = pathlib.Path('/abs/x.csv')\nDAY = datetime.date(2021, 3, 1)\nN = 3\n"
               "STOP = frozenset({'the', 'a', 'of', 'and', 'to', 'in'})\nNA = {'', 'NA', 'null', None, 'n/a'}\n"
               "START = datetime.datetime(2021, 3, 4, 5, 6)\nAWARE = datetime.datetime(2021, 3, 4, 5, 6, tzinfo=datetime.timezone(datetime.timedelta(hours=2)))\n\n"
               # results that are empty / falsy: they are results like any other, served from the store afterwards
               "def e_str():\n    log('e_str')\n    return ''\n\ndef e_bytes():\n    log('e_bytes')\n    return b''\n\n"
               "def e_none():\n    log('e_none')\n    return None\n\ndef e_list():\n    log('e_list')\n    return []\n\n"
               "def e_zero():\n    log('e_zero')\n    return 0\n\n"
               "def empties():\n    log('empties')\n    return term('empties', repr(dds.keep('/w/e/str', e_str)), repr(dds.keep('/w/e/bytes', e_bytes)), "
               "repr(dds.keep('/w/e/none', e_none)), repr(dds.keep('/w/e/list', e_list)), repr(dds.keep('/w/e/zero', e_zero)))\n\n"
               "def source():\n    log('source')\n    return term('source', str(RAW), str(HERE), str(sorted(STOP)), str(sorted(map(str, NA))))\n\n"
               "def other():\n    log('other')\n    return term('other', str(ABS), str(DAY), N, str(START), str(AWARE))\n\n"
               "def summary():\n    log('summary')\n    return term('summary', dds.keep('/w/source', source), dds.keep('/w/other', other))\n\n"
               "def f0():\n    log('f0')\n    return term('f0', dds.keep('/w/summary', summary), empties())\n")
        os.makedirs(os.path.join(base, "code"))
        with open(os.path.join(base, "code", mod + ".py"), "w") as fh:
            fh.write(src)
        with open(os.path.join(base, "code", "c2e_none.py"), "w") as fh:
            fh.write("")
        cwds = [os.path.join(base, "cwd%d" % i) for i in range(3)]
        for c in cwds:
            os.makedirs(c)
        entry = {"kind": "eval", "fun": "f0"}
        KEPT_NAMES = ("source", "other", "summary", "e_str", "e_bytes", "e_none", "e_list", "e_zero")
        first = None
        for ci, c in enumerate(cwds):
            # (each process also has its own hash seed: the iteration order of sets differs between them)
            wk = pipeline.WorkerProc("real", cwd=c, env={"PYTHONHASHSEED": str(11 + 7 * ci), "TZ": ["UTC0", "JST-9", "EST5EDT"][ci % 3]})
            try:
                wk.call(cmd="store_api", internal_dir=os.path.join(base, "si"), data_dir=os.path.join(base, "sd"), cache_objects=None)
                wk.call(cmd="world", dir=os.path.join(base, "code"), module=mod, extmod="c2e_none")
                r = wk.call(cmd="run", entry=entry)
                res.evaluations += 1
                res.nontrivial("working directory %d" % ci)
                if first is None:
                    first = r
                    continue
                bad = None
                ran = [x for x in r["log"] if x in KEPT_NAMES]
                if r["error"] is not None or r["value"] != first["value"]:
                    bad = "evaluation from another working directory: error %s, value %r vs %r" % (r["error"], r["value"], first["value"])
                elif ran or r["paths"] != first["paths"]:
                    bad = "the unchanged program, evaluated by a fresh process started in another directory, re-executes %s (signatures equal: %s)" % (ran, r["paths"] == first["paths"])
                else:
                    wk.call(cmd="cwd", dir=cwds[0])
                    r2 = wk.call(cmd="run", entry=entry)
                    ran2 = [x for x in r2["log"] if x in KEPT_NAMES]
                    if r2["error"] is not None or ran2 or r2["paths"] != first["paths"]:
                        bad = "after os.chdir in the same process the unchanged program re-executes %s (error %s)" % (ran2, r2["error"])
                if bad:
                    res.violations.append({"what": bad, "input": {"source": src, "working_directories": "three different ones, one local store"}, "kf": None})
                    break
            finally:
                wk.close()
    finally:
        shutil.rmtree(base, ignore_errors=True)
    # the header of a kept function (default values, decorator): a module variable that only appears there is observed through the
    # default value it gives - not at all when the call passes that parameter, and the path given to the decorator is not an
    # input of the function. Editing such a variable re-executes only the kept functions that take the default.
    import sys
    real = pipeline.real_runner()
    HSRC = ("import dds\nfrom ddsverif_rt import log, term\n\nFACTOR = %d\nOUT = %r\nUNUSED = %d\n\n"
            "def scale(x, factor=FACTOR):\n    log('scale')\n    return term('scale', x, factor)\n\n"
            "def scale_d(x, factor=FACTOR):\n    log('scale_d')\n    return term('scale_d', x, factor)\n\n"
            "def scale_kw(x, factor=FACTOR, unit='m'):\n    log('scale_kw')\n    return term('scale_kw', x, factor, unit)\n\n"
            "@dds.data_function(OUT)\ndef table():\n    log('table')\n    return term('table')\n\n"
            "def f0():\n    return term('f0', dds.keep('/h/scaled', scale, 3, 10), dds.keep('/h/dflt', scale_d, 3), "
            "dds.keep('/h/kw', scale_kw, 4, factor=7), table())\n")
    for hi, store_kind in enumerate(["memory", "local"]):
        hbase = tempfile.mkdtemp(prefix="ddsverif_c02h_")
        pkg = "c2h_%d_%d" % (os.getpid(), hi)
        try:
            real.reset_process_state()
            real.set_store(store_kind, os.path.join(hbase, "si"), os.path.join(hbase, "sd"))
            # (FACTOR, OUT, UNUSED), the kept functions that may run at this step
            steps = [((2, "/h/v1", 0), None), ((5, "/h/v1", 0), {"scale_d"}), ((5, "/h/v2", 0), set()), ((5, "/h/v2", 1), set()),
                     ((2, "/h/v1", 1), set()), ((9, "/h/v3", 1), {"scale_d"})]
            for si, (vals, may_run) in enumerate(steps):
                src = HSRC % vals
                os.makedirs(os.path.join(hbase, pkg), exist_ok=True)
                open(os.path.join(hbase, pkg, "__init__.py"), "w").close()
                with open(os.path.join(hbase, pkg, "main.py"), "w") as fh:
                    fh.write(src)
                real.load_world(hbase, pkg + ".main", None, accept=pkg)
                r = real.run({"kind": "eval", "fun": "f0"})
                res.evaluations += 1
                res.count("header_variable_steps")
                res.nontrivial("header %s %d" % (store_kind, si))
                want = "f0(scale(3,10),scale_d(3,%d),scale_kw(4,7,m),table())" % vals[0]
                ran = [x for x in r["log"] if x in ("scale", "scale_d", "scale_kw", "table")]
                bad = None
                if r["error"] is not None or r["value"] != want:
                    bad = "value %r (error %s), plain execution gives %r" % (r["value"], r["error"], want)
                elif may_run is not None and set(ran) - may_run:
                    bad = ("an edit of a module variable that appears only in the header of kept functions (FACTOR, OUT, UNUSED = %r) re-executed %s, "
                           "which cannot observe it (the call passes the parameter / the variable is the path of the decorator)" % (vals, sorted(set(ran) - may_run)))
                if bad:
                    res.violations.append({"what": bad, "input": {"source": src, "store": store_kind, "step": si, "history": [v for (v, _) in steps[: si + 1]]}, "kf": None})
                    break
        finally:
            shutil.rmtree(hbase, ignore_errors=True)
            for k in list(sys.modules):
                if k.split(".")[0] == pkg:
                    del sys.modules[k]
    # the end of the file: the module is saved without a final newline and its last definition is a kept function (or feeds one);
    # an unrelated definition, a comment or just the final newline added after it changes nothing that function can observe
    NSRC = ("import dds\nfrom ddsverif_rt import log, term\n\n"
            "def f0():\n    return term('f0', dds.keep('/n/base', base), dds.keep('/n/summary', summary))\n\n"
            "def base():\n    log('base')\n    return term('base')\n\n"
            "def summary():\n    log('summary')\n    return term('summary', helper())\n\n"
            "def helper():\n    return term('helper')")
    for ni, store_kind in enumerate(["memory", "local"]):
        nbase = tempfile.mkdtemp(prefix="ddsverif_c02n_")
        pkg = "c2n_%d_%d" % (os.getpid(), ni)
        try:
            real.reset_process_state()
            real.set_store(store_kind, os.path.join(nbase, "si"), os.path.join(nbase, "sd"))
            tails = ["", "\n", "\n\n\ndef unrelated():\n    return 1", "\n\n\ndef unrelated():\n    return 1\n", "\n# a comment", "", "\n\nUNRELATED = 3"]
            for si, tail in enumerate(tails):
                src = NSRC + tail
                os.makedirs(os.path.join(nbase, pkg), exist_ok=True)
                open(os.path.join(nbase, pkg, "__init__.py"), "w").close()
                with open(os.path.join(nbase, pkg, "main.py"), "w", newline="") as fh:
                    fh.write(src)
                real.load_world(nbase, pkg + ".main", None, accept=pkg)
                r = real.run({"kind": "eval", "fun": "f0"})
                res.evaluations += 1
                res.count("end_of_file_steps")
                res.nontrivial("end of file %s %d" % (store_kind, si))
                ran = [x for x in r["log"] if x in ("base", "summary")]
                bad = None
                if r["error"] is not None or r["value"] != "f0(base(),summary(helper()))":
                    bad = "value %r (error %s)" % (r["value"], r["error"])
                elif si > 0 and ran:
                    bad = "%s re-executed after the text %r was put in place of %r at the end of the file, after the last definition (a function that the kept functions use)" % (
                        ran, tail, tails[si - 1])
                if bad:
                    res.violations.append({"what": "a module saved without a final newline: " + bad, "input": {"source": src, "step": si, "store": store_kind}, "kf": None})
                    break
        finally:
            shutil.rmtree(nbase, ignore_errors=True)
            for k in list(sys.modules):
                if k.split(".")[0] == pkg:
                    del sys.modules[k]
    # a function reached by a nested keep and by a top-level keep / call (optional parameters left at their defaults): one signature
    from . import c01x
    c01x.run_toplevel_entry(ctx, res, "entry")
    from . import kf_witnesses
    kf_witnesses.run_witness(res, "C02-KF1", kf_witnesses.c02_from_import_object,
                             "a function reading a non-accepted object imported with 'from m import obj' is recomputed when its file is copied to another accepted module")
    pipeline.close_ref()
    res.rule = ("seeded histories as in C01, stores {memory, local, local+cache}; every step classified by what changed; one case = one "
                "evaluation step; distribution of step kinds in 'distribution'")
    res.violations = [v for v in res.violations if not v.get('kf')][:5] + [v for v in res.violations if v.get('kf')]
    return res
