"""C03 - signatures depend only on program content, never on the environment.

Correspondence (bytes are the property here): for every generated pipeline the path -> signature map
computed by the real analysis equals `interp` of the Lean model's signatures, in every environment
variant; and both reproduce the pinned corpus corpus/c03/*.json.
Property oracle (implementation only): the map is identical across {PYTHONHASHSEED 0 / 1 / random,
working directory, on-disk location of the package, store kind, extra_debug on/off, graph export
on/off, fresh process vs after earlier evaluations and redefinitions in the same process}.
"""
import glob
import json
import os
import shutil
import tempfile

from . import common, pipeline, progs

DESIGN_REF = "DESIGN.md §5 C03"
ASSUMPTIONS = ["hash seed, cwd and on-disk location have no counterpart in the model: for them the claim rests on the "
               "byte-exact correspondence only (partial)",
               "the pinned corpus records the signatures of this repository state (after the recorded fix: commits); it is a "
               "regression check and is labelled as one"]

CORPUS = os.path.join(common.ROOT, "corpus", "c03")


def variant_specs(thorough):
    v = [
        {"name": "seed0", "env": {"PYTHONHASHSEED": "0", "TZ": "UTC0"}},
        {"name": "seed1_cwd_tmp", "env": {"PYTHONHASHSEED": "1", "TZ": "JST-9"}, "cwd": "tmp"},
        {"name": "seedrandom_moved", "env": {"PYTHONHASHSEED": "random", "TZ": "EST5EDT", "LANG": "C", "LC_ALL": "C"}, "moved": True},
        {"name": "local_store_nodebug", "env": {"PYTHONHASHSEED": "7"}, "store": "local", "extra_debug": False},
        {"name": "noop_store_graph", "env": {"PYTHONHASHSEED": "8"}, "store": "noop", "export_graph": True},
        {"name": "after_history", "env": {"PYTHONHASHSEED": "9"}, "history": True},
    ]
    if thorough:
        v += [{"name": "lru_debug", "env": {"PYTHONHASHSEED": "11"}, "store": "local_lru", "extra_debug": True},
              {"name": "history_moved_graph", "env": {"PYTHONHASHSEED": "random"}, "history": True, "moved": True, "export_graph": True}]
    return v


def inplace_precursor(w):
    """(world before, statements): the statements update tracked variables of `before` in place and lead to `w`"""
    import copy
    pre = copy.deepcopy(w)
    stmts = []
    for pair in pre["vars"]:
        val = pair[1] = copy.deepcopy(pair[1])
        if val["t"] == "list" and val["v"]:
            last = val["v"].pop()
            stmts.append("%s.append(%s)" % (pair[0], progs.lit(last)))
        elif val["t"] == "dict" and val["v"]:
            k, x = val["v"].pop()
            stmts.append("%s[%s] = %s" % (pair[0], progs.lit(k), progs.lit(x)))
        elif val["t"] == "tuple" and val["v"] and val["v"][0]["t"] == "list" and val["v"][0]["v"]:
            last = val["v"][0]["v"].pop()
            stmts.append("%s[0].append(%s)" % (pair[0], progs.lit(last)))
    return pre, stmts


def run(ctx):
    res = common.Result()
    rng = ctx["rng"]
    thorough = ctx["tier"] == "thorough"
    common.import_dds()
    nworlds = 40 if thorough else 8
    variants = variant_specs(thorough)
    base = tempfile.mkdtemp(prefix="ddsverif_c03_")
    moved = tempfile.mkdtemp(prefix="ddsverif_c03m_")
    workers = {}
    try:
        for v in variants:
            cwd = base if v.get("cwd") == "tmp" else "/"
            workers[v["name"]] = pipeline.WorkerProc("real", env=v.get("env"), cwd=cwd)
        entry = {"kind": "eval", "fun": "f0"}
        worlds = []
        # the pinned corpus first
        for f in sorted(glob.glob(os.path.join(CORPUS, "prog*.json"))):
            d = json.load(open(f))
            worlds.append((d["world"], d["signatures"], os.path.basename(f)))
        for i in range(nworlds):
            gw = progs.gen_world(rng)
            if i % 2 == 0:
                # a tracked variable that is immutable at the top and mutable inside (a list in a tuple)
                used = sorted({v for f in gw["funs"] for v in f.get("reads", [])})
                for pair in gw["vars"]:
                    if pair[0] in used:
                        pair[1] = progs.jv("tuple", [progs.jv("list", [progs.jv("int", "3"), progs.jv("int", "4")]), progs.jv("str", "z")])
                        break
            worlds.append((gw, None, None))
        history_pool = [progs.gen_world(rng) for _ in range(3)]
        mreqs, mmeta = [], []
        for wi, (w, pinned, pin_name) in enumerate(worlds):
            modname = "c3w_%d_%d" % (os.getpid(), wi)
            extmod = "c3e_fixed"            # the companion's name is part of the content (it is named in the code)
            for d in (base, moved):
                with open(os.path.join(d, modname + ".py"), "w") as fh:
                    fh.write(progs.render_world(w, extmod))
                with open(os.path.join(d, extmod + ".py"), "w") as fh:
                    fh.write(progs.render_ext(w))
            maps = {}
            for v in variants:
                wk = workers[v["name"]]
                d = moved if v.get("moved") else base
                sk = v.get("store", "memory")
                sd = tempfile.mkdtemp(prefix="c3s_", dir=base)
                wk.call(cmd="store", kind=sk, internal_dir=sd + "/i", data_dir=sd + "/d")
                if v.get("history"):
                    # earlier evaluations and a redefinition under the same module name, in this very process
                    for hw in history_pool:
                        with open(os.path.join(d, modname + ".py"), "w") as fh:
                            fh.write(progs.render_world(hw, extmod))
                        wk.call(cmd="world", dir=d, module=modname, extmod=extmod)
                        wk.call(cmd="run", entry=entry)
                    # ... and a twin of the target that differs in comments only (same compiled code, other text)
                    import copy
                    twin = copy.deepcopy(w)
                    for f in twin["funs"]:
                        f["comment"] = "twin"
                    with open(os.path.join(d, modname + ".py"), "w") as fh:
                        fh.write(progs.render_world(twin, extmod))
                    wk.call(cmd="world", dir=d, module=modname, extmod=extmod)
                    wk.call(cmd="run", entry=entry)
                    with open(os.path.join(d, modname + ".py"), "w") as fh:
                        fh.write(progs.render_world(w, extmod))
                wk.call(cmd="world", dir=d, module=modname, extmod=extmod)
                if v.get("history"):
                    # ... and the target reached by IN-PLACE updates of its mutable tracked variables (no rebinding, no
                    # reload) after an evaluation of the state before the updates, in this very process
                    pre, stmts = inplace_precursor(w)
                    if stmts:
                        with open(os.path.join(d, modname + ".py"), "w") as fh:
                            fh.write(progs.render_world(pre, extmod))
                        wk.call(cmd="world", dir=d, module=modname, extmod=extmod)
                        wk.call(cmd="run", entry=entry)
                        with open(os.path.join(d, modname + ".py"), "w") as fh:
                            fh.write(progs.render_world(w, extmod))
                        for st in stmts:
                            wk.call(cmd="exec", stmt=st)
                        res.count("inplace_histories")
                opts = {}
                if v.get("extra_debug") is not None:
                    opts["extra_debug"] = v["extra_debug"]
                if v.get("export_graph"):
                    opts["export_graph"] = os.path.join(sd, "g.svg")
                r = wk.call(cmd="run", entry=entry, opts=opts)
                res.evaluations += 1
                res.count("variant_" + v["name"])
                maps[v["name"]] = r["paths"] if r["error"] is None else {"ERROR": json.dumps(r["error"])[:200]}
            res.nontrivial(json.dumps(sorted((maps.get("seed0") or {}).items())))
            ref = maps["seed0"]
            for name, m in maps.items():
                if m != ref:
                    res.violations.append({"what": "the signatures of one program differ between environments 'seed0' and '%s'" % name,
                                           "input": {"source": progs.render_world(w, extmod), "seed0": ref, name: m}, "kf": None})
                    break
            if pinned is not None and ref != pinned:
                res.violations.append({"what": "pinned corpus entry %s: the implementation no longer reproduces the pinned signatures" % pin_name,
                                       "input": {"source": progs.render_world(w, extmod), "pinned": pinned, "now": ref}, "kf": None})
            mreqs.append({"op": "history", "max": 10000, "steps": [{"set_store": "dict"}, {"world": progs.model_world(w, extmod)},
                                                                    {"run": {"entry": entry}}]})
            mmeta.append((w, ref, pinned, pin_name, extmod))
            if wi == len(worlds) - 1:
                res.sample({"source": progs.render_world(w, extmod), "signatures": ref, "variants": sorted(maps)})
        # tracked values whose text form could be made to depend on the environment: relative and absolute file-system paths,
        # pure paths, dates (outside the model's value universe: decided by comparing the environments only)
        pm = "c3paths_%d" % os.getpid()
        psrc = ("import dds\nimport pathlib\nimport datetime\n\n"
                "RAW = pathlib.Path('data/raw.csv')\nDOT = pathlib.Path('.')\nUP = pathlib.Path('../x/./y')\nABS = pathlib.Path('/abs/x.csv')\n"
                "PURE = pathlib.PurePosixPath('rel/y')\nDAY = datetime.date(2021, 3, 1)\nTUP = (pathlib.Path('a/b'), 'c')\n"
                # ... sets, whose iteration order depends on the hash seed of the interpreter
                "STOP = frozenset({'the', 'a', 'of', 'and', 'to', 'in'})\nNA = {'', 'NA', 'null', None, 'n/a'}\n"
                # ... naive and aware date-times (the process's time zone differs between the environments)
                "START = datetime.datetime(2021, 3, 4, 5, 6)\nAWARE = datetime.datetime(2021, 3, 4, 5, 6, tzinfo=datetime.timezone(datetime.timedelta(hours=2)))\n"
                "CLOCK = datetime.time(12, 30)\n\n"
                + "".join("def g_%s():\n    return str(sorted(map(str, %s))) if isinstance(%s, (set, frozenset)) else str(%s)\n\n" % (n.lower(), n, n, n)
                          for n in ("RAW", "DOT", "UP", "ABS", "PURE", "DAY", "TUP", "STOP", "NA", "START", "AWARE", "CLOCK"))
                # ... and a function that imports a (non-accepted) helper module in its body: whether that module is already loaded in
                # the interpreter when the analysis runs (it is not the first time) must not matter
                + "def g_lazy():\n    import %s\n    return str(%s.VALUE)\n\n" % (pm + "_lazy", pm + "_lazy")
                + "def f0():\n" + "".join("    dds.keep('/c03/%s', g_%s)\n" % (n.lower(), n.lower()) for n in ("RAW", "DOT", "UP", "ABS", "PURE", "DAY", "TUP", "STOP", "NA", "START", "AWARE", "CLOCK", "LAZY"))
                + "    return 'ok'\n")
        for d in (base, moved):
            with open(os.path.join(d, pm + ".py"), "w") as fh:
                fh.write(psrc)
            with open(os.path.join(d, pm + "_lazy.py"), "w") as fh:
                fh.write("VALUE = 7\n")
        pmaps = {}
        for v in variants:
            wk = workers[v["name"]]
            d = moved if v.get("moved") else base
            sd = tempfile.mkdtemp(prefix="c3s_", dir=base)
            wk.call(cmd="store", kind=v.get("store", "memory"), internal_dir=sd + "/i", data_dir=sd + "/d")
            wk.call(cmd="world", dir=d, module=pm, extmod="c3e_fixed")
            r = wk.call(cmd="run", entry=entry)
            res.evaluations += 1
            pmaps[v["name"]] = r["paths"] if r["error"] is None else {"ERROR": json.dumps(r["error"])[:200]}
            # the same program evaluated again in the same process (on a fresh store): same signatures
            sd2 = tempfile.mkdtemp(prefix="c3s_", dir=base)
            wk.call(cmd="store", kind=v.get("store", "memory"), internal_dir=sd2 + "/i", data_dir=sd2 + "/d")
            r2 = wk.call(cmd="run", entry=entry)
            res.evaluations += 1
            pmaps[v["name"] + " (second evaluation in the process)"] = r2["paths"] if r2["error"] is None else {"ERROR": json.dumps(r2["error"])[:200]}
        res.nontrivial("path-valued variables")
        for name, m in pmaps.items():
            if m != pmaps["seed0"] or "ERROR" in m:
                res.violations.append({"what": "the signatures of a program with path / date valued variables differ between environments 'seed0' and '%s' "
                                               "(or the program is refused)" % name,
                                       "input": {"source": psrc, "seed0": pmaps["seed0"], name: m}, "kf": None})
                break
        # values that the analysis may refuse (or describe): a sentinel object as a default value, an enum member, a compiled pattern,
        # a function as a default. Whatever it answers - signatures or a refusal - the answer is the same in every environment and
        # at the second evaluation in a process (an object's address or identity must not reach a signature)
        for qi, (qdecl, qfun) in enumerate([
                ("_MISSING = object()\n", "def g(key, default=_MISSING):\n    return 0 if default is _MISSING else 1\n"),
                ("import enum\nclass Color(enum.Enum):\n    RED = 1\n", "def g(key, default=Color.RED):\n    return str(default)\n"),
                ("import re\nPAT = re.compile('a+')\n", "def g(key, default=PAT):\n    return default.pattern\n"),
                ("def helper():\n    return 1\n", "def g(key, default=helper):\n    return default()\n"),
                ("class Box(object):\n    pass\nBOX = Box()\n", "def g(key):\n    return str(type(BOX).__name__)\n")]):
            qm = "c3q%d_%d" % (qi, os.getpid())
            qsrc = "import dds\n" + qdecl + "\n" + qfun + "\ndef stats():\n    return g('a')\n\ndef f0():\n    return dds.keep('/c03/q', stats)\n"
            for d in (base, moved):
                with open(os.path.join(d, qm + ".py"), "w") as fh:
                    fh.write(qsrc)
            qmaps = {}
            for v in variants:
                wk = workers[v["name"]]
                d = moved if v.get("moved") else base
                for nth in ("", " (second evaluation in the process)"):
                    sd = tempfile.mkdtemp(prefix="c3s_", dir=base)
                    wk.call(cmd="store", kind=v.get("store", "memory"), internal_dir=sd + "/i", data_dir=sd + "/d")
                    if not nth:
                        wk.call(cmd="world", dir=d, module=qm, extmod="c3e_fixed")
                    r = wk.call(cmd="run", entry=entry)
                    res.evaluations += 1
                    qmaps[v["name"] + nth] = r["paths"] if r["error"] is None else {"REFUSED": [r["error"].get("kind"), r["error"].get("code") or r["error"].get("cls")]}
            res.nontrivial("unusual default %d" % qi)
            res.count("programs_with_unusual_defaults")
            for name, m in qmaps.items():
                if m != qmaps["seed0"]:
                    res.violations.append({"what": "the answer of the analysis (signatures or refusal) for a program with an unusual default value / variable differs "
                                                   "between environments 'seed0' and '%s'" % name,
                                           "input": {"source": qsrc, "seed0": qmaps["seed0"], name: m}, "kf": None})
                    break
        # ... what the process has imported before must not matter either: an accepted sub-module that is imported only inside the
        # body of the function that uses it (the first evaluation in a fresh process meets it unloaded, the second one loaded), and a
        # callable object of the module that is not a plain function (a functools.partial of an accepted function: its repr holds an
        # address)
        for ri, spec in enumerate([
                ({"__init__.py": "", "settings.py": "THRESHOLD = 3\n",
                  "main.py": "import dds\n\ndef stage():\n    import %(pk)s.settings\n    return %(pk)s.settings.THRESHOLD * 2\n\n"
                             "def f0():\n    return dds.keep('/c03/lazy', stage)\n"}, "main"),
                # ... nor what was analysed before in the process: a function that binds a module to a name inside its body
                # (import pkg.settings as settings) next to one that binds the same name differently (from pkg import settings),
                # analysed after it from the second evaluation on
                ({"__init__.py": "", "settings.py": "THRESHOLD = 3\nOTHER = 5\n",
                  "main.py": "import dds\nimport %(pk)s.settings\n\ndef pb():\n    from %(pk)s import settings\n    return settings.THRESHOLD\n\n"
                             "def pa():\n    import %(pk)s.settings as settings\n    return settings.OTHER\n\n"
                             "def fa():\n    return dds.keep('/c03/a', pa)\n\n"
                             "def f0():\n    return dds.keep('/c03/b', pb)\n"}, "main", "fa"),
                ({"__init__.py": "",
                  "main.py": "import dds\nimport functools\n\ndef scale(x, factor=1.0):\n    return x * factor\n\nhalve = functools.partial(scale, factor=0.5)\n\n"
                             "def halved():\n    return halve(10)\n\ndef f0():\n    return dds.keep('/c03/half', halved)\n"}, "main")]):
            files, entry_mod = spec[0], spec[1]
            between = spec[2] if len(spec) > 2 else None     # another entry of the module evaluated before the second evaluation
            pk = "c3r%d_%d" % (ri, os.getpid())
            for d in (base, moved):
                os.makedirs(os.path.join(d, pk), exist_ok=True)
                for fn_, src_ in files.items():
                    with open(os.path.join(d, pk, fn_), "w") as fh:
                        fh.write(src_ % {"pk": pk} if "%(pk)s" in src_ else src_)
            rmaps = {}
            for v in variants:
                wk = workers[v["name"]]
                d = moved if v.get("moved") else base
                for nth in ("", " (second evaluation in the process)"):
                    sd = tempfile.mkdtemp(prefix="c3s_", dir=base)
                    wk.call(cmd="store", kind=v.get("store", "memory"), internal_dir=sd + "/i", data_dir=sd + "/d")
                    if not nth:
                        wk.call(cmd="world", dir=d, module=pk + "." + entry_mod, extmod="c3e_fixed", accept=pk)
                    elif between:
                        wk.call(cmd="run", entry={"kind": "eval", "fun": between})
                    r = wk.call(cmd="run", entry=entry)
                    res.evaluations += 1
                    rmaps[v["name"] + nth] = r["paths"] if r["error"] is None else {"REFUSED": [r["error"].get("kind"), r["error"].get("code") or r["error"].get("cls")]}
            res.nontrivial("process history %d" % ri)
            res.count("programs_sensitive_to_what_is_imported")
            for name, m in rmaps.items():
                if m != rmaps["seed0"]:
                    res.violations.append({"what": "the answer of the analysis (signatures or refusal) differs between 'seed0' and '%s' for a program whose analysis "
                                                   "could depend on what the process has imported / on addresses of objects" % name,
                                           "input": {"files": dict((k_, v_ % {"pk": pk} if "%(pk)s" in v_ else v_) for k_, v_ in files.items()), "seed0": rmaps["seed0"], name: m}, "kf": None})
                    break
        # pinned programs given as source text (forms of literals in calls that the pipeline grammar does not have: signed numbers,
        # unary operators, keyword and starred literals, bytes, displays): every environment reproduces the pinned signatures
        for f in sorted(glob.glob(os.path.join(CORPUS, "src*.json"))):
            d = json.load(open(f))
            sm = "c3src_%s_%d" % (os.path.basename(f)[:-5], os.getpid())
            for d_ in (base, moved):
                with open(os.path.join(d_, sm + ".py"), "w") as fh:
                    fh.write(d["source"])
            for v in variants:
                wk = workers[v["name"]]
                sd = tempfile.mkdtemp(prefix="c3s_", dir=base)
                wk.call(cmd="store", kind=v.get("store", "memory"), internal_dir=sd + "/i", data_dir=sd + "/d")
                wk.call(cmd="world", dir=moved if v.get("moved") else base, module=sm, extmod="c3e_fixed")
                r = wk.call(cmd="run", entry=entry)
                res.evaluations += 1
                res.count("pinned_source_programs")
                got = r["paths"] if r["error"] is None else {"ERROR": json.dumps(r["error"])[:200]}
                if got != d["signatures"]:
                    res.violations.append({"what": "pinned corpus entry %s (source text): the implementation no longer reproduces the pinned signatures in environment '%s'" % (
                        os.path.basename(f), v["name"]), "input": {"source": d["source"], "pinned": d["signatures"], "now": got}, "kf": None})
                    break
            res.nontrivial("pinned source " + os.path.basename(f))
        # ... nor a partial reload: the module of a helper is edited (the helper moves to other lines, its body changes) and reloaded
        # with importlib.reload while the module that imported the helper by name (from lib import helper) is not: the signatures are
        # those of a fresh process started on the files as they are now (same source text, same variables)
        LIB1 = "RATE = 1\n\ndef helper():\n    return 'helper-1'\n\ndef other():\n    return 'other'\n"
        LIB2 = "RATE = 2\n\ndef inserted():\n    x = 1\n    return 'inserted'\n\n\ndef helper():\n    return 'helper-2'\n\ndef other():\n    return 'other'\n"
        for hi_, use in enumerate(["helper()", "helper() + lib.other() + str(lib.RATE)", "hof(helper)"]):
            pk = "c3p%d_%d" % (hi_, os.getpid())
            MAIN = ("import dds\nfrom ddsverif_rt import hof\nfrom %(pk)s.lib import helper\nimport %(pk)s.lib as lib\n\ndef stage():\n    return " + use +
                    "\n\ndef f0():\n    return dds.keep('/c03/reload', stage)\n") % {"pk": pk}
            os.makedirs(os.path.join(base, pk), exist_ok=True)
            for fn_, src_ in (("__init__.py", ""), ("lib.py", LIB1), ("main.py", MAIN)):
                with open(os.path.join(base, pk, fn_), "w") as fh:
                    fh.write(src_)
            hmaps = {}
            wk = workers["seed0"]
            sd = tempfile.mkdtemp(prefix="c3s_", dir=base)
            wk.call(cmd="store", kind="memory", internal_dir=sd + "/i", data_dir=sd + "/d")
            wk.call(cmd="world", dir=base, module=pk + ".main", extmod="c3e_fixed", accept=pk)
            r = wk.call(cmd="run", entry=entry)
            hmaps["before the edit"] = r["paths"] if r["error"] is None else {"REFUSED": [r["error"].get("kind"), r["error"].get("code") or r["error"].get("cls")]}
            with open(os.path.join(base, pk, "lib.py"), "w") as fh:
                fh.write(LIB2)
            wk.call(cmd="exec", stmt="__import__('importlib').reload(__import__('sys').modules[%r])" % (pk + ".lib"))
            r = wk.call(cmd="run", entry=entry)
            hmaps["after the edit and importlib.reload of the helper's module"] = r["paths"] if r["error"] is None else {"REFUSED": [r["error"].get("kind"), r["error"].get("code") or r["error"].get("cls")]}
            wk2 = workers["after_history"]
            sd = tempfile.mkdtemp(prefix="c3s_", dir=base)
            wk2.call(cmd="store", kind="memory", internal_dir=sd + "/i", data_dir=sd + "/d")
            wk2.call(cmd="world", dir=base, module=pk + ".main", extmod="c3e_fixed", accept=pk)
            r = wk2.call(cmd="run", entry=entry)
            hmaps["a process that only saw the edited files"] = r["paths"] if r["error"] is None else {"REFUSED": [r["error"].get("kind"), r["error"].get("code") or r["error"].get("cls")]}
            res.evaluations += 3
            res.nontrivial("partial reload %d" % hi_)
            res.count("partial_reload_histories")
            a_, b_ = hmaps["after the edit and importlib.reload of the helper's module"], hmaps["a process that only saw the edited files"]
            if a_ != b_ or "REFUSED" in b_ or hmaps["before the edit"] == b_:
                res.violations.append({"what": "after an edit and a reload of the helper's module only, the signatures differ from those of a process that only saw the "
                                               "edited files (same source text): %s" % (hmaps,),
                                       "input": {"main.py": MAIN, "lib.py before": LIB1, "lib.py after": LIB2, "signatures": hmaps}, "kf": None})
        # ... nor the order, the repetition and the timing of the calls of dds.accept_module that lead to one set of accepted packages:
        # a sub-module before or after its package, a module whose name extends the name of another one (pk_utils next to pk),
        # an evaluation made in between
        pk = "c3a%d" % os.getpid()
        os.makedirs(os.path.join(base, pk), exist_ok=True)
        for fn_, src_ in (("__init__.py", ""), ("util.py", "LEVEL = 3\n\ndef helper():\n    return 'helper'\n"),
                          ("sub.py", "import dds\nimport %(pk)s.util\nimport %(pk)s_utils\n\ndef stage():\n    return %(pk)s.util.helper() + %(pk)s_utils.scale() + str(%(pk)s.util.LEVEL)\n\n"
                                     "def f0():\n    return dds.keep('/c03/acc', stage)\n" % {"pk": pk})):
            with open(os.path.join(base, pk, fn_), "w") as fh:
                fh.write(src_)
        with open(os.path.join(base, pk + "_utils.py"), "w") as fh:
            fh.write("def scale():\n    return 'scale'\n")
        U, P_, S_ = pk + "_utils", pk, pk + ".sub"
        orders = {"package, then the module whose name extends it": [P_, U], "the longer name first": [U, P_], "sub-module, then package": [S_, U, P_],
                  "package, then sub-module": [U, P_, S_], "every call twice": [U, U, P_, P_], "sub-module, evaluation, package": [S_, "RUN", U, P_],
                  "longer name, evaluation, package, sub-module": [U, "RUN", P_, S_]}
        amaps = {}
        for what, seq in orders.items():
            wk = pipeline.WorkerProc("real", env={"PYTHONHASHSEED": "3"}, cwd=base)
            try:
                sd = tempfile.mkdtemp(prefix="c3s_", dir=base)
                wk.call(cmd="store", kind="memory", internal_dir=sd + "/i", data_dir=sd + "/d")
                for a_ in seq:
                    if a_ == "RUN":
                        wk.call(cmd="run", entry=entry)
                    else:
                        wk.call(cmd="world", dir=base, module=pk + ".sub", extmod="c3e_fixed", accept=a_)
                r = wk.call(cmd="run", entry=entry)
                amaps[what] = r["paths"] if r["error"] is None else {"REFUSED": [r["error"].get("kind"), r["error"].get("code") or r["error"].get("cls")]}
            finally:
                wk.close()
            res.evaluations += 1
            res.count("acceptance_orders")
        res.nontrivial("acceptance orders")
        ref_ = amaps["package, then the module whose name extends it"]
        for what, m in amaps.items():
            if m != ref_ or "REFUSED" in m:
                res.violations.append({"what": "the signatures depend on the order / repetition / timing of the dds.accept_module calls: %r gives %s, "
                                               "'package, then the module whose name extends it' gives %s" % (what, m, ref_),
                                       "input": {"calls": orders[what], "reference": orders["package, then the module whose name extends it"]}, "kf": None})
                break
        if ctx["driver_ok"]:
            ans = common.drv_batch(mreqs)
            for (w, ref, pinned, pin_name, extmod), a in zip(mmeta, ans):
                outs = a.get("ok") or [{}]
                mm = dict(outs[0].get("paths", []))
                if mm != ref:
                    res.disagreements.append({"what": "signatures differ from the model (bytes)", "impl": ref, "model": mm,
                                              "source": progs.render_world(w, extmod)})
                if pinned is not None and mm != pinned:
                    res.disagreements.append({"what": "the model no longer reproduces pinned corpus entry %s" % pin_name, "model": mm, "pinned": pinned})
    finally:
        for wk in workers.values():
            wk.close()
        shutil.rmtree(base, ignore_errors=True)
        shutil.rmtree(moved, ignore_errors=True)
    res.rule = ("%d pinned corpus programs + %d generated pipelines x environment variants %s; a case is one program; it is non-trivial/distinct "
                "by its signature map" % (len([1 for x in worlds if x[1] is not None]), nworlds, [v["name"] for v in variants]))
    res.violations = res.violations[:5]
    return res


def make_corpus(n=12, seed=20260927):
    """(re)creates the pinned corpus from the implementation as it is now - run by hand, never by a check"""
    import random
    common.import_dds()
    rng = random.Random(seed)
    os.makedirs(CORPUS, exist_ok=True)
    for i in range(n):
        w = progs.gen_chain_world(rng) if i % 4 == 3 else progs.gen_world(rng)
        with pipeline.Session("memory", tag="c03pin") as s:
            s.extmod = "c3e_fixed"
            s.set_world(w)
            r, rr = s.run({"kind": "eval", "fun": "f0"})
            assert r["error"] is None
            json.dump({"world": w, "signatures": r["paths"], "note": "pinned from the implementation at repository state %s" % os.popen("git -C /repo log -1 --format=%h").read().strip()},
                      open(os.path.join(CORPUS, "prog%02d.json" % i), "w"), indent=1, sort_keys=True)
    pipeline.close_ref()


SOURCES = {
    "src00": ("import dds\n\n\ndef f(a, b=0):\n    return (a, b)\n\n\ndef g(a, *rest):\n    return (a, rest)\n\n\ndef h(x, scale=-1.5, shift=+2):\n    return (x, scale, shift)\n\n\n"
              "def f0():\n    dds.keep('/c/neg', f, -3)\n    dds.keep('/c/pos', f, +3)\n    dds.keep('/c/plain', f, 3, b=-1)\n    dds.keep('/c/star', g, 1, -2, 3)\n"
              "    dds.keep('/c/kw', f, a=2, b=-0.5)\n    dds.keep('/c/dflt', h, 4)\n    dds.keep('/c/str', f, 'x', b=None)\n    dds.keep('/c/not', f, not True)\n"
              "    dds.keep('/c/inv', f, ~1)\n    dds.keep('/c/tuple', f, (1, -2))\n    dds.keep('/c/negfloat', f, -0.0, b=-1e300)\n"
              "    dds.keep('/c/big', f, -10 ** 3, b=2 ** 70)\n    return 'ok'\n"),
}


def make_corpus_sources():
    """(re)creates the source-text entries of the pinned corpus from the implementation as it is now - run by hand, never by a check"""
    common.import_dds()
    import tempfile
    for name, src in sorted(SOURCES.items()):
        d = tempfile.mkdtemp(prefix="c3pin_")
        with open(os.path.join(d, "c3pin_" + name + ".py"), "w") as fh:
            fh.write(src)
        open(os.path.join(d, "c3e_fixed.py"), "w").close()
        wk = pipeline.WorkerProc("real")
        try:
            wk.call(cmd="store", kind="memory", internal_dir=d + "/i", data_dir=d + "/d")
            wk.call(cmd="world", dir=d, module="c3pin_" + name, extmod="c3e_fixed")
            r = wk.call(cmd="run", entry={"kind": "eval", "fun": "f0"})
            assert r["error"] is None, r["error"]
            json.dump({"source": src, "signatures": r["paths"],
                       "note": "pinned from the implementation at repository state %s" % os.popen("git -C /repo log -1 --format=%h").read().strip()},
                      open(os.path.join(CORPUS, name + ".json"), "w"), indent=1, sort_keys=True)
        finally:
            wk.close()
