"""C04 - a committed path serves the value of the latest evaluation that kept it.

Correspondence: after every completed step the committed path table (path -> signature) of the real
store equals the model's `PStore.paths`, byte for byte.
Property oracle (implementation only): after every completed step, for EVERY path kept so far in the
history, `dds.load(p)` - in the same process and, for the local store, in a fresh process - equals the
value the keep at p returned in the latest evaluation that kept it (taken from the dds-free run); for
the local store the file found under the data directory holds exactly that text.
"""
import json
import os

from . import common, hist, pipeline, progs

DESIGN_REF = "DESIGN.md §5 C04"
ASSUMPTIONS = ["the DBFS store runs over a fake dbutils (local directory); kept values are strings (stored verbatim by the string codec)"]


def run(ctx):
    res = common.Result()
    thorough = ctx["tier"] == "thorough"
    common.import_dds()
    fresh = [None]

    def at_step(rec, s):
        """observations that must be made right after the step (the store moves on afterwards)"""
        if rec.real["error"] is not None:
            return
        try:
            rec.extra["committed"] = dict(s.real.store.inner.fetch_paths(sorted(rec.real["paths"] or {})))
        except BaseException as e:
            rec.extra["committed"] = "EXC:" + type(e).__name__ + ":" + str(e)[:100]
        if rec.store_kind in ("local", "local_lru"):
            files = {}
            for p in rec.ref_paths:
                f = os.path.join(s.data_dir, *[x for x in p.split("/") if x])
                try:
                    files[p] = open(f, "rb").read().decode("utf-8")
                except BaseException as e:
                    files[p] = "EXC:" + type(e).__name__
            rec.extra["files"] = files
            if rec.ref_paths and rec.step % 3 == 0:
                if fresh[0] is None:
                    fresh[0] = pipeline.WorkerProc("real")
                fresh[0].call(cmd="store", kind="local", internal_dir=s.internal_dir, data_dir=s.data_dir)
                fl = {}
                for p in list(rec.ref_paths)[:4]:
                    fl[p] = fresh[0].call(cmd="load", path=p)
                rec.extra["fresh"] = fl

    def on_record(rec, s):
        res.evaluations += 1
        res.count("store_" + rec.store_kind)
        if rec.real["error"] is not None:
            return
        if rec.model is not None:
            want = dict((p, k) for (p, k) in rec.model["committed"] if p in (rec.real["paths"] or {}))
            if rec.extra.get("committed") != want:
                res.disagreements.append({"what": "committed path table differs from the model", "step": rec.brief(),
                                          "impl": rec.extra.get("committed"), "model": want, "source": progs.render_world(rec.world, "extmod"),
                                          "source_before": progs.render_world(rec.prev_world, "extmod") if getattr(rec, "prev_world", None) else None})
        res.nontrivial(json.dumps([rec.hist, rec.step]))
        src = progs.render_world(rec.world, "extmod")
        for p, want in rec.ref_paths.items():
            got = rec.loads.get(p)
            res.count("paths_checked")
            if got is None or got["error"] is not None or pipeline.norm_ext(got["value"]) != pipeline.norm_ext(want):
                res.violations.append({"what": "path %s does not serve the value its latest keep returned: load gives %s, the keep returned %r" % (p, got, want),
                                       "input": {"step": rec.brief(), "source": src}, "kf": None})
                return
            if "files" in rec.extra and pipeline.norm_ext(rec.extra["files"].get(p)) != pipeline.norm_ext(want):
                res.violations.append({"what": "the file for %s under the data directory holds %r, the keep returned %r" % (p, rec.extra["files"].get(p), want),
                                       "input": {"step": rec.brief(), "source": src}, "kf": None})
                return
        for p, got in rec.extra.get("fresh", {}).items():
            res.count("fresh_process_loads")
            want = rec.ref_paths[p]
            if got["error"] is not None or pipeline.norm_ext(got["value"]) != pipeline.norm_ext(want):
                res.violations.append({"what": "in a fresh process path %s loads %s, the keep returned %r" % (p, got, want),
                                       "input": {"step": rec.brief(), "source": src}, "kf": None})
                return
    kinds = ("memory", "local", "local_lru", "local")
    try:
        recs = hist.run_histories(ctx, res, 240 if thorough else 44, 10 if thorough else 6, store_kinds=kinds, on_record=on_record, at_step=at_step)
        # directed: the evaluated function is itself kept (top-level keep) and keeps other paths inside; edits followed by
        # reverts bring back signatures the store already holds - the inner paths must follow
        recs += hist.run_histories(ctx, res, 60 if thorough else 14, 5, store_kinds=("memory", "local", "local_lru"), on_record=on_record, at_step=at_step,
                                   edit_kinds=["var", "revert", "body", "revert", "const_arg", "revert"], entry_kind="keep")
        # ... and the same edit / revert histories with dds.eval as the entry, through the object cache
        recs += hist.run_histories(ctx, res, 40 if thorough else 8, 5, store_kinds=("local_lru",), on_record=on_record, at_step=at_step,
                                   edit_kinds=["var", "revert", "body", "revert"])
        # the same call kept under several paths (aliases) and the same path kept by several parents, on every store kind incl.
        # the DBFS store over the fake dbutils
        recs += hist.run_histories(ctx, res, 40 if thorough else 10, 4, store_kinds=("dbfs", "memory", "local", "dbfs"), on_record=on_record, at_step=at_step,
                                   edit_kinds=["body", "revert", "body", "var", "none"], allow="shared")
        recs += hist.run_histories(ctx, res, 30 if thorough else 6, 5, store_kinds=("dbfs",), on_record=on_record, at_step=at_step)
        # kept results that are mutable objects which the caller goes on modifying after the keep returned (sorting a list in place,
        # adding a key): the path serves what the keep RETURNED (serialising stores; the memory store holds the live object)
        import shutil
        import sys
        import tempfile
        real = pipeline.real_runner()
        for mi, store_kind in enumerate(["local", "local_lru", "dbfs"] if thorough else ["local", "local_lru"]):
            base = tempfile.mkdtemp(prefix="ddsverif_c04m_")
            pkg = "c4m_%d_%d" % (os.getpid(), mi)
            try:
                real.reset_process_state()
                real.set_store(store_kind, os.path.join(base, "si"), os.path.join(base, "sd"))
                src = ("import dds\nfrom ddsverif_rt import log\n\n"
                       "def make_rows():\n    log('make_rows')\n    return [3, 1, 2]\n\n"
                       "def make_tags():\n    log('make_tags')\n    return {'b': 1}\n\n"
                       "def f1():\n    rows = dds.keep('/m/rows', make_rows)\n    tags = dds.keep('/m/meta/tags', make_tags)\n"
                       "    snap = (list(rows), dict(tags))\n    rows.sort()\n    rows.append(40)\n    tags['z'] = 9\n    return repr(snap)\n\n"
                       "def f0():\n    return %s\n" % ("dds.keep('/m/top', f1)" if mi % 2 else "f1()"))
                os.makedirs(os.path.join(base, pkg), exist_ok=True)
                open(os.path.join(base, pkg, "__init__.py"), "w").close()
                with open(os.path.join(base, pkg, "main.py"), "w") as fh:
                    fh.write(src)
                real.load_world(base, pkg + ".main", None, accept=pkg)
                for attempt in (1, 2):
                    r = real.run({"kind": "eval", "fun": "f0"})
                    res.evaluations += 1
                    res.count("mutated_after_keep")
                    res.nontrivial("mutated after keep %s %d" % (store_kind, attempt))
                    bad = None
                    if r["error"] is not None or r["value"] != repr(([3, 1, 2], {"b": 1})):
                        bad = "evaluation %d returned %r (error %s); the keeps return [3, 1, 2] and {'b': 1}" % (attempt, r["value"], r["error"])
                    else:
                        for pth, want in (("/m/rows", [3, 1, 2]), ("/m/meta/tags", {"b": 1})):
                            got = real.load_path(pth)
                            if got["error"] is not None or got["value"] != want:
                                bad = "path %s serves %s after evaluation %d; its keep returned %r (the caller modified the object afterwards)" % (pth, got, attempt, want)
                                break
                    if bad:
                        res.violations.append({"what": bad, "input": {"source": src, "store": store_kind}, "kf": None})
                        break
            finally:
                shutil.rmtree(base, ignore_errors=True)
                for k in list(sys.modules):
                    if k.split(".")[0] == pkg:
                        del sys.modules[k]
        # kept values whose stored form is empty or easily taken for 'nothing' ('' and b'' are zero-length files): over a
        # v1, v2, v1 history every path serves the value its keep returned - in the same process, through a second handle on the
        # same directories, and in a fresh process
        for vi, store_kind in enumerate(["local", "local_lru"]):
            base = tempfile.mkdtemp(prefix="ddsverif_c04e_")
            pkg = "c4e_%d_%d" % (os.getpid(), vi)
            try:
                real.reset_process_state()
                real.set_store(store_kind, os.path.join(base, "si"), os.path.join(base, "sd"))
                for step, (e1, e2, e3) in enumerate([("''", "b''", "'x'"), ("'y'", "b'z'", "''"), ("''", "b''", "'x'")]):
                    src = ("import dds\nfrom ddsverif_rt import log\n\n"
                           "def s1():\n    return %s\n\ndef s2():\n    return %s\n\ndef s3():\n    return %s\n\n"
                           "def n1():\n    return None\n\ndef n2():\n    return bytearray()\n\n"
                           "def f0():\n    return (dds.keep('/e/s1', s1), dds.keep('/e/d/s2', s2), dds.keep('/e/s3', s3), dds.keep('/e/n1', n1), "
                           "dds.keep('/e/n2', n2))\n" % (e1, e2, e3))
                    want = {"/e/s1": eval(e1), "/e/d/s2": eval(e2), "/e/s3": eval(e3), "/e/n1": None, "/e/n2": bytearray()}
                    os.makedirs(os.path.join(base, pkg), exist_ok=True)
                    open(os.path.join(base, pkg, "__init__.py"), "w").close()
                    with open(os.path.join(base, pkg, "main.py"), "w") as fh:
                        fh.write(src)
                    real.load_world(base, pkg + ".main", None, accept=pkg)
                    r = real.run({"kind": "eval", "fun": "f0"})
                    res.evaluations += 1
                    res.count("empty_value_steps")
                    res.nontrivial("empty values %s %d" % (store_kind, step))
                    bad = None
                    if r["error"] is not None or r["value"] != tuple(want[k] for k in ("/e/s1", "/e/d/s2", "/e/s3", "/e/n1", "/e/n2")):
                        bad = "the evaluation returned %r (error %s)" % (r["value"], r["error"])
                    else:
                        if fresh[0] is None:
                            fresh[0] = pipeline.WorkerProc("real")
                        fresh[0].call(cmd="store", kind="local", internal_dir=os.path.join(base, "si"), data_dir=os.path.join(base, "sd"))
                        for pth, w in sorted(want.items()):
                            got = real.load_path(pth)
                            got2 = fresh[0].call(cmd="load", path=pth)
                            for who, g_ in (("the same process", got), ("a fresh process", got2)):
                                gv = g_.get("value")
                                if g_.get("error") is not None or (gv != w and gv != repr(w) and not (isinstance(w, (bytes, bytearray)) and gv in (repr(bytes(w)), repr(bytearray(w)), bytes(w)))):
                                    bad = "path %s: the keep returned %r, dds.load in %s gives %s" % (pth, w, who, g_)
                                    break
                            if bad:
                                break
                    if bad:
                        res.violations.append({"what": bad, "input": {"source": src, "store": store_kind, "step": step}, "kf": None})
                        break
            finally:
                shutil.rmtree(base, ignore_errors=True)
                for k in list(sys.modules):
                    if k.split(".")[0] == pkg:
                        del sys.modules[k]
        # data frames whose row labels are not the default ones (the result of a group-by, a filter, a date index, two levels):
        # the path serves a frame equal to the one the keep returned - labels included - through dds.load in this process and
        # in another one, and through the parquet file under the data directory
        try:
            import pandas
        except ImportError:
            pandas = None
        if pandas is not None:
            import subprocess
            FRAME_FUNS = [("base", "pandas.DataFrame({'k': ['a', 'b', 'a', 'c'], 'v': [1, 2, 3, 4], 'w': [0.5, 1.5, 2.5, 3.5]})"),
                          ("agg", "base().groupby('k').sum()"), ("byv", "base().set_index('v')"), ("filt", "base()[base().v %% 2 == 0]"),
                          ("dated", "pandas.DataFrame({'x': [%(n)d, 2]}, index=pandas.to_datetime(['2020-01-01', '2020-01-03']))"),
                          ("two", "base().set_index(['k', 'v'])"), ("srt", "base().sort_values('w', ascending=False)")]
            CHILD = ("import sys, json\nsys.path.insert(0, %r)\nimport dds, pandas\nsys.path.insert(0, %r)\nfrom ddsverif_rt import frame_text\n"
                     "dds.set_store('local', internal_dir=sys.argv[1], data_dir=sys.argv[2])\n"
                     "print('RESULT ' + json.dumps(dict((p, frame_text(dds.load(p))) for p in json.loads(sys.argv[3]))))\n")
            from ddsverif_rt import frame_text
            for vi, store_kind in enumerate(["local", "local_lru"]):
                base = tempfile.mkdtemp(prefix="ddsverif_c04p_")
                pkg = "c4p_%d_%d" % (os.getpid(), vi)
                try:
                    real.reset_process_state()
                    real.set_store(store_kind, os.path.join(base, "si"), os.path.join(base, "sd"))
                    for step, n in enumerate([1, 5, 1]):
                        src = ("import dds\nimport pandas\nfrom ddsverif_rt import log, frame_text\n\n"
                               + "".join("def %s():\n    return %s\n\n" % (fn, body % {"n": n} if "%(n)d" in body else body.replace("%%", "%")) for (fn, body) in FRAME_FUNS)
                               + "def f0():\n    return [" + ", ".join("frame_text(dds.keep(%r, %s))" % (("/fr/base" if fn == "base" else "/fr/d/" + fn), fn)
                                                                             for (fn, _) in FRAME_FUNS) + "]\n")
                        os.makedirs(os.path.join(base, pkg), exist_ok=True)
                        open(os.path.join(base, pkg, "__init__.py"), "w").close()
                        with open(os.path.join(base, pkg, "main.py"), "w") as fh:
                            fh.write(src)
                        real.load_world(base, pkg + ".main", None, accept=pkg)
                        r = real.run({"kind": "eval", "fun": "f0"})
                        res.evaluations += 1
                        res.count("data_frame_steps")
                        res.nontrivial("data frames %s %d" % (store_kind, step))
                        if r["error"] is not None:
                            res.violations.append({"what": "an evaluation that keeps data frames fails: %s" % (r["error"],), "input": {"source": src}, "kf": None})
                            break
                        paths = ["/fr/base"] + ["/fr/d/" + fn for (fn, _) in FRAME_FUNS[1:]]
                        want = dict(zip(paths, r["value"]))
                        import dds as _dds

                        def _safe(fn_):
                            try:
                                return fn_()
                            except BaseException as e_:
                                return "EXC:%s:%s" % (type(e_).__name__, str(e_)[:120])
                        here = dict((p_, _safe(lambda: frame_text(_dds.load(p_)))) for p_ in paths)
                        cp = subprocess.run([sys.executable, "-B", "-c", CHILD % (common.REPO, os.path.join(common.ROOT, "harness", "rtlib")),
                                             os.path.join(base, "si"), os.path.join(base, "sd"), json.dumps(paths)], capture_output=True, text=True, timeout=300)
                        lines = [l for l in cp.stdout.splitlines() if l.startswith("RESULT ")]
                        there = json.loads(lines[-1][7:]) if lines else dict((p_, "EXC:" + (cp.stderr.strip().splitlines() or ["no output"])[-1][:200]) for p_ in paths)
                        files = dict((p_, _safe(lambda: frame_text(pandas.read_parquet(os.path.join(base, "sd", p_.lstrip("/")))))) for p_ in paths)
                        bad = None
                        for p_ in paths:
                            for who, got in (("dds.load in the same process", here), ("dds.load in another process", there), ("the parquet file under the data directory", files)):
                                if got[p_] != want[p_]:
                                    bad = "path %s: the keep returned the frame %s, %s gives %s" % (p_, want[p_], who, got[p_])
                                    break
                            if bad:
                                break
                        if bad:
                            res.violations.append({"what": bad, "input": {"source": src, "store": store_kind, "step": step}, "kf": None})
                            break
                finally:
                    shutil.rmtree(base, ignore_errors=True)
                    for k in list(sys.modules):
                        if k.split(".")[0] == pkg:
                            del sys.modules[k]
        # a keep that is not reached (in a branch that is not taken, in a loop that does not run): the evaluation keeps nothing at
        # that path, so the path goes on serving the value of the latest evaluation that did keep it - and does not resolve at all
        # on a store where nothing was ever kept there
        for bi, store_kind in enumerate(["local", "memory", "local_lru"]):
            base = tempfile.mkdtemp(prefix="ddsverif_c04b_")
            pkg = "c4b_%d_%d" % (os.getpid(), bi)
            try:
                real.reset_process_state()
                real.set_store(store_kind, os.path.join(base, "si"), os.path.join(base, "sd"))
                last = {}
                for step, (flag, n, tag) in enumerate([(False, 0, "t0"), (True, 2, "t1"), (False, 0, "t2"), (True, 1, "t3"), (False, 3, "t3")]):
                    src = ("import dds\nfrom ddsverif_rt import log, term\n\nFLAG = %s\nN = %d\n\n"
                           "def g():\n    return term('g', %r)\n\ndef h():\n    return term('h', %r)\n\n"
                           "def f0():\n    if FLAG:\n        a = dds.keep('/b/a', g)\n    else:\n        a = None\n"
                           "    b = [dds.keep('/b/loop', h) for _ in range(N)]\n    return term('f0', a, b)\n" % (flag, n, tag, tag))
                    os.makedirs(os.path.join(base, pkg), exist_ok=True)
                    open(os.path.join(base, pkg, "__init__.py"), "w").close()
                    with open(os.path.join(base, pkg, "main.py"), "w") as fh:
                        fh.write(src)
                    real.load_world(base, pkg + ".main", None, accept=pkg)
                    r = real.run({"kind": "eval", "fun": "f0"})
                    res.evaluations += 1
                    res.count("unreached_keep_steps")
                    res.nontrivial("unreached keep %s %d" % (store_kind, step))
                    if flag:
                        last["/b/a"] = "g(%s)" % tag
                    if n > 0:
                        last["/b/loop"] = "h(%s)" % tag
                    bad = None
                    if r["error"] is not None:
                        bad = "the evaluation fails: %s" % (r["error"],)
                    else:
                        for pth in ("/b/a", "/b/loop"):
                            got = real.load_path(pth)
                            if pth in last:
                                if got["error"] is not None or got["value"] != last[pth]:
                                    bad = "path %s: the latest evaluation that kept it returned %r; after an evaluation that did not reach the keep, dds.load gives %s" % (
                                        pth, last[pth], got)
                            elif got["error"] is None:
                                bad = "path %s was never kept (the keep was not reached), yet dds.load answers %r" % (pth, got["value"])
                            if bad:
                                break
                    if bad:
                        res.violations.append({"what": bad, "input": {"source": src, "store": store_kind, "step": step}, "kf": None})
                        break
            finally:
                shutil.rmtree(base, ignore_errors=True)
                for k in list(sys.modules):
                    if k.split(".")[0] == pkg:
                        del sys.modules[k]
    finally:
        if fresh[0] is not None:
            fresh[0].close()
    if recs:
        r0 = recs[len(recs) // 2]
        res.sample({"step": r0.brief(), "paths": r0.ref_paths, "loads": r0.loads})
    pipeline.close_ref()
    res.rule = ("seeded histories as in C01 over stores {memory, local, local+cache, DBFS over a fake dbutils}, plus pipelines where one call is kept under several paths / one path by several parents; path shapes /pN, /d/qN, /d/e/rN, /dfN, /top (1..3 segments, "
                "shared directories); after each step every path kept so far is loaded (same process, fresh process, raw file); one case = "
                "one evaluation step")
    res.violations = res.violations[:5]
    return res
