"""C05 - value hashing is total, deterministic and collision-free (dds/fun_args.py: dds_hash).

Correspondence: for every generated value, error kind and the *bytes* of the signature are compared
between `dds.fun_args.dds_hash` and the Lean model (`Dds.ddsHash`, interpreted with real SHA-256).
Property oracle (independent of the model): no non-DDS exception; no two values with one signature
unless they differ only by the documented identifications; same signatures in a second interpreter
process with another hash seed.
"""
import dataclasses
import datetime
import itertools
import json
import os
import struct
import subprocess
import sys
from collections import OrderedDict
from pathlib import PurePosixPath

from . import common

DESIGN_REF = "DESIGN.md §5 C05"
ASSUMPTIONS = ["strings are sequences of Unicode scalar values (lone surrogates are outside the modelled universe)",
               "repr() of datetime objects and str() of PurePosixPath are passed in, not modelled"]

TEMPORALS = [datetime.date(2020, 1, 2), datetime.datetime(2020, 1, 2, 3, 4, 5), datetime.time(1, 2, 3),
             datetime.timedelta(0), datetime.timedelta(days=1, seconds=2), datetime.timezone.utc]
UNSUPPORTED = {"set": lambda: {1, 2}, "bytes": lambda: b"ab", "complex": lambda: 1j, "object": lambda: object(),
               "frozenset": lambda: frozenset([1])}
_dc_cache = {}
_nt_cache = {}


def make_dc(names):
    key = tuple(names)
    if key not in _dc_cache:
        # every field has a declared default (1, 0.0, '', None in turn): instances are always built with explicit values, some of
        # which are equal (==) to the default without being the same value for dds (1.0, True, 0, -0.0); every second field is left
        # out of the comparison and some out of the repr of the dataclass (field(compare=False, repr=False)): still part of the value
        import typing
        dflt = [1, 0.0, "", None]
        _dc_cache[key] = dataclasses.make_dataclass("DC_" + "_".join(names) if names else "DC_empty",
                                                    [(n, typing.Any, dataclasses.field(default=dflt[i % 4], compare=(i % 2 == 0), repr=(i % 3 != 1)))
                                                     for i, n in enumerate(names)])
    return _dc_cache[key]


_dcs_cache = {}


def make_dcs(names):
    """a dataclass whose odd fields are not arguments of the constructor (init=False: set on the object afterwards), with an InitVar
    pseudo-field without a default value and a ClassVar that counts the instances: neither is a field of the value"""
    key = tuple(names)
    if key not in _dcs_cache:
        import typing
        ns = {"instances": 0}

        def post(self, scale):
            type(self).instances += 1
        fields = [(n, typing.Any, dataclasses.field(default=None, init=(i % 2 == 0))) for i, n in enumerate(names)]
        fields += [("scale", dataclasses.InitVar[int]), ("instances", typing.ClassVar[int])]
        # (InitVar without default must come before the fields with defaults: declare it first)
        fields = [fields[-2]] + fields[:-2] + [fields[-1]]
        _dcs_cache[key] = dataclasses.make_dataclass("DCS_" + "_".join(names) if names else "DCS_empty", fields,
                                                     namespace={"__post_init__": post, "instances": 0})
    return _dcs_cache[key]


def dec(j):
    """JSON encoding -> python value (inverse of enc on the generated universe)"""
    t = j["t"]
    v = j.get("v")
    if t == "none":
        return None
    if t == "bool":
        return bool(v)
    if t == "int":
        return pint(v)
    if t == "float":
        return struct.unpack("!d", struct.pack("!Q", int(v)))[0]
    if t == "str":
        return v
    if t == "list":
        return [dec(x) for x in v]
    if t == "tuple":
        return tuple(dec(x) for x in v)
    if t == "dict":
        return {_hashable(dec(k)): dec(x) for (k, x) in v}
    if t == "odict":
        return OrderedDict([(_hashable(dec(k)), dec(x)) for (k, x) in v])
    if t == "dc":
        cls = make_dc([n for (n, _) in v])
        return cls(*[dec(x) for (_, x) in v])
    if t == "dcs":
        cls = make_dcs([n for (n, _) in v])
        vals = [dec(x) for (_, x) in v]
        obj = cls(7, *[x for i, x in enumerate(vals) if i % 2 == 0])
        for i, (n, _) in enumerate(v):
            if i % 2 == 1:
                setattr(obj, n, vals[i])
        return obj
    if t == "nt":
        import collections
        names = tuple(n for (n, _) in v)
        if names not in _nt_cache:
            _nt_cache[names] = collections.namedtuple("NT_" + "_".join(names) if names else "NT_empty", list(names))
        return _nt_cache[names](*[dec(x) for (_, x) in v])
    if t == "temporal":
        return TEMPORALS[j["idx"]]
    if t == "ppath":
        return PurePosixPath(v)
    if t == "cpath":
        from dds.structures import CanonicalPath
        return CanonicalPath(PurePosixPath(v[1:-1]))
    if t == "unsupported":
        return UNSUPPORTED[v]()
    raise ValueError(t)


def _hashable(k):
    if isinstance(k, list):
        return tuple(k)
    return k


def sint(i):
    """ints travel as decimal text, or as 0x-hex text when huge (CPython limits decimal conversion)"""
    return str(i) if abs(i) < 2 ** 64 else hex(i)


def pint(v):
    return int(v, 0)


def jv(t, v=None, **kw):
    d = {"t": t}
    if v is not None:
        d["v"] = v
    d.update(kw)
    return d


def fbits(x):
    return str(struct.unpack("!Q", struct.pack("!d", x))[0])


def atoms():
    a = [jv("none"), jv("bool", True), jv("bool", False)]
    for i in [0, 1, -1, 2, 2 ** 31 - 1, -2 ** 31, 2 ** 31, -2 ** 31 - 1, 2 ** 63, 2 ** 64, -2 ** 64, 1094861636, 10 ** 30, -(10 ** 5000)]:
        a.append(jv("int", sint(i)))
    for x in [0.0, -0.0, 1.0, float("nan"), float("inf"), float("-inf"), 2.0, 1e-320]:
        a.append(jv("float", fbits(x)))
    for s in ["", "|", "a", "b", "ab", "__DDS_NONE__", "__none__", "ABCD", "\x00\x00\x00\x01", "a|b", "é", "1", "0",
              "\x40\x00\x00\x00\x00\x00\x00\x00", "__DDS_INT__2147483648",
              "ca978112ca1bbdcafac231b39a23dc4da786eff8147c4e72b9807785afee48bb",
              # strings that spell other atoms (str / repr of numbers, None, booleans, containers)
              "None", "True", "False", "-1", "2147483648", "0.0", "-0.0", "nan", "[]", "()", "{}", "['a']", "('a',)", "{'k': 1}",
              # different strings that a text normalisation, a case folding or a stripping would identify
              "caf\u00e9", "cafe\u0301", "\u00c5", "\u212b", "\u03a9", "\u2126", "\ufb01", "fi", "A", " a", "a ", "a\n", "\ufeffa", "a\u200b"]:
        a.append(jv("str", s))
    for idx, t in enumerate(TEMPORALS):
        a.append(jv("temporal", repr(t), idx=idx))
    # (paths that a lexical normalisation would identify: pathlib keeps x/.. , the hash is that of the text as pathlib spells it)
    for s in ["a/b", "/a", ".", "a/x/../b", "/a/..", "/", "../a", "a/../../b", "a/b/..", "a"]:
        a.append(jv("ppath", str(PurePosixPath(s))))
    a.append(jv("cpath", "<a/b>"))
    for u in sorted(UNSUPPORTED):
        a.append(jv("unsupported", u))
    return a


def key_atoms():
    """dict keys: strings, non-strings, and the strings that *spell* the non-string keys (str / repr)"""
    return [jv("str", "k"), jv("str", ""), jv("int", "1"), jv("str", "a"), jv("none"), jv("tuple", [jv("int", "1")]),
            jv("str", "1"), jv("str", "None"), jv("str", "(1,)"), jv("bool", True), jv("str", "True"), jv("float", fbits(1.0)), jv("str", "1.0")]


def containers(elems, keys, full):
    """containers over the given element encodings (one level)"""
    out = []
    small = elems if full else elems[:14]
    out += [jv("list", []), jv("tuple", []), jv("dict", []), jv("odict", []), jv("dc", []), jv("nt", [])]
    for e in elems[:40]:
        out.append(jv("nt", [["k", e]]))
    for e in elems:
        out.append(jv("list", [e]))
        out.append(jv("tuple", [e]))
        out.append(jv("dict", [[keys[0], e]]))
        out.append(jv("dc", [["k", e]]))
    for k in keys:
        out.append(jv("dict", [[k, elems[3]]]))
        out.append(jv("odict", [[k, elems[3]]]))
    for (x, y) in itertools.product(small, small):
        out.append(jv("list", [x, y]))
    for (x, y) in itertools.product(small[:8], small[:8]):
        out.append(jv("tuple", [x, y]))
        out.append(jv("dict", [[keys[0], x], [keys[3], y]]))
        out.append(jv("dc", [["k", x], ["a", y]]))
        out.append(jv("nt", [["k", x], ["a", y]]))
        out.append(jv("odict", [[keys[0], x], [keys[3], y]]))
        out.append(jv("dcs", [["k", x], ["a", y]]))
    return out


def random_value(rng, depth):
    if depth <= 0 or rng.random() < 0.3:
        return rng.choice(_ATOMS)
    kind = rng.choice(["list", "tuple", "dict", "odict", "dc", "list", "list", "nt", "dcs"])
    n = rng.choice([0, 1, 1, 2, 2, 3, 5])
    if kind in ("list", "tuple"):
        return jv(kind, [random_value(rng, depth - 1) for _ in range(n)])
    if kind in ("dict", "odict"):
        ks = rng.sample([jv("str", s) for s in ["k", "a", "b", "", "kk", "|"]] + [jv("int", "1"), jv("int", "2")], n)
        return jv(kind, [[k, random_value(rng, depth - 1)] for k in ks])
    names = rng.sample(["k", "a", "b", "x", "y", "zz"], n)
    return jv(kind, [[nm, random_value(rng, depth - 1)] for nm in names])


_ATOMS = atoms()


# ---- documented identifications and the known-finding families (python side, independent of Lean) ----

RULES = ["empty", "none", "dict", "numbytes", "digesttext"]
RULE_KF = {"empty": "C05-KF1", "none": "C05-KF2", "dict": "C05-KF3", "numbytes": "C05-KF4", "digesttext": "C05-KF5"}
_HASHER = [None]


def rewrite(j, rules):
    """apply the known-finding identifications (as rewrites towards strings / lists) to an encoded value"""
    t = j["t"]
    v = j.get("v")
    if t == "none" and "none" in rules:
        return jv("str", "__DDS_NONE__")
    if t in ("bool", "int") and "numbytes" in rules:
        i = pint(v) if t == "int" else (1 if v else 0)
        if -2 ** 31 <= i < 2 ** 31:
            return _bytes_val(struct.pack("!l", i), j)
        return jv("str", "__DDS_INT__" + format(i, "+x"))
    if t == "float" and "numbytes" in rules:
        return _bytes_val(struct.pack("!Q", int(v)), j)
    if t in ("list", "tuple"):
        xs = [rewrite(x, rules) for x in v]
    elif t == "nt":
        xs = [rewrite(x, rules) for (_, x) in v]
    elif t in ("dict", "odict"):
        if "dict" not in rules:
            return jv(t, [[rewrite(k, rules), rewrite(x, rules)] for (k, x) in v])
        xs = [rewrite(jv("list", [k, x]), rules) for (k, x) in v]
    elif t in ("dc", "dcs"):
        if "dict" not in rules:
            return jv("dc", [[n, rewrite(x, rules)] for (n, x) in v])
        xs = [rewrite(jv("list", [jv("str", n), jv("list", [x])]), rules) for (n, x) in v]
    else:
        return j
    if not xs and "empty" in rules:
        return jv("str", "")
    if xs and "digesttext" in rules:
        hs = [_HASHER[0](x) for x in xs]
        if all(h is not None for h in hs):
            return jv("str", "|".join(hs))
    return jv("list", xs)


def _bytes_val(b, j):
    try:
        return jv("str", b.decode("utf-8"))
    except UnicodeDecodeError:
        return j


def canon(j, rules=()):
    """canonical key under the documented identifications (list=tuple, bool=int, path/date=text,
    OrderedDict=dict) after applying the given known-finding rules"""
    if rules:
        j = rewrite(j, rules)
    t = j["t"]
    v = j.get("v")
    if t == "none":
        return ("none",)
    if t in ("bool", "int"):
        return ("i", pint(v) if t == "int" else (1 if v else 0))
    if t == "float":
        return ("f", v)
    if t in ("str", "temporal", "ppath", "cpath"):
        return ("s", v)
    if t == "unsupported":
        return ("u", v)
    if t in ("list", "tuple"):
        return ("l", tuple(canon(x) for x in v))
    if t == "nt":
        # a named tuple is a tuple: the names of its fields are not part of the value (list = tuple)
        return ("l", tuple(canon(x) for (_, x) in v))
    if t in ("dict", "odict"):
        return ("d", tuple((canon(k), canon(x)) for (k, x) in v))
    if t in ("dc", "dcs"):
        return ("dc", tuple((n, canon(x)) for (n, x) in v))
    raise ValueError(t)


def classify(a, b):
    """smallest set of known-finding rules under which a and b are identified (None if none)"""
    for n in range(1, len(RULES) + 1):
        for rs in itertools.combinations(RULES, n):
            if canon(a, rs) == canon(b, rs):
                return rs
    return None


def to_model(j):
    """the value as the model knows it: a named tuple is a tuple"""
    t, v = j["t"], j.get("v")
    if t == "nt":
        return jv("tuple", [to_model(x) for (_, x) in v])
    if t in ("list", "tuple"):
        return jv(t, [to_model(x) for x in v])
    if t in ("dict", "odict"):
        return jv(t, [[to_model(k), to_model(x)] for (k, x) in v])
    if t in ("dc", "dcs"):
        return jv("dc", [[n, to_model(x)] for (n, x) in v])
    return j


def impl_hash(dds_hash, DDSException, j):
    try:
        v = dec(j)
    except Exception as e:  # generator problem
        return ("gen", repr(e))
    try:
        return ("ok", dds_hash(v))
    except DDSException as e:
        return ("err", e.error_code.name if e.error_code is not None else "NO_CODE")
    except BaseException as e:
        return ("exc", type(e).__name__)


CHILD = r"""
import sys, json
sys.path.insert(0, %r); sys.path.insert(0, %r)
from harness import c05
from dds.fun_args import dds_hash
from dds.structures import DDSException
vals = json.load(sys.stdin)
print(json.dumps([c05.impl_hash(dds_hash, DDSException, j) for j in vals]))
"""


def run(ctx):
    res = common.Result()
    rng = ctx["rng"]
    common.import_dds()
    from dds.fun_args import dds_hash
    from dds.structures import DDSException
    import dds._config as cfg

    def _hasher(j):
        r = impl_hash(dds_hash, DDSException, j)
        return r[1] if r[0] == "ok" else None
    _HASHER[0] = _hasher
    thorough = ctx["tier"] == "thorough"
    A = _ATOMS
    vals = list(A)
    lvl1 = containers(A, key_atoms(), thorough)
    vals += lvl1
    # depth 2: containers over a slice of level 1 (+ atoms)
    lvl1_small = [jv("list", []), jv("tuple", []), jv("dict", []), jv("list", [A[0]]), jv("list", [jv("str", "")]),
                  jv("list", [jv("list", [])]), jv("dict", [[jv("str", "k"), jv("int", "1")]]),
                  jv("list", [jv("list", [jv("str", "k"), jv("int", "1")])]),
                  jv("dc", [["k", jv("int", "1")]]), jv("dict", [[jv("str", "k"), jv("list", [jv("int", "1")])]]),
                  jv("list", [jv("str", "a"), jv("str", "b")]), jv("list", [jv("str", "a|b")]),
                  jv("tuple", [jv("int", "1"), jv("int", "2")]), jv("unsupported", "set"), jv("list", [jv("unsupported", "set")])]
    vals += containers(lvl1_small + A[:6], key_atoms(), thorough)
    if thorough:
        vals += containers(lvl1[:160], key_atoms(), False)
    nrand = 6000 if thorough else 1200
    for _ in range(nrand):
        vals.append(random_value(rng, rng.choice([2, 3, 4])))
    if ctx.get("replay"):
        rp = json.load(open(ctx["replay"]))
        v = rp.get("violation", {}).get("input")
        if v:
            vals = list(v if isinstance(v, list) else [v]) + vals[:50]
    # dedupe
    seen = set()
    uniq = []
    for j in vals:
        k = json.dumps(j, sort_keys=True)
        if k not in seen:
            seen.add(k)
            uniq.append(j)
    vals = uniq

    maxlen = int(cfg.get_option("hash.max_sequence_size"))
    strata = [(maxlen, vals, {})]
    # second stratum: a small max_sequence_size so that SEQUENCE_TOO_LONG is reachable
    conts = [j for j in vals if j["t"] in ("list", "tuple", "dict", "odict", "dc", "nt", "dcs")]
    three = [jv("int", "1"), jv("int", "2"), jv("int", "3")]
    long_ones = [jv("list", three), jv("tuple", three), jv("nt", [["k", three[0]], ["a", three[1]], ["b", three[2]]]),
                 jv("dict", [[jv("str", "a"), three[0]], [jv("str", "b"), three[1]], [jv("str", "c"), three[2]]]),
                 jv("dc", [["k", three[0]], ["a", three[1]], ["b", three[2]]])]
    # a sequence that is too long, met below an index, a key, a field (the error message names the way to it)
    nested_long = []
    for lo in long_ones:
        nested_long += [lo, jv("list", [lo]), jv("tuple", [jv("int", "0"), lo]), jv("dict", [[jv("str", "k"), lo]]), jv("dict", [[jv("int", "7"), lo]]),
                        jv("dc", [["k", lo]]), jv("nt", [["k", lo]]), jv("list", [jv("list", [jv("dict", [[jv("str", "k"), lo]])])])]
    stride = max(1, len(conts) // 1500)
    strata.append((2, nested_long + conts[::stride][:1500], {}))
    # third stratum: the options of the *tracking* of module-level containers (accept_list / accept_dict) are switched off: the
    # hash of a value is a function of the value, the model has no such parameter
    strata.append((maxlen, conts[::stride][:1500] + vals[:200], {"accept_list": False, "accept_dict": False}))

    for (mx, vs, opts) in strata:
        cfg.set_option("hash.max_sequence_size", mx)
        for ok_, ov_ in opts.items():
            cfg.set_option(ok_, ov_)
            res.count("values_hashed_with_%s_%s" % (ok_, ov_), len(vs))
        try:
            impl = [impl_hash(dds_hash, DDSException, j) for j in vs]
        finally:
            cfg.reset_option("hash.max_sequence_size")
            for ok_ in opts:
                cfg.reset_option(ok_)
        model = None
        if ctx["driver_ok"]:
            try:
                model = common.drv_batch([{"op": "hash", "v": to_model(j), "max": mx} for j in vs])
            except common.DriverUnavailable as e:
                res.disagreements.append({"what": "driver unavailable", "detail": str(e)})
        by_hash = {}
        for idx, j in enumerate(vs):
            r = impl[idx]
            res.evaluations += 1
            res.count("impl_" + r[0] + ("_" + r[1] if r[0] != "ok" else ""))
            res.count("type_" + j["t"])
            if r[0] == "gen":
                continue
            if r[0] == "exc":
                res.violations.append({"what": "dds_hash raised a non-DDS exception %s" % r[1], "input": j,
                                       "max_sequence_size": mx, "kf": None})
            if r[0] == "ok":
                by_hash.setdefault(r[1], []).append(j)
            if model is not None:
                m = model[idx]
                mm = ("ok", m["ok"]) if "ok" in m else (("err", m["err"]) if "err" in m else ("bad", json.dumps(m)))
                if mm[0] == "err" and mm[1] == "LOW_LEVEL":
                    mm = ("exc", "struct.error")
                cmp_impl = r if r[0] != "exc" else ("exc", "struct.error" if r[1] == "error" else r[1])
                if mm != cmp_impl:
                    res.disagreements.append({"what": "dds_hash differs from the model", "input": j, "max": mx,
                                              "impl": r, "model": mm})
                res.nontrivial(json.dumps(m.get("canon", m.get("err"))))
        res.sample({"value": vs[len(vs) // 3], "impl": impl[len(vs) // 3], "max_sequence_size": mx})
        # collisions (property oracle, implementation only)
        for h, group in by_hash.items():
            keys = {}
            for j in group:
                keys.setdefault(canon(j), j)
            if len(keys) > 1:
                reps = list(keys.values())
                for other in reps[1:]:
                    rs = classify(reps[0], other)
                    res.count("collision_" + ("+".join(rs) if rs else "NEW"))
                    res.violations.append({
                        "what": "two values that differ beyond the documented identifications share signature %s" % h,
                        "input": [reps[0], other], "rules": rs,
                        "kf": (RULE_KF[rs[0]] if rs else None)})
    # determinism across processes / hash seeds
    sub = vals[:: max(1, len(vals) // (3000 if thorough else 800))]
    cfg.reset_option("hash.max_sequence_size")
    here = [impl_hash(dds_hash, DDSException, j) for j in sub]
    for hs in (["0", "12345"] if not thorough else ["0", "1", "12345", "random"]):
        env = dict(os.environ, PYTHONHASHSEED=hs)
        p = subprocess.run([sys.executable, "-B", "-c", CHILD % (common.REPO, common.ROOT)], input=json.dumps(sub),
                           capture_output=True, text=True, env=env, cwd="/", timeout=600)
        if p.returncode != 0:
            raise common.Infra("child process failed: " + p.stderr[-400:])
        there = [tuple(x) for x in json.loads(p.stdout)]
        res.evaluations += len(sub)
        for j, a, b in zip(sub, here, there):
            # object() reprs etc. never enter: only hashes / error kinds are compared
            if tuple(a) != tuple(b):
                res.violations.append({"what": "signature differs in another process (PYTHONHASHSEED=%s): %s vs %s" % (hs, a, b),
                                       "input": j, "kf": None})
    # known findings: replay each listed witness on the real code
    kf = {f["id"]: f for f in common.load_known_findings().get("findings", []) if f.get("property") == "C05"}
    for fid, f in kf.items():
        a, b = f["witness"]
        ra, rb = impl_hash(dds_hash, DDSException, a), impl_hash(dds_hash, DDSException, b)
        res.kf_replayed[fid] = (ra[0] == "ok" and ra == rb)
    res.rule = ("alphabet of %d atoms (boundary ints, signed zeros, nan/inf, empty/separator/sentinel/digest-like strings, "
                "dates, paths, unsupported types) closed under list/tuple/named tuple/dict/OrderedDict/dataclass to depth 2%s, plus %d "
                "seeded random values to depth 4; max_sequence_size in {default, 2}; a case is non-trivial/distinct by its "
                "canonical form (model canonKF) or error kind" % (len(A), " (wider at depth 2)" if thorough else "", nrand))
    # dedupe violations by (kf / input)
    uniqv = {}
    for v in res.violations:
        k = (v.get("kf"), v["what"][:60]) if v.get("kf") else json.dumps(v["input"], sort_keys=True)
        if k not in uniqv:
            uniqv[k] = v
    res.violations = sorted(uniqv.values(), key=lambda v: len(json.dumps(v["input"])))
    return res
