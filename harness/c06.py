"""C06 - a process killed at any instant never leaves a store that serves wrong data.

Fault enumeration on the real code: for each scenario (store creation + first keep, re-keep with changed
code, nested keeps, cache-wrapped store) the evaluation is run in a forked child whose file-system
operations on the store directories are interposed from outside (harness/fsinterpose.py); the child is
killed (os._exit, kill -9 semantics: completed operations durable, process state lost) before operation
k, for EVERY k, each write being split in two halves. A fresh process then loads every path committed
before and evaluates the pipeline again.
Correspondence: the operation trace of each request is compared with the Lean model's program for that
request, and the model's prediction of the state after every crash point (which keys are readable) with
what the recovery process finds.
Property oracle (implementation only): after every crash point the later evaluation returns the value of
plain execution - never None, a truncated value or another function's value; committed paths load their
old or their new complete value; nothing raises.
"""
import json
import os
import re
import pickle
import shutil
import sys
import tempfile

from . import common, progs, pipeline

DESIGN_REF = "DESIGN.md §5 C06"
ASSUMPTIONS = ["kill -9 semantics at file-system-operation granularity: each interposed operation is atomic, a completed one is durable, "
               "a write is torn only at its midpoint (two halves)",
               "power loss / fsync ordering is outside the property's crash semantics"]


def in_child(fn, kill_at=None, base=None):
    """run fn() in a forked child; returns ('ok', result, trace) | ('killed', None, None) | ('exc', repr, None)"""
    r, w = os.pipe()
    pid = os.fork()
    if pid == 0:
        code = 0
        try:
            os.close(r)
            from . import fsinterpose
            if base is not None:
                fsinterpose.install(base)
                fsinterpose.enable(kill_at=kill_at)
            try:
                res = ("ok", fn(), None)
            except BaseException as e:
                res = ("exc", "%s: %s" % (type(e).__name__, str(e)[:200]), None)
            if base is not None:
                from . import fsinterpose as fi
                tr = list(fi.TRACE)
                fi.disable()
                res = (res[0], res[1], tr)
            with os.fdopen(w, "wb") as f:
                pickle.dump(res, f)
        except BaseException:
            code = 3
        finally:
            os._exit(code)
    os.close(w)
    with os.fdopen(r, "rb") as f:
        data = f.read()
    _, status = os.waitpid(pid, 0)
    if os.WIFEXITED(status) and os.WEXITSTATUS(status) == 17:
        return ("killed", None, None)
    if not data:
        return ("exc", "child died with status %s" % status, None)
    return pickle.loads(data)


def evaluate(wsdir, modname, extmod, internal, data, cache, entry_fun="f0", top_path=None):
    def fn():
        import importlib
        import linecache
        sys.path.insert(0, wsdir)
        sys.path.insert(0, os.path.join(os.path.dirname(os.path.abspath(__file__)), "rtlib"))
        for m in (modname, extmod):
            sys.modules.pop(m, None)
        linecache.clearcache()
        importlib.invalidate_caches()
        import dds
        dds.accept_module(modname)
        mod = importlib.import_module(modname)
        dds.set_store("local", internal_dir=internal, data_dir=data, cache_objects=cache)
        if top_path:
            return dds.keep(top_path, getattr(mod, entry_fun))
        return dds.eval(getattr(mod, entry_fun))
    return fn


def recover(wsdir, modname, extmod, internal, data, paths, entry_fun="f0", top_path=None):
    def fn():
        import importlib
        import linecache
        sys.path.insert(0, wsdir)
        sys.path.insert(0, os.path.join(os.path.dirname(os.path.abspath(__file__)), "rtlib"))
        for m in (modname, extmod):
            sys.modules.pop(m, None)
        linecache.clearcache()
        importlib.invalidate_caches()
        import dds
        dds.accept_module(modname)
        mod = importlib.import_module(modname)
        dds.set_store("local", internal_dir=internal, data_dir=data)
        loads = {}
        for p in paths:
            try:
                loads[p] = ("ok", dds.load(p))
            except BaseException as e:
                loads[p] = ("exc", "%s: %s" % (type(e).__name__, str(e)[:120]))
        try:
            v = ("ok", dds.keep(top_path, getattr(mod, entry_fun)) if top_path else dds.eval(getattr(mod, entry_fun)))
        except BaseException as e:
            v = ("exc", "%s: %s" % (type(e).__name__, str(e)[:160]))
        loads2 = {}
        for p in paths:
            try:
                loads2[p] = ("ok", dds.load(p))
            except BaseException as e:
                loads2[p] = ("exc", "%s: %s" % (type(e).__name__, str(e)[:120]))
        return {"loads": loads, "value": v, "loads_after": loads2}
    return fn


def write_world(wsdir, modname, extmod, world):
    with open(os.path.join(wsdir, modname + ".py"), "w") as f:
        f.write(progs.render_world(world, extmod))
    with open(os.path.join(wsdir, extmod + ".py"), "w") as f:
        f.write(progs.render_ext(world))


def plain_values(world):
    """values of plain execution: the root's and every kept path's (reference subprocess, dds-free)"""
    ref = pipeline.ref_worker()
    d = tempfile.mkdtemp(prefix="ddsverif_c06ref_")
    try:
        write_world(d, "c6ref", "c6refext", world)
        ref.call(cmd="refpaths", paths={})
        ref.call(cmd="world", dir=d, module="c6ref", extmod="c6refext")
        rr = ref.call(cmd="run", entry={"kind": "eval", "fun": "f0"})
        return rr["value"], rr["refpaths"]
    finally:
        shutil.rmtree(d, ignore_errors=True)


# the temporary names of the store: <name>.<pid>.<32 hex digits>.tmp (a kept path may itself be called x.tmp)
TEMPORARY = re.compile(r"\.\d+\.[0-9a-f]{32}\.tmp$")


def observe(d):
    """the published part of the store directories: keys with a blob file, keys with metadata, links"""
    blobs, metas, links = set(), set(), {}
    bd = os.path.join(d, "internal", "blobs")
    if os.path.isdir(bd):
        for f in os.listdir(bd):
            if TEMPORARY.search(f):
                continue
            if f.endswith(".meta"):
                metas.add(f[:-5])
            else:
                blobs.add(f)
    dd = os.path.join(d, "data")
    for r, dirs, files in os.walk(dd):
        for f in files + dirs:
            p = os.path.join(r, f)
            if os.path.islink(p) and not TEMPORARY.search(f):
                links["/".join(os.path.relpath(p, dd).split(os.sep))] = os.path.basename(os.readlink(p))
    return {"blobs": sorted(blobs), "metas": sorted(metas), "links": sorted(links.items())}


def requests_of(trace):
    """the store / sync requests of a run, in order, reconstructed from its operation trace"""
    reqs, seen = [], set()
    pending_link = {}
    for t in trace:
        if t[0] == "open" and t[1].endswith(".tmp") and "/blobs/" in t[1] and "w" in t[2]:
            key = os.path.basename(t[1]).split(".")[0]
            if ".meta." not in os.path.basename(t[1]) and ("store", key, len(reqs)) not in seen:
                reqs.append(["store", key])
        if t[0] == "symlink":
            pending_link[t[2]] = os.path.basename(t[1])
        if t[0] == "replace" and t[1] in pending_link:
            loc = t[2].split("/data/", 1)[1].split("/")
            reqs.append(["sync", loc, pending_link[t[1]]])
    return reqs


def scenarios(rng, thorough):
    out = []
    n = 15 if thorough else 5
    for i in range(n):
        w = progs.gen_chain_world(rng) if i % 5 == 2 else progs.gen_world(rng, nfun=rng.randint(2, 4), allow=("call", "keep", "datafn"))
        for f in w["funs"]:
            f["uses_ext"] = False
        if i % 2 == 0:
            # path names with dots in their last segment (file-like names: report.final, table.v1.csv)
            suffix = [".final", ".v1.csv", ".tmp", ".0"]
            ren = {}

            def dotted(pth):
                if pth not in ren:
                    ren[pth] = pth + suffix[len(ren) % len(suffix)]
                return ren[pth]
            for f in w["funs"]:
                if f.get("store_path"):
                    f["store_path"] = dotted(f["store_path"])
                for it in f["items"]:
                    if it["k"] in ("keep", "load"):
                        it["path"] = dotted(it["path"])
        # rekeep_top: the evaluated function is itself kept (dds.keep at top level) and keeps other paths inside
        # first_nested: store creation with the data directory inside the internal directory
        kind = ["first", "rekeep", "first_cached", "rekeep_top", "first_nested"][i % 5]
        out.append((kind, w))
    return out


def run(ctx):
    res = common.Result()
    rng = ctx["rng"]
    thorough = ctx["tier"] == "thorough"
    common.import_dds()
    import copy
    for si, (kind, w) in enumerate(scenarios(rng, thorough)):
        tmp = tempfile.mkdtemp(prefix="ddsverif_c06_")
        try:
            ws = os.path.join(tmp, "ws")
            os.makedirs(ws)
            modname, extmod = "c6w_%d_%d" % (os.getpid(), si), "c6e_%d_%d" % (os.getpid(), si)
            cache = 3 if kind == "first_cached" else None
            w_new = w
            old_paths = {}
            top = "/top6/result" if kind == "rekeep_top" else None
            dsub = "/internal/data" if kind == "first_nested" else "/data"
            if kind in ("rekeep", "rekeep_top"):
                w_new = copy.deepcopy(w)
                kept = [fn for (_, fn) in progs.kept_paths(w)]
                for f in w_new["funs"]:
                    if f["name"] == kept[-1]:
                        f["tag"] = progs.bump_tag(f["tag"])
                old_value, old_paths = plain_values(w)
                if top:
                    old_paths = dict(old_paths, **{top: old_value})
            new_value, new_paths = plain_values(w_new)
            if top:
                new_paths = dict(new_paths, **{top: new_value})
            # template state: for 'rekeep' the store already holds the evaluation of the old code
            template = os.path.join(tmp, "template")
            os.makedirs(template)
            if kind in ("rekeep", "rekeep_top"):
                write_world(ws, modname, extmod, w)
                st = in_child(evaluate(ws, modname, extmod, template + "/internal", template + dsub, None, top_path=top))
                if st[0] != "ok":
                    raise common.Infra("setup evaluation failed: %s" % (st,))
            write_world(ws, modname, extmod, w_new)
            # count the operations of the uncrashed request
            run0 = os.path.join(tmp, "run0")
            shutil.copytree(template, run0, symlinks=True)
            full = in_child(evaluate(ws, modname, extmod, run0 + "/internal", run0 + dsub, cache, top_path=top), kill_at=None, base=run0)
            if full[0] != "ok":
                res.violations.append({"what": "evaluation fails even without a crash: %s" % (full[1],),
                                       "input": {"scenario": kind, "source": progs.render_world(w_new, "extmod")}, "kf": None})
                continue
            nops = len(full[2])
            res.count("ops_" + kind, nops)
            init_state = observe(template)
            reqs = requests_of(full[2])
            observed = []
            if si == 0:
                res.sample({"scenario": kind, "operations": [" ".join(t) for t in full[2]][:40], "source": progs.render_world(w_new, "extmod")})
            for k in range(nops + 1):
                d = os.path.join(tmp, "k%d" % k)
                shutil.copytree(template, d, symlinks=True)
                # links in the template point into the template: re-point them into this copy
                _repoint(d, template)
                st = in_child(evaluate(ws, modname, extmod, d + "/internal", d + dsub, cache, top_path=top), kill_at=k, base=d)
                observed.append(observe(d))
                rec = in_child(recover(ws, modname, extmod, d + "/internal", d + dsub, sorted(set(old_paths) | set(new_paths)), top_path=top))
                res.evaluations += 1
                res.nontrivial("%d %s k%d %s" % (si, kind, k, full[2][k][0] if k < nops else "end"))
                case = {"scenario": kind, "crash_before_operation": k, "operation": " ".join(full[2][k]) if k < nops else "(after the last one)",
                        "of": nops, "source": progs.render_world(w_new, "extmod")}
                bad = None
                if rec[0] != "ok":
                    bad = "the recovery process died: %s" % (rec[1],)
                else:
                    r = rec[1]
                    for p, (tag, v) in r["loads"].items():
                        if tag != "ok" and p not in old_paths:
                            continue          # never committed before the crash: may not resolve yet
                        if tag != "ok" or v not in (old_paths.get(p), new_paths.get(p)):
                            bad = "after the crash path %s (committed before) loads %r; old value %r, new value %r" % (p, v, old_paths.get(p), new_paths.get(p))
                    if bad is None and r["value"] != ("ok", new_value):
                        bad = "after the crash the evaluation returns %r, plain execution gives %r" % (r["value"], new_value)
                    if bad is None:
                        for p, want in new_paths.items():
                            pass
                        for p, (tag, v) in r["loads_after"].items():
                            if tag != "ok" or v != new_paths.get(p, old_paths.get(p)):
                                bad = "after recovery path %s loads %r instead of %r" % (p, v, new_paths.get(p))
                if bad:
                    res.violations.append({"what": bad, "input": case, "kf": None})
                shutil.rmtree(d, ignore_errors=True)
            # correspondence: the states found after the crash points are exactly the prefix states of the model's
            # program for these requests, in order
            if ctx["driver_ok"] and kind != "first_nested":
                nsteps = sum(7 if r[0] == "store" else 3 for r in reqs)
                ans = common.drv_batch([{"op": "schedule", "init": {"blobs": init_state["blobs"], "links": [[l.split("/"), k] for (l, k) in init_state["links"]]},
                                         "procs": [reqs], "schedule": [0] * nsteps}])[0]
                mstates = []
                for o in ans.get("ok", []):
                    mstates.append({"blobs": sorted(o["blobs"]), "metas": sorted(o["metas"]), "links": sorted(("/".join(l), k) for (l, k) in o["links"])})
                pos = 0
                for k, ob in enumerate(observed):
                    ob = {"blobs": ob["blobs"], "metas": ob["metas"], "links": sorted(ob["links"])}
                    while pos < len(mstates) and mstates[pos] != ob:
                        pos += 1
                    if pos >= len(mstates):
                        res.disagreements.append({"what": "the disk state after crash point %d is not a prefix state of the model's program (in order)" % k,
                                                  "scenario": kind, "observed": ob, "requests": reqs})
                        break
                res.traces_validated += len(observed)
        finally:
            shutil.rmtree(tmp, ignore_errors=True)
    # a result written with a user codec by one process; a process that does not know the codec evaluates the same pipeline and is
    # killed before each of its operations in turn (it may fail by itself: the blob cannot be read); a process that knows the codec
    # evaluates again: it gets the report - whatever the second process did or left half done
    tmp = tempfile.mkdtemp(prefix="ddsverif_c06u_")
    try:
        ws = os.path.join(tmp, "ws")
        os.makedirs(ws)
        um = "c6u_%d" % os.getpid()
        with open(os.path.join(ws, um + ".py"), "w") as fh:
            fh.write("import dds\n\nclass Report(object):\n    def __init__(self, text):\n        self.text = text\n\n    def __eq__(self, o):\n        return type(o) is type(self) and o.text == self.text\n\n"
                     "def build():\n    return Report('report of the quarter')\n\ndef f0():\n    return dds.keep('/c/report', build).text\n")
        with open(os.path.join(ws, um + "_codec.py"), "w") as fh:
            fh.write("from dds.codec import codec_registry\nfrom dds.structures import FileCodecProtocol, ProtocolRef\nfrom dds.structures_utils import SupportedTypeUtils as STU\n"
                     "from %s import Report\n\nclass ReportCodec(FileCodecProtocol):\n    def ref(self):\n        return ProtocolRef('user.report')\n\n"
                     "    def handled_types(self):\n        return [STU.from_type(Report)]\n\n"
                     "    def serialize_into(self, blob, loc):\n        with open(str(loc), 'wb') as f:\n            f.write(('REPORT:' + blob.text).encode('utf-8'))\n\n"
                     "    def deserialize_from(self, loc):\n        with open(str(loc), 'rb') as f:\n            t = f.read().decode('utf-8')\n        assert t.startswith('REPORT:'), t[:40]\n        return Report(t[7:])\n\n"
                     "codec_registry().add_file_codec(ReportCodec())\n" % um)

        def uworker(d, with_codec):
            def fn():
                import importlib
                sys.path.insert(0, ws)
                for m_ in (um, um + "_codec"):
                    sys.modules.pop(m_, None)
                import dds
                import dds.codec as codec_mod
                codec_mod._registry = None
                dds.accept_module(um)
                mod = importlib.import_module(um)
                if with_codec:
                    importlib.import_module(um + "_codec")
                dds.set_store("local", internal_dir=d + "/internal", data_dir=d + "/data")
                return dds.eval(mod.f0)
            return fn
        seedd = os.path.join(tmp, "seed")
        os.makedirs(seedd)
        first = in_child(uworker(seedd, True))
        if first[0] != "ok" or first[1] != "report of the quarter":
            res.violations.append({"what": "a result with a user codec cannot be kept: %r" % (first,), "input": {"scenario": "user codec, process 1"}, "kf": None})
        else:
            k = 0
            while k < 200:
                d = os.path.join(tmp, "k%d" % k)
                shutil.copytree(seedd, d, symlinks=True)
                second = in_child(uworker(d, False), kill_at=k, base=d)
                third = in_child(uworker(d, True))
                res.evaluations += 2
                res.count("scenario_unknown_codec_then_killed")
                res.nontrivial("unknown codec killed at %d" % k)
                shutil.rmtree(d, ignore_errors=True)
                if third[0] != "ok" or third[1] != "report of the quarter":
                    res.violations.append({"what": "a process that does not know the codec of a stored result evaluates the pipeline and is killed before its operation %d "
                                                   "(outcome: %s); a process that knows the codec then gets %r instead of the report" % (k, second[0], third[1] if third[0] == "ok" else third),
                                           "input": {"scenario": "unknown codec, killed", "kill_at": k}, "kf": None})
                    break
                if second[0] != "killed":
                    break         # the second process ran to its end (or failed by itself) before the kill point: all points were tried
                k += 1
    finally:
        shutil.rmtree(tmp, ignore_errors=True)
    pipeline.close_ref()
    res.exhaustive = True
    res.rule = ("scenarios {store creation + first keep, re-keep with changed code on a populated store, first keep through the cache wrapper; "
                "nested keeps in every third} x EVERY crash point of the request's file-system operations (each write split in two halves); "
                "one case = (scenario, crash point)")
    # keep the earliest crash point of each kind
    uniq = {}
    for v in res.violations:
        uniq.setdefault(v["what"][:50] + v["input"].get("scenario", ""), v)
    res.violations = list(uniq.values())[:6]
    return res


def _repoint(d, template):
    for r, dirs, files in os.walk(os.path.join(d, "data")):
        for f in files + dirs:
            p = os.path.join(r, f)
            if os.path.islink(p):
                t = os.readlink(p)
                if t.startswith(template):
                    os.remove(p)
                    os.symlink(d + t[len(template):], p)
