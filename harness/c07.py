"""C07 - processes sharing a local store never observe partial or foreign results.

Real processes (forked children importing /repo) run under a deterministic scheduler: the file-system
operations of each child on the store directories are interposed from outside (harness/fsinterpose.py)
and block until the parent grants the step, so every interleaving at operation granularity - torn writes
included - can be produced on the real code. Schedules: every single preemption point of every process
pair plus sampled double preemptions (quick) / all double preemptions on the small scenarios (thorough).
At every scheduling boundary the parent inspects the shared directories.
Correspondence: the published state at the end (and the set of readable keys / resolvable paths at each
boundary) agrees with the Lean transition system run on the same requests (driver op `schedule`).
Property oracle (implementation only): every keep / load that returns, returns the complete correct value;
no process fails because of another one; at every boundary every published blob with metadata decodes
to a correct value and every link resolves to one; afterwards a fresh process gets correct values.
"""
import json
import os
import pickle
import shutil
import sys
import tempfile

from . import common, progs, pipeline
from .c06 import write_world, plain_values, observe, evaluate, in_child, recover

DESIGN_REF = "DESIGN.md §5 C07"
ASSUMPTIONS = ["interleavings are at the granularity of the interposed file-system operations (each atomic; a write is two halves); "
               "what the kernel does inside one operation is trusted"]


class Child(object):
    def __init__(self, fn, base):
        self.req_r, req_w = os.pipe()
        grant_r, self.grant_w = os.pipe()
        self.res_r, res_w = os.pipe()
        self.pid = os.fork()
        if self.pid == 0:
            code = 0
            try:
                os.close(self.req_r)
                os.close(self.grant_w)
                os.close(self.res_r)
                from . import fsinterpose
                fsinterpose.install(base)
                fsinterpose.enable(sched=(grant_r, req_w))
                try:
                    out = ("ok", fn())
                except BaseException as e:
                    out = ("exc", "%s: %s" % (type(e).__name__, str(e)[:200]))
                fsinterpose.disable()
                os.write(req_w, b"DONE\n")
                with os.fdopen(res_w, "wb") as f:
                    pickle.dump(out, f)
            except BaseException:
                code = 3
            finally:
                os._exit(code)
        os.close(req_w)
        os.close(grant_r)
        os.close(res_w)
        self.done = False
        self.result = None
        self.buf = b""
        self.pending = None
        self.pending_detail = ""
        self.steps = 0
        self.trace = []          # the operations granted so far ("<n> <operation>")

    def wait_request(self):
        """block until the child asks for its next operation (or finishes)"""
        if self.done or self.pending is not None:
            return
        while b"\n" not in self.buf:
            chunk = os.read(self.req_r, 4096)
            if not chunk:
                self.done = True
                self._collect()
                return
            self.buf += chunk
        line, self.buf = self.buf.split(b"\n", 1)
        if line == b"DONE":
            self.done = True
            self._collect()
        else:
            parts_ = line.decode().split(" ", 2)
            self.pending = " ".join(parts_[:2])                       # "<n> <operation>"
            self.pending_detail = parts_[2] if len(parts_) > 2 else ""   # what it is applied to

    def grant(self):
        self.wait_request()
        if self.done:
            return False
        os.write(self.grant_w, b"G")
        self.trace.append(self.pending.split(" ", 1)[-1] if self.pending else "?")
        self.pending = None
        self.steps += 1
        return True

    def _collect(self):
        try:
            with os.fdopen(self.res_r, "rb") as f:
                data = f.read()
            self.result = pickle.loads(data) if data else ("exc", "child died")
        except BaseException as e:
            self.result = ("exc", "no result: %s" % e)
        try:
            os.waitpid(self.pid, 0)
        except ChildProcessError:
            pass
        for fd in (self.req_r, self.grant_w):
            try:
                os.close(fd)
            except OSError:
                pass


def loader(internal, data, paths, times=3):
    def fn():
        import dds
        dds.set_store("local", internal_dir=internal, data_dir=data)
        out = []
        for _ in range(times):
            for p in paths:
                out.append((p, dds.load(p)))
        return out
    return fn


def run_schedule(fns, base, segments, check_boundary):
    """segments: list of (process index, number of operations); then everybody runs to completion round-robin"""
    kids = [Child(fn, base) for fn in fns]
    problems = []
    for (i, n) in segments:
        for _ in range(n):
            if not kids[i].grant():
                break
        for k in kids:
            k.wait_request()
        pb = check_boundary()
        if pb:
            problems.append(pb)
    alive = True
    while alive:
        alive = False
        for k in kids:
            if k.grant():
                alive = True
    pb = check_boundary()
    if pb:
        problems.append(pb)
    run_schedule.last_traces = [k.trace for k in kids]
    return [k.result for k in kids], [k.steps for k in kids], problems


def advance_until(kid, opnames, nth=1, contains=None):
    """grant operations until the process is about to perform the nth operation whose name is in opnames (and whose description holds
    `contains`, if given) - or finishes"""
    seen = 0
    while True:
        kid.wait_request()
        if kid.done:
            return False
        opn = kid.pending.split(" ", 1)[-1] if kid.pending else None
        if opn in opnames and (contains is None or contains in (kid.pending_detail or "")):
            seen += 1
            if seen >= nth:
                return True
        if not kid.grant():
            return False


def run(ctx):
    res = common.Result()
    rng = ctx["rng"]
    thorough = ctx["tier"] == "thorough"
    common.import_dds()
    import copy
    scen = []
    nsc = 6 if thorough else 3
    for i in range(nsc):
        w = progs.gen_world(rng, nfun=rng.randint(2, 3), allow=("call", "keep", "datafn"))
        for f in w["funs"]:
            f["uses_ext"] = False
        if i % 3 == 0:
            # the cold-store scenario commits into directories that do not exist yet: nested paths sharing their parents
            n = [0]
            for f in w["funs"]:
                if f.get("store_path"):
                    f["store_path"] = "/nest/deep" + f["store_path"]
                for it in f["items"]:
                    if it["k"] == "load" and it["path"].startswith("/df"):
                        it["path"] = "/nest/deep" + it["path"]
                    if it["k"] == "keep":
                        n[0] += 1
                        it["path"] = "/nest/deep/p%d" % n[0] if n[0] % 2 else "/nest/q%d" % n[0]
        scen.append((["same_keep_cold", "keep_vs_load", "two_views"][i % 3], w))
    for si, (kind, w) in enumerate(scen):
        tmp = tempfile.mkdtemp(prefix="ddsverif_c07_")
        try:
            ws = os.path.join(tmp, "ws")
            os.makedirs(ws)
            modname, extmod = "c7w_%d_%d" % (os.getpid(), si), "c7e_%d_%d" % (os.getpid(), si)
            modname2 = modname + "b"
            new_value, new_paths = plain_values(w)
            w_old = None
            old_paths = {}
            template = os.path.join(tmp, "template")
            os.makedirs(template)
            write_world(ws, modname, extmod, w)
            if kind == "keep_vs_load":
                w_old = copy.deepcopy(w)
                kept = [fn for (_, fn) in progs.kept_paths(w)]
                for f in w_old["funs"]:
                    if f["name"] == kept[-1]:
                        f["tag"] = f["tag"] + "old"
                _, old_paths = plain_values(w_old)
                write_world(ws, modname2, extmod, w_old)
                st = in_child(evaluate(ws, modname2, extmod, template + "/internal", template + "/data", None))
                if st[0] != "ok":
                    raise common.Infra("setup failed: %s" % (st,))
            good_values = set(new_paths.values()) | set(old_paths.values()) | {new_value}

            def mk_fns(d):
                if kind == "same_keep_cold":
                    return [evaluate(ws, modname, extmod, d + "/internal", d + "/data", None),
                            evaluate(ws, modname, extmod, d + "/internal", d + "/data", 2)]
                if kind == "keep_vs_load":
                    return [evaluate(ws, modname, extmod, d + "/internal", d + "/data", None),
                            loader(d + "/internal", d + "/data", sorted(old_paths))]
                return [evaluate(ws, modname, extmod, d + "/internal", d + "/data", None),
                        evaluate(ws, modname, extmod, d + "/internal", d + "/data2", None)]

            def boundary_check(d):
                def chk():
                    bd = os.path.join(d, "internal", "blobs")
                    if not os.path.isdir(bd):
                        return None
                    names = set(os.listdir(bd))
                    for f in names:
                        if f.endswith(".meta") and not f.endswith(".tmp"):
                            key = f[:-5]
                            try:
                                meta = json.load(open(os.path.join(bd, f)))
                                txt = open(os.path.join(bd, key), "rb").read().decode("utf-8")
                            except BaseException as e:
                                return "published metadata %s without a complete readable blob: %s" % (f, e)
                            if meta.get("protocol") == "local.string" and txt not in good_values:
                                return "published blob %s holds %r, which is not the result of any kept function" % (key, txt[:60])
                    for dd in ("data", "data2"):
                        root = os.path.join(d, dd)
                        for r, dirs, files in os.walk(root):
                            for f in files + dirs:
                                p = os.path.join(r, f)
                                if os.path.islink(p) and not f.endswith(".tmp"):
                                    k = os.path.basename(os.readlink(p))
                                    if k + ".meta" not in set(os.listdir(bd)) or k not in set(os.listdir(bd)):
                                        return "link %s points to key %s whose blob is not complete" % (os.path.relpath(p, d), k)
                    return None
                return chk
            # length of each process alone
            d0 = os.path.join(tmp, "d0")
            shutil.copytree(template, d0, symlinks=True)
            from .c06 import _repoint
            _repoint(d0, template)
            results, steps, problems = run_schedule(mk_fns(d0), d0, [], boundary_check(d0))
            n0, n1 = steps
            traces = run_schedule.last_traces
            shutil.rmtree(d0, ignore_errors=True)
            schedules = []
            # directed: a process is stopped right before it creates a directory (check-then-create windows), the other one
            # runs to completion in between
            for pi in (0, 1):
                for a, opname in enumerate(traces[pi]):
                    if opname in ("mkdir", "makedirs"):
                        schedules.append([(pi, a), (1 - pi, 10 ** 6)])
            res.count("schedules_before_directory_creation", len(schedules))
            for a in range(0, n0 + 1, 1 if thorough else max(1, n0 // 12)):
                schedules.append([(0, a), (1, 10 ** 6)])
            for b in range(0, n1 + 1, 1 if thorough else max(1, n1 // 12)):
                schedules.append([(1, b), (0, 10 ** 6)])
            for _ in range(40 if thorough else 8):
                a, b = rng.randint(0, n0), rng.randint(0, n1)
                c = rng.randint(0, n0)
                schedules.append([(0, a), (1, b), (0, c), (1, 10 ** 6)] if rng.random() < 0.5 else [(1, b), (0, a), (1, rng.randint(0, n1)), (0, 10 ** 6)])
            for sc in schedules:
                d = os.path.join(tmp, "run")
                shutil.copytree(template, d, symlinks=True)
                _repoint(d, template)
                results, steps, problems = run_schedule(mk_fns(d), d, sc, boundary_check(d))
                res.evaluations += 1
                res.count("scenario_" + kind)
                res.nontrivial("%d %s %s" % (si, kind, sc))
                case = {"scenario": kind, "schedule": sc, "operations": [n0, n1], "source": progs.render_world(w, "extmod")}
                bad = None
                if problems:
                    bad = problems[0]
                for pi, r in enumerate(results):
                    if bad:
                        break
                    if r[0] != "ok":
                        bad = "process %d failed: %s" % (pi, r[1])
                    elif kind == "keep_vs_load" and pi == 1:
                        for (p, v) in r[1]:
                            if v not in (old_paths.get(p), new_paths.get(p)):
                                bad = "a concurrent load of %s returned %r (old %r, new %r)" % (p, v, old_paths.get(p), new_paths.get(p))
                    elif r[1] != new_value:
                        bad = "process %d returned %r, plain execution gives %r" % (pi, r[1], new_value)
                if bad is None:
                    rec = in_child(recover(ws, modname, extmod, d + "/internal", d + "/data", sorted(new_paths)))
                    if rec[0] != "ok" or rec[1]["value"] != ("ok", new_value) or any(v != ("ok", new_paths[p]) for p, v in rec[1]["loads_after"].items()):
                        bad = "after all processes finished a fresh process does not get the correct values: %s" % (str(rec)[:200],)
                if bad:
                    res.violations.append({"what": bad, "input": case, "kf": None})
                if ctx["driver_ok"] and not bad and kind != "two_views":
                    # the model on the same requests: when everybody has finished, every stored key is readable and
                    # the paths resolve as observed
                    ob = observe(d)
                    reqs = [["store", k] for k in ob["blobs"]] + [["sync", l.split("/"), k] for (l, k) in ob["links"]]
                    ans = common.drv_batch([{"op": "schedule", "init": {"blobs": [], "links": []}, "procs": [reqs, reqs],
                                             "schedule": [rng.randint(0, 1) for _ in range(20 * len(reqs))] + [0] * (8 * len(reqs)) + [1] * (8 * len(reqs))}])[0]
                    fin = ans["ok"][-1]
                    if sorted(fin["blobs"]) != ob["blobs"] or sorted(fin["metas"]) != ob["metas"] or \
                            sorted(("/".join(l), k) for (l, k) in fin["links"]) != sorted(ob["links"]) or not all(ans["done"]):
                        res.disagreements.append({"what": "final published state differs from the model", "observed": ob, "model": fin})
                    res.traces_validated += 1
                shutil.rmtree(d, ignore_errors=True)
            if kind == "same_keep_cold":
                # three parties: the late keeper (process 1) is stopped after it has found the store cold, the early keeper
                # (process 0) evaluates and returns - from then on everything it committed is there for everybody - and the late
                # keeper is then stepped one operation at a time; after each of its operations that changes the directories, an
                # observer process loads every path and another one evaluates the same function on the (now warm) store
                MUT = ("remove", "unlink", "replace", "rename", "symlink", "write1", "write2", "close", "open", "mkdir", "makedirs")
                # stopping points: right before the late keeper starts writing a file, and right before each of its operations that
                # removes, moves or links one (it has then already decided - on the cold store - to evaluate and to write)
                t1 = traces[1]
                first = [a for a, opn in enumerate(t1) if opn == "open" and a + 1 < len(t1) and t1[a + 1] == "write1"]
                cand = first + [a for a, opn in enumerate(t1) if opn in ("replace", "remove", "unlink", "rename", "symlink")]
                if not thorough and len(cand) > 8:
                    cand = first[:4] + rng.sample(cand[len(first[:4]):], 4) if len(first) >= 4 else first + rng.sample(cand[len(first):], 8 - len(first))
                for a in sorted(set(cand)):
                    d = os.path.join(tmp, "run3")
                    shutil.copytree(template, d, symlinks=True)
                    _repoint(d, template)
                    kids = [Child(fn, d) for fn in mk_fns(d)]
                    for _ in range(a):
                        if not kids[1].grant():
                            break
                    while kids[0].grant():
                        pass
                    bad = None
                    nobs = 0
                    if kids[0].result is None or kids[0].result[0] != "ok" or kids[0].result[1] != new_value:
                        bad = "the early keeper returned %r, plain execution gives %r" % (kids[0].result, new_value)
                    stepno = a
                    while bad is None:
                        kids[1].wait_request()
                        opn = kids[1].pending.split(" ", 1)[-1] if kids[1].pending else None
                        last = kids[1].trace[-1] if kids[1].trace else None
                        if stepno == a or last in MUT:
                            nobs += 1
                            ob1 = in_child(loader(d + "/internal", d + "/data", sorted(new_paths), times=1))
                            if ob1[0] != "ok":
                                bad = "after the early keeper returned, a load fails while the late keeper is at operation %d (%s next): %s" % (stepno, opn, ob1[1])
                            else:
                                for (p_, v_) in ob1[1]:
                                    if v_ != new_paths[p_]:
                                        bad = "after the early keeper returned, load(%s) gives %r instead of %r while the late keeper is at operation %d (after %s)" % (
                                            p_, v_, new_paths[p_], stepno, last)
                                        break
                            if bad is None and (thorough or nobs % 3 == 1):
                                ob2 = in_child(evaluate(ws, modname, extmod, d + "/internal", d + "/data", None))
                                if ob2[0] != "ok" or ob2[1] != new_value:
                                    bad = "after the early keeper returned, a third process evaluating the same function gets %r instead of %r while the late keeper is at operation %d (after %s)" % (
                                        ob2[1], new_value, stepno, last)
                        if not kids[1].grant():
                            break
                        stepno += 1
                    while kids[1].grant():
                        pass
                    if bad is None and (kids[1].result is None or kids[1].result[0] != "ok" or kids[1].result[1] != new_value):
                        bad = "the late keeper returned %r, plain execution gives %r" % (kids[1].result, new_value)
                    res.evaluations += 1 + nobs
                    res.count("scenario_late_keeper_with_observers")
                    res.count("observations_during_late_keeper", nobs)
                    res.nontrivial("%d late keeper %d" % (si, a))
                    if bad:
                        res.violations.append({"what": bad, "input": {"scenario": "early keeper, late keeper stopped after %d operations, observers" % a,
                                                                        "late_keeper_operations": traces[1], "source": progs.render_world(w, "extmod")}, "kf": None})
                    shutil.rmtree(d, ignore_errors=True)
            if si == 0:
                res.sample({"scenario": kind, "operations_per_process": [n0, n1], "schedules": schedules[:4]})
        finally:
            shutil.rmtree(tmp, ignore_errors=True)
    # keepers whose results for one key differ in length (a result that depends on the worker: a time stamp, a host name): the
    # early keeper returns, the late one - it found the store cold - is stepped one operation at a time; every load in between
    # returns the complete result of one of the two, never something else
    tmp = tempfile.mkdtemp(prefix="ddsverif_c07v_")
    try:
        ws = os.path.join(tmp, "ws")
        os.makedirs(ws)
        vm = "c7v_%d" % os.getpid()
        with open(os.path.join(ws, vm + ".py"), "w") as fh:
            fh.write("import dds\nimport os\n\ndef g():\n    return 'v' * (3 + 5 * int(os.environ.get('DDSVERIF_WORKER', '0')))\n\n"
                     "def f0():\n    return dds.keep('/w/p', g)\n")
        good = {"v" * 3, "v" * 8}

        def worker(i, d):
            inner = evaluate(ws, vm, vm + "_none", d + "/internal", d + "/data", None)

            def fn():
                os.environ["DDSVERIF_WORKER"] = str(i)
                return inner()
            return fn
        d0 = os.path.join(tmp, "d0")
        os.makedirs(d0)
        results, steps, problems = run_schedule([worker(0, d0), worker(1, d0)], d0, [], lambda: None)
        t1 = run_schedule.last_traces[1]
        shutil.rmtree(d0, ignore_errors=True)
        for a in (1, 2):
            d = os.path.join(tmp, "run")
            os.makedirs(d)
            kids = [Child(worker(0, d), d), Child(worker(1, d), d)]
            # the late keeper is stopped right before its first / its second opening of a file (the blob it is about to write)
            advance_until(kids[1], ("open",), nth=a)
            while kids[0].grant():
                pass
            bad = None
            nobs = 0
            if kids[0].result is None or kids[0].result[0] != "ok" or kids[0].result[1] not in good:
                bad = "the early keeper returned %r" % (kids[0].result,)
            while bad is None:
                kids[1].wait_request()
                nobs += 1
                ob1 = in_child(loader(d + "/internal", d + "/data", ["/w/p"], times=1))
                if ob1[0] != "ok" or any(v_ not in good for (_, v_) in ob1[1]):
                    bad = "after the early keeper returned, load('/w/p') gives %r while the late keeper (whose result has another length) is at operation %d (after %s)" % (
                        ob1[1], len(kids[1].trace), kids[1].trace[-1] if kids[1].trace else None)
                if not kids[1].grant():
                    break
            while kids[1].grant():
                pass
            res.evaluations += 1 + nobs
            res.count("scenario_keepers_with_results_of_different_length")
            res.nontrivial("different length %d" % a)
            if bad:
                res.violations.append({"what": bad, "input": {"scenario": "two keepers whose results differ in length, late keeper stopped after %d operations" % a,
                                                                "late_keeper_operations": t1}, "kf": None})
            shutil.rmtree(d, ignore_errors=True)
    finally:
        shutil.rmtree(tmp, ignore_errors=True)
    # a result type written by a user codec of the generic kind (it is handed a location and writes the file itself, in two
    # chunks): early keeper, late keeper stepped operation by operation, a reader in between - the reader always gets the complete value
    tmp = tempfile.mkdtemp(prefix="ddsverif_c07g_")
    try:
        ws = os.path.join(tmp, "ws")
        os.makedirs(ws)
        gm = "c7g_%d" % os.getpid()
        with open(os.path.join(ws, gm + ".py"), "w") as fh:
            fh.write("import dds\nfrom dds.codec import codec_registry\nfrom dds.structures import CodecProtocol, ProtocolRef\n"
                     "from dds.structures_utils import SupportedTypeUtils as STU\n\n"
                     "class Arr(object):\n    def __init__(self, n):\n        self.n = n\n\n"
                     "class ArrCodec(CodecProtocol):\n    def ref(self):\n        return ProtocolRef('user.arr')\n\n"
                     "    def handled_types(self):\n        return [STU.from_type(Arr)]\n\n"
                     "    def serialize_into(self, blob, loc):\n        with open(str(loc), 'wb') as f:\n            f.write(b'A' * blob.n)\n\n"
                     "    def deserialize_from(self, loc):\n        with open(str(loc), 'rb') as f:\n            return Arr(len(f.read()))\n\n"
                     "codec_registry().add_codec(ArrCodec())\n\n"
                     "def g():\n    return Arr(4000)\n\ndef f0():\n    return dds.keep('/w/arr', g).n\n")

        def gworker(d):
            return evaluate(ws, gm, gm + "_none", d + "/internal", d + "/data", None)

        def greader(d):
            def fn():
                import importlib
                sys.path.insert(0, ws)
                import dds
                importlib.import_module(gm)
                dds.set_store("local", internal_dir=d + "/internal", data_dir=d + "/data")
                return dds.load("/w/arr").n
            return fn
        d0 = os.path.join(tmp, "d0")
        os.makedirs(d0)
        results, steps, problems = run_schedule([gworker(d0), gworker(d0)], d0, [], lambda: None)
        t1 = run_schedule.last_traces[1]
        shutil.rmtree(d0, ignore_errors=True)
        if any(r is None or r[0] != "ok" or r[1] != 4000 for r in results):
            res.violations.append({"what": "two keepers of a value written by a user codec of the generic kind: results %s" % (results,),
                                   "input": {"scenario": "generic codec, round robin"}, "kf": None})
        # the late keeper is stopped right before its first / its second opening of a file (it has found the store cold and
        # computed its value: what it opens next is the blob it is about to write)
        for a in (1, 2):
            d = os.path.join(tmp, "run")
            os.makedirs(d)
            kids = [Child(gworker(d), d), Child(gworker(d), d)]
            advance_until(kids[1], ("open",), nth=a)
            while kids[0].grant():
                pass
            bad = None
            nobs = 0
            if kids[0].result is None or kids[0].result[0] != "ok" or kids[0].result[1] != 4000:
                bad = "the early keeper returned %r" % (kids[0].result,)
            while bad is None:
                kids[1].wait_request()
                nobs += 1
                ob1 = in_child(greader(d))
                if ob1[0] != "ok" or ob1[1] != 4000:
                    bad = "after the early keeper returned, a load of the value (4000 bytes, written by a user codec of the generic kind) gives %r while the late keeper is at operation %d (after %s)" % (
                        ob1[1], len(kids[1].trace), kids[1].trace[-1] if kids[1].trace else None)
                if not kids[1].grant():
                    break
            while kids[1].grant():
                pass
            res.evaluations += 1 + nobs
            res.count("scenario_generic_codec_late_keeper")
            res.nontrivial("generic codec %d" % a)
            if bad:
                res.violations.append({"what": bad, "input": {"scenario": "user codec of the generic kind, late keeper stopped after %d operations" % a,
                                                                "late_keeper_operations": t1}, "kf": None})
            shutil.rmtree(d, ignore_errors=True)
    finally:
        shutil.rmtree(tmp, ignore_errors=True)
    # a pipeline kept at a path that keeps a sub-result at another path. One keeper is stopped before each of its operations in turn
    # (so: also in the middle of committing its paths, the top path linked and the sub-path not yet); a second process then keeps the
    # same pipeline - at the top level, through dds.keep - to completion and loads both paths: it returns, and gets the values
    # of the current code. On a cold store, and on a store that served another version of the same paths before.
    tmp = tempfile.mkdtemp(prefix="ddsverif_c07n_")
    try:
        ws = os.path.join(tmp, "ws")
        os.makedirs(ws)
        nm = "c7n_%d" % os.getpid()
        with open(os.path.join(ws, nm + ".py"), "w") as fh:
            fh.write("import dds\nimport os\n\nV = os.environ.get('DDSVERIF_V', '1')\n\ndef prepare():\n    return 'prepared-' + V\n\n"
                     "def report():\n    return 'report(' + dds.keep('/w/prepared', prepare) + ')'\n")

        def nkeeper(d, version):
            def fn():
                import importlib
                os.environ["DDSVERIF_V"] = version
                sys.path.insert(0, ws)
                sys.modules.pop(nm, None)
                import dds
                dds.accept_module(nm)
                m = importlib.import_module(nm)
                dds.set_store("local", internal_dir=d + "/internal", data_dir=d + "/data")
                v = dds.keep("/w/report", m.report)
                return (v, dds.load("/w/prepared"), dds.load("/w/report"))
            return fn
        want1 = ("report(prepared-1)", "prepared-1", "report(prepared-1)")
        for variant in ("cold", "served_another_version_before"):
            d0 = os.path.join(tmp, "d0_" + variant)
            os.makedirs(d0)
            if variant != "cold":
                in_child(nkeeper(d0, "1"))
                in_child(nkeeper(d0, "2"))
            solo = Child(nkeeper(d0, "1"), d0)
            while solo.grant():
                pass
            nops = solo.steps
            shutil.rmtree(d0, ignore_errors=True)
            stops = list(range(0, nops + 1))
            if not thorough and len(stops) > 24:
                # (quick: every operation of the second half - where the paths are committed - and every third one before)
                stops = [k for k in stops if k >= nops // 2 or k % 3 == 0]
            for k in stops:
                d = os.path.join(tmp, "run_%s_%d" % (variant, k))
                os.makedirs(d)
                if variant != "cold":
                    in_child(nkeeper(d, "1"))
                    in_child(nkeeper(d, "2"))
                first = Child(nkeeper(d, "1"), d)
                for _ in range(k):
                    if not first.grant():
                        break
                first.wait_request()
                ob = in_child(nkeeper(d, "1"))
                while first.grant():
                    pass
                after = in_child(nkeeper(d, "1"))
                res.evaluations += 3
                res.count("scenario_nested_keeps_second_keeper")
                res.nontrivial("nested keeps %s stop %d" % (variant, k))
                bad = None
                if ob[0] != "ok" or tuple(ob[1]) != want1:
                    bad = ("while a keeper of the same pipeline is stopped after %d of its %d operations (last: %s), a second process that keeps it and loads "
                           "its paths gets %r, expected %r" % (k, nops, first.trace[k - 1] if 0 < k <= len(first.trace) else None, ob[1], want1))
                elif first.result is None or first.result[0] != "ok" or tuple(first.result[1]) != want1:
                    bad = "the keeper that was stopped after %d operations and resumed returned %r" % (k, first.result)
                elif after[0] != "ok" or tuple(after[1]) != want1:
                    bad = "once both keepers have finished a third process gets %r" % (after[1],)
                shutil.rmtree(d, ignore_errors=True)
                if bad:
                    res.violations.append({"what": bad, "input": {"scenario": "nested keeps, second keeper while the first is stopped", "store": variant, "stop_after": k,
                                                                    "first_keeper_operations": first.trace}, "kf": None})
                    break
    finally:
        shutil.rmtree(tmp, ignore_errors=True)
    # diagnostics switched on (the logger of the library at DEBUG level, as someone hunting a problem would have it): a process opens
    # the store and keeps the pipeline while a writer is about to publish a blob / its metadata. The opener is stopped whenever it is
    # about to ask about a file it has seen in a directory listing (a temporary file of the writer may be gone by then); nobody fails
    tmp = tempfile.mkdtemp(prefix="ddsverif_c07d_")
    try:
        ws = os.path.join(tmp, "ws")
        os.makedirs(ws)
        dm = "c7d_%d" % os.getpid()
        with open(os.path.join(ws, dm + ".py"), "w") as fh:
            fh.write("import dds\n\ndef g():\n    return 'value-of-g'\n\ndef f0():\n    return dds.keep('/w/d', g)\n")

        def dworker(d, debug):
            inner = evaluate(ws, dm, dm + "_none", d + "/internal", d + "/data", None)

            def fn():
                if debug:
                    import logging
                    logging.getLogger("dds").setLevel(logging.DEBUG)
                    logging.getLogger("dds").addHandler(logging.NullHandler())
                    logging.getLogger().setLevel(logging.DEBUG)
                return inner()
            return fn
        for nth in (1, 2, 3):
            d = os.path.join(tmp, "run%d" % nth)
            os.makedirs(d)
            writer, opener = Child(dworker(d, False), d), Child(dworker(d, True), d)
            # the writer is stopped right before it moves a temporary file in place (its blob, then its metadata, then the link)
            advance_until(writer, ("replace", "rename"), nth=nth)
            # the opener runs until it is about to ask about one of the writer's temporary files (or to the end)
            stopped = advance_until(opener, ("stat",), contains=".tmp")
            while writer.grant():
                pass
            while opener.grant():
                pass
            res.evaluations += 2
            res.count("scenario_debug_logging_opener")
            res.nontrivial("debug logging opener %d" % nth)
            bad = None
            for who, kid in (("the writer", writer), ("the process that opened the store with debug logging", opener)):
                if kid.result is None or kid.result[0] != "ok" or kid.result[1] != "value-of-g":
                    bad = "%s returned %r (the writer was stopped before its move number %d; the opener %s)" % (
                        who, kid.result, nth, "was stopped before asking about a temporary file it had listed" if stopped else "ran to the end")
                    break
            if bad:
                res.violations.append({"what": bad, "input": {"scenario": "a process with debug logging opens the store while a writer publishes", "writer_stopped_before_move": nth,
                                                                "opener_operations": opener.trace}, "kf": None})
            shutil.rmtree(d, ignore_errors=True)
    finally:
        shutil.rmtree(tmp, ignore_errors=True)
    # long-lived processes taking turns on one store (no preemption needed): A keeps version 1, B keeps version 2 of the same
    # paths, A keeps version 1 again - every process (A, B, a fresh one) must then see version 1 everywhere, whatever A or B
    # remember privately about what they committed (both run with the object cache, as set_store(cache_objects=True) does)
    for ti in range(4 if thorough else 2):
        w = progs.gen_world(rng, nfun=rng.randint(2, 3), allow=("call", "keep", "datafn"))
        for f in w["funs"]:
            f["uses_ext"] = False
        kept = [fn for (_, fn) in progs.kept_paths(w)]
        w2 = copy.deepcopy(w)
        for f in w2["funs"]:
            if f["name"] == kept[-1]:
                f["tag"] = f["tag"] + "v2"
        v1, p1 = plain_values(w)
        v2, p2 = plain_values(w2)
        tmp = tempfile.mkdtemp(prefix="ddsverif_c07t_")
        try:
            ws = os.path.join(tmp, "ws")
            os.makedirs(ws)
            m1, m2, em = "c7t_%d_%d" % (os.getpid(), ti), "c7t_%d_%db" % (os.getpid(), ti), "c7te_%d_%d" % (os.getpid(), ti)
            write_world(ws, m1, em, w)
            write_world(ws, m2, em, w2)
            idir, ddir = os.path.join(tmp, "internal"), os.path.join(tmp, "data")
            cache = [True, 2, None][ti % 3]
            A = pipeline.WorkerProc("real", cwd=tmp)
            B = pipeline.WorkerProc("real", cwd=tmp)
            entry = {"kind": "eval", "fun": "f0"} if ti % 2 else {"kind": "keep", "fun": "f0", "path": "/turns/top"}
            try:
                for wk, mod in ((A, m1), (B, m2)):
                    wk.call(cmd="store_api", internal_dir=idir, data_dir=ddir, cache_objects=cache)
                    wk.call(cmd="world", dir=ws, module=mod, extmod=em)
                bad = None
                for turn, (wk, who, want_v, want_p) in enumerate(((A, "A", v1, p1), (B, "B", v2, p2), (A, "A", v1, p1), (B, "B", v2, p2), (A, "A", v1, p1))):
                    r = wk.call(cmd="run", entry=entry)
                    res.evaluations += 1
                    if r["error"] is not None or r["value"] != want_v:
                        bad = "turn %d: process %s gets %r (error %s), plain execution gives %r" % (turn, who, r["value"], r["error"], want_v)
                        break
                    for other, oname in ((A, "A"), (B, "B")):
                        for p_, v_ in sorted(want_p.items()):
                            lv = other.call(cmd="load", path=p_)
                            if lv["error"] is not None or lv["value"] != v_:
                                bad = "after turn %d (process %s kept its version) process %s loads %s as %s; the value just kept is %r" % (turn, who, oname, p_, lv, v_)
                                break
                        if bad:
                            break
                    if bad:
                        break
                res.nontrivial("turns %d" % ti)
                res.count("scenario_taking_turns")
                if bad:
                    res.violations.append({"what": bad, "input": {"scenario": "processes taking turns on one store", "cache_objects": cache,
                                                                    "entry": entry, "source": progs.render_world(w, "extmod")}, "kf": None})
            finally:
                A.close()
                B.close()
        finally:
            shutil.rmtree(tmp, ignore_errors=True)
    pipeline.close_ref()
    res.rule = ("scenarios {same keep on a cold store (one through the cache wrapper), re-keep of changed code vs concurrent loads, same internal "
                "directory with two data directories} x schedules {every (quick: every n/12-th) single preemption point of each process, sampled "
                "double preemptions}, run on real forked processes under the operation-level scheduler; the shared directories are inspected at "
                "every scheduling boundary; one case = (scenario, schedule)")
    uniq = {}
    for v in res.violations:
        uniq.setdefault(v["what"][:60], v)
    res.violations = list(uniq.values())[:6]
    return res
