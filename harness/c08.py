"""C08 - stores round-trip blobs and paths; distinct paths never alias or escape.

Correspondence: one operation sequence (store / has / fetch / sync / fetch_paths / reopen) is run on
MemoryStore, LocalFileStore, the cache-wrapped local store, DBFSStore over a fake dbutils, and on the
Lean `Dict`, `LocalSt` and `Lru LocalSt` models: all answer streams must be equal; the location the
real local store gives every path is compared with the Lean `localLoc`.
Property oracle (implementation only): every store answers like a plain dictionary; no two paths with
different segment sequences share a link; every entry created for a path lies inside the data
directory (realpath).
"""
import json
import os
import shutil
import tempfile
from collections import OrderedDict

from . import common
from .c12 import Obj, apply_op as _apply_op12


def _enc_val(n):
    """blob values of three kinds (object / text / bytes: three different codecs), all decoded back to the number"""
    if n is None:
        return None
    # texts and byte strings carry line ends of every kind and a non-ASCII character: what comes back must be the very same
    # characters / bytes (no newline translation, no re-encoding)
    tail = ["", "\r\n", "\r", "\n\u00e9"][(n // 3) % 4]
    if n % 7 == 5:
        # a table whose row labels are not 0..n-1 (a filtered / labelled frame): labels, types and cells must come back
        try:
            import pandas
            return pandas.DataFrame({"v": [n, n + 1], "s": ["x%d" % n, "y"]}, index=[n + 10, n + 3] if n % 2 else ["r%d" % n, "q"])
        except ImportError:
            pass
    return [Obj(n), "s%d%s" % (n, tail), ("b%d%s" % (n, tail)).encode("utf-8")][n % 3]


def _tail(n):
    return ["", "\r\n", "\r", "\n\u00e9"][(n // 3) % 4]


def _dec_val(v):
    if v is None:
        return None
    if isinstance(v, Obj):
        return v.n
    import re
    if type(v).__name__ == "DataFrame":
        try:
            n = int(v["v"].iloc[0])
            want = _enc_val(n)
            if type(want).__name__ == "DataFrame" and v.equals(want) and list(v.index) == list(want.index) and list(v.dtypes) == list(want.dtypes):
                return n
        except BaseException:
            pass
        return "UNDECODABLE:frame %r index %r" % (v.to_dict(orient="list"), list(v.index))
    if isinstance(v, str) and v[:1] == "s":
        m = re.match(r"s(-?\d+)", v)
        if m and v == "s%s%s" % (m.group(1), _tail(int(m.group(1)))):
            return int(m.group(1))
    if type(v) is bytes and v[:1] == b"b":
        m = re.match(rb"b(-?\d+)", v)
        if m and v == ("b%s%s" % (m.group(1).decode(), _tail(int(m.group(1))))).encode("utf-8"):
            return int(m.group(1))
    return "UNDECODABLE:%r" % (v,)


def apply_op(store, op, DDSException):
    """like c12.apply_op, with stored values of varying kinds (an overwritten key may change codec)"""
    try:
        if op[0] == "store":
            store.store_blob(op[1], _enc_val(op[2]), None)
            return "unit"
        if op[0] == "fetch":
            return {"val": _dec_val(store.fetch_blob(op[1]))}
    except DDSException:
        return "err"
    except BaseException as e:
        return "EXC:" + type(e).__name__
    return _apply_op12(store, op, DDSException)

DESIGN_REF = "DESIGN.md §5 C08"
ASSUMPTIONS = ["paths are syntactically absolute; two path strings with the same non-empty segments denote the same path; "
               "a path and a proper extension of it are never both committed in one store (C11 rejects that within an evaluation)",
               "DBFS is exercised over the in-process fake of the dbutils file-system API (harness/fakedbutils.py)"]

SEGS = ["a", "b", "ab", "a b", "é", "a.b", "c", "x.tmp", "a.1.x.tmp", "k.meta", ".a", ".staging", "..b", "a."]
# long names that differ only at their end (generated report names with a date or a counter): still below what a file name,
# with the suffix of the store's temporary links, may take
LONG = "monthly_report_" + "x" * 182
SEGS += [LONG + "_2023_01", LONG + "_2023_02", LONG]
BAD = [".", ".."]
KEYS = ["k%d" % i for i in range(6)]


def gen_paths(rng, n):
    """a prefix-free set of paths over the ambiguous segment alphabet"""
    out = []
    tries = 0
    while len(out) < n and tries < 200:
        tries += 1
        d = rng.choice([1, 2, 2, 3, 4])
        segs = [rng.choice(SEGS) for _ in range(d)]
        if any(segs[:len(o)] == o or o[:len(segs)] == segs for o in out):
            continue
        out.append(segs)
    return out


def gen_ops(rng, paths, n, dangling=False):
    """operation sequences under the discipline of dds itself: a path is committed to a key that has been
    stored (unless `dangling`: the local store must cope with links to missing blobs too)"""
    ops = []
    v = [0]
    stored = set()
    for _ in range(n):
        r = rng.random()
        k = rng.choice(KEYS)
        if r < 0.25:
            v[0] += 1
            ops.append(["store", k, None if rng.random() < 0.15 else v[0]])
            stored.add(k)
        elif r < 0.4:
            ops.append(["has", k])
        elif r < 0.55:
            ops.append(["fetch", k])
        elif r < 0.78:
            ps = rng.sample(paths, min(len(paths), rng.choice([1, 1, 2, 3])))
            pool = KEYS if dangling else sorted(stored)
            if not pool:
                v[0] += 1
                ops.append(["store", k, v[0]])
                stored.add(k)
                pool = [k]
            ops.append(["sync", [["/" + "/".join(p), rng.choice(pool)] for p in ps]])
        elif r < 0.93:
            ps = [rng.choice(paths) for _ in range(rng.choice([1, 2]))]
            ops.append(["fetch_paths", ["/" + "/".join(p) for p in ps]])
        else:
            ops.append(["reopen"])
    if rng.random() < 0.5 and stored:
        # directed: a key is stored, read, stored again with a value of ANOTHER kind (another codec), read again
        k = rng.choice(sorted(stored))
        v[0] += 1
        ops += [["has", k], ["fetch", k], ["store", k, v[0]], ["fetch", k], ["store", k, v[0] + 1], ["has", k], ["fetch", k]]
        v[0] += 1
    if rng.random() < 0.5 and len(stored) >= 2:
        # directed: a path goes from one key to another and back (a revert), then is resolved
        p = "/" + "/".join(rng.choice(paths))
        k1, k2 = rng.sample(sorted(stored), 2)
        ops += [["sync", [[p, k1]]], ["sync", [[p, k2]]], ["sync", [[p, k1]]], ["fetch_paths", [p]]]
    return ops


def dict_model(ops):
    """the dictionary specification, in python (independent of Lean)"""
    blobs, paths, outs = {}, {}, []
    for op in ops:
        if op[0] == "store":
            blobs[op[1]] = op[2]
            outs.append("unit")
        elif op[0] == "has":
            outs.append(op[1] in blobs)
        elif op[0] == "fetch":
            outs.append({"val": blobs.get(op[1])})
        elif op[0] == "sync":
            for p, k in op[1]:
                paths[p] = k
            outs.append("unit")
        elif op[0] == "fetch_paths":
            if all(p in paths for p in op[1]):
                outs.append({"paths": [[p, paths[p]] for p in OrderedDict.fromkeys(op[1])]})
            else:
                outs.append("err")
        elif op[0] == "reopen":
            outs.append("unit")
    return outs


def run(ctx):
    res = common.Result()
    rng = ctx["rng"]
    common.import_dds()
    from dds.store import MemoryStore, LocalFileStore
    from dds._lru_store import LRUCacheStore
    from dds.structures import DDSException
    thorough = ctx["tier"] == "thorough"
    nseq = 300 if thorough else 60
    maxlen = 40 if thorough else 12
    reqs, meta = [], []
    have_dbfs = True
    try:
        from .fakedbutils import make_dbfs_store
    except Exception as e:  # not built yet
        have_dbfs = False
        res.notes.append("DBFS fake not available: " + str(e))
    for i in range(nseq):
        paths = gen_paths(rng, rng.randint(1, 5))
        dangling = (i % 4 == 3)
        ops = gen_ops(rng, paths, rng.randint(2, maxlen), dangling=dangling)
        # the first sequences are fixed: paths whose names look like the store's own temporary / metadata files, committed next to
        # siblings, re-linked, resolved after a reopen
        DIRECTED = [
            [["store", "k1", 1], ["store", "k2", 2], ["sync", [["/d/x.tmp", "k1"]]], ["sync", [["/d/other", "k2"]]], ["fetch_paths", ["/d/x.tmp"]],
             ["sync", [["/d/other", "k1"]]], ["fetch_paths", ["/d/x.tmp", "/d/other"]], ["reopen"], ["fetch_paths", ["/d/x.tmp"]]],
            [["store", "k1", 1], ["store", "k2", 2], ["sync", [["/a.1.x.tmp", "k1"], ["/k.meta", "k2"]]], ["reopen"], ["fetch_paths", ["/a.1.x.tmp", "/k.meta"]],
             ["sync", [["/zz", "k2"]]], ["fetch_paths", ["/a.1.x.tmp"]], ["fetch", "k1"], ["has", "k2"]],
            [["store", "k1", 3], ["sync", [["/e/x.tmp", "k1"]]], ["store", "k2", 4], ["sync", [["/e/y.tmp", "k2"], ["/e/z", "k2"]]], ["fetch_paths", ["/e/x.tmp", "/e/y.tmp"]],
             ["reopen"], ["sync", [["/e/z", "k1"]]], ["fetch_paths", ["/e/x.tmp", "/e/y.tmp", "/e/z"]]],
            # names that differ by a leading dot (hidden directories next to visible ones), first and later segments
            [["store", "k1", 5], ["store", "k2", 6], ["sync", [["/staging/model", "k1"]]], ["fetch_paths", ["/.staging/model"]], ["sync", [["/.staging/model", "k2"]]],
             ["fetch_paths", ["/staging/model", "/.staging/model"]], ["sync", [["/.a", "k1"], ["/a", "k2"], ["/m/.a", "k2"], ["/m/a", "k1"]]], ["reopen"],
             ["fetch_paths", ["/.a", "/a", "/m/.a", "/m/a", "/staging/model", "/.staging/model"]]],
        ]
        di = i - (i + 1) // 4          # the index among the sequences that are not 'dangling'
        if di < len(DIRECTED) and not dangling:
            ops = [list(o) for o in DIRECTED[di]]
        if ctx.get("replay") and i == 0:
            rp = json.load(open(ctx["replay"]))
            inp = rp.get("violation", {}).get("input") or {}
            if "ops" in inp:
                ops = inp["ops"]
        want = dict_model(ops)
        tmp = tempfile.mkdtemp(prefix="ddsverif_c08_")
        if i % 3 == 2:
            # the store directories are reached through a symbolic link (a home on another volume, /var -> /private/var, ...)
            os.makedirs(tmp + "/real_parent")
            os.symlink(tmp + "/real_parent", tmp + "/via_link")
            tmp_real, tmp = tmp, tmp + "/via_link"
        else:
            tmp_real = tmp
        try:
            kinds = ["memory", "local", "local_lru"] + (["dbfs"] if (have_dbfs and not dangling) else [])
            for kind in kinds:
                cap = rng.choice([1, 2, 10])

                def mk():
                    if kind == "memory":
                        return MemoryStore()
                    if kind == "local":
                        return LocalFileStore(tmp + "/l_int", tmp + "/l_data")
                    if kind == "local_lru":
                        return LRUCacheStore(LocalFileStore(tmp + "/c_int", tmp + "/c_data"), num_elem=cap)
                    return make_dbfs_store(tmp + "/dbfs")
                st = mk()
                outs = []
                bad = None
                for j, op in enumerate(ops):
                    if op[0] == "reopen":
                        if kind != "memory":
                            st = mk()
                        o = "unit"
                    else:
                        o = apply_op(st, op, DDSException)
                        if kind == "dbfs" and op[0] == "fetch_paths" and o == "EXC:FileNotFoundError":
                            o = "err"      # the fake's stand-in for the dbutils exception on a missing record
                    outs.append(o)
                    if bad is None and o != want[j]:
                        bad = j
                res.evaluations += 1
                res.count("store_" + kind)
                res.count("ops", len(ops))
                res.nontrivial("%s %s" % (kind, json.dumps(ops)))
                if bad is not None:
                    res.violations.append({"what": "%s does not answer like a dictionary at op %d %s: got %s, expected %s" % (kind, bad, ops[bad], outs[bad], want[bad]),
                                           "input": {"store": kind, "ops": ops[: bad + 1]}, "kf": None})
                if kind in ("local", "local_lru"):
                    mops = [op for op in ops if op[0] != "reopen"]
                    mouts = [o for (op, o) in zip(ops, outs) if op[0] != "reopen"]
                    reqs.append({"op": "storeops", "kind": kind, "cap": cap, "ops": mops})
                    meta.append((kind, mops, mouts))
                if kind == "local":
                    # aliasing / containment on the real directory tree
                    data = os.path.realpath(tmp + "/l_data")
                    seen = {}
                    for root, dirs, files in os.walk(tmp + "/l_data", followlinks=False):
                        for f in files + [d for d in dirs if os.path.islink(os.path.join(root, d))]:
                            full = os.path.join(root, f)
                            parent = os.path.realpath(os.path.dirname(full))
                            if not (parent + os.sep).startswith(data + os.sep):
                                res.violations.append({"what": "entry %s created for a path lies outside the data directory" % full,
                                                       "input": {"store": kind, "ops": ops}, "kf": None})
                    synced = OrderedDict()
                    for op in ops:
                        if op[0] == "sync":
                            for p, k in op[1]:
                                synced[p] = k
                    for p, k in synced.items():
                        reqs.append({"op": "loc", "path": p})
                        meta.append(("loc", p, tmp))
                        segs = [x for x in p.split("/") if x]
                        link = os.path.join(tmp, "l_data", *segs)
                        res.count("links_checked")
                        if not os.path.islink(link) or os.path.basename(os.readlink(link)) != k:
                            res.violations.append({"what": "path %s is not served by a link of its own at <data>/%s (found: %s)" % (
                                p, "/".join(segs), os.readlink(link) if os.path.islink(link) else "no link"),
                                "input": {"store": kind, "ops": ops}, "kf": None})
            if i < 2:
                res.sample({"ops": ops[:10], "dictionary": want[:10]})
        finally:
            shutil.rmtree(tmp_real, ignore_errors=True)
    # escaping / unsupported paths: must be refused with a DDS error and create nothing outside
    for segs in (["..", "x"], ["a", "..", "..", "x"], [".", "x"], ["a", "."], []):
        p = "/" + "/".join(segs)
        tmp = tempfile.mkdtemp(prefix="ddsverif_c08_")
        try:
            st = LocalFileStore(tmp + "/i", tmp + "/d/data")
            st.store_blob("k0", "v", None)
            o = apply_op(st, ["sync", [[p, "k0"]]], DDSException)
            outside = [f for f in os.listdir(tmp + "/d") if f != "data"] + [f for f in os.listdir(tmp) if f not in ("i", "d")]
            res.evaluations += 1
            reqs.append({"op": "loc", "path": p})
            meta.append(("locbad", p, o))
            if o != "err" or outside:
                res.violations.append({"what": "path %r is not refused with a DDS error by the local store (answer %s, created outside the data directory: %s)" % (p, o, outside),
                                       "input": {"store": "local", "ops": [["store", "k0", 1], ["sync", [[p, "k0"]]]]}, "kf": None})
        finally:
            shutil.rmtree(tmp, ignore_errors=True)
    # a path and an extension of it committed one after the other (separate commits, either order): the local store cannot hold
    # both (a name is a link or a directory). Whatever it answers, it must not lose what it holds: a commit either succeeds - then
    # both paths resolve - or is refused - then every path committed before still resolves to its key
    from dds._lru_store import LRUCacheStore as _LRU
    for (first, second) in ((["a", "b"], ["a"]), (["a"], ["a", "b"]), (["a"], ["a", "b", "ab", "a"]), (["d", "e", "f"], ["d", "e"]), (["a b"], ["a b", "c"])):
        for wrap in (False, True):
            tmp = tempfile.mkdtemp(prefix="ddsverif_c08_")
            try:
                st = LocalFileStore(tmp + "/i", tmp + "/d")
                if wrap:
                    st = _LRU(st, num_elem=2)
                p1, p2 = "/" + "/".join(first), "/" + "/".join(second)
                for k in ("k1", "k2", "k3"):
                    st.store_blob(k, "v" + k, None)
                o0 = apply_op(st, ["sync", [["/other/x", "k3"]]], DDSException)
                o1 = apply_op(st, ["sync", [[p1, "k1"]]], DDSException)
                o2 = apply_op(st, ["sync", [[p2, "k2"]]], DDSException)
                want = OrderedDict([("/other/x", "k3"), (p1, "k1")])
                if o2 == "unit":
                    want[p2] = "k2"
                got = {}
                for pth in want:
                    r = apply_op(st, ["fetch_paths", [pth]], DDSException)
                    got[pth] = dict(r["paths"]).get(pth) if isinstance(r, dict) else r
                if o2 != "unit":
                    # the refused path was never committed: it must not resolve to anything (the dictionary answers 'missing')
                    r2 = apply_op(st, ["fetch_paths", [p2]], DDSException)
                    if isinstance(r2, dict) and dict(r2["paths"]).get(p2) is not None:
                        res.violations.append({"what": "the commit of %s was refused (%s), yet the path resolves to the key %r" % (p2, o2, dict(r2["paths"]).get(p2)),
                                               "input": {"store": "local+cache" if wrap else "local",
                                                         "ops": [["sync", [[p1, "k1"]]], ["sync", [[p2, "k2"]]], ["fetch_paths", [p2]]]}, "kf": None})
                res.evaluations += 1
                res.count("prefix_related_commits")
                res.nontrivial("prefix commits %s %s %s" % (p1, p2, wrap))
                if o0 != "unit" or o1 != "unit" or got != dict(want):
                    res.violations.append({"what": "after committing %s and then %s (answer to the second commit: %s) the paths resolve to %s, expected %s" % (
                        p1, p2, o2, got, dict(want)), "input": {"store": "local+cache" if wrap else "local",
                        "ops": [["sync", [["/other/x", "k3"]]], ["sync", [[p1, "k1"]]], ["sync", [[p2, "k2"]]]]}, "kf": None})
            finally:
                shutil.rmtree(tmp, ignore_errors=True)
    # one commit of several paths of which a later one cannot be stored (it names a directory that holds longer paths): whatever
    # the store answers, a path committed earlier - also one that this very commit re-points - still resolves, to the key it had or
    # to the key of this commit; a path that the commit does not mention is left alone
    for order in ("repointed_first", "failing_first"):
        for wrap in (False, True):
            tmp = tempfile.mkdtemp(prefix="ddsverif_c08_")
            try:
                st = LocalFileStore(tmp + "/i", tmp + "/d")
                if wrap:
                    st = _LRU(st, num_elem=2)
                for k in ("k0", "k1", "k2", "k3"):
                    st.store_blob(k, "v" + k, None)
                o0 = apply_op(st, ["sync", [["/reports/summary", "k1"], ["/reports/other", "k1"]]], DDSException)
                o1 = apply_op(st, ["sync", [["/models/v1/weights", "k0"]]], DDSException)
                batch = [["/reports/summary", "k2"], ["/models/v1", "k3"]]
                if order == "failing_first":
                    batch = batch[::-1]
                o2 = apply_op(st, ["sync", batch], DDSException)
                got = {}
                for pth in ("/reports/summary", "/reports/other", "/models/v1/weights"):
                    r = apply_op(st, ["fetch_paths", [pth]], DDSException)
                    got[pth] = dict(r["paths"]).get(pth) if isinstance(r, dict) else r
                res.evaluations += 1
                res.count("commits_that_fail_half_way")
                res.nontrivial("half-way commit %s %s" % (order, wrap))
                if (o0 != "unit" or o1 != "unit" or got["/reports/summary"] not in ("k1", "k2") or got["/reports/other"] != "k1"
                        or (got["/models/v1/weights"] != "k0" and o2 != "unit")):
                    res.violations.append({"what": "a commit of %s (answer: %s) on a store where /reports/summary -> k1, /reports/other -> k1 and /models/v1/weights -> k0 "
                                                   "are committed leaves %s" % (batch, o2, got),
                                           "input": {"store": "local+cache" if wrap else "local",
                                                     "ops": [["sync", [["/reports/summary", "k1"], ["/reports/other", "k1"]]], ["sync", [["/models/v1/weights", "k0"]]], ["sync", batch]]}, "kf": None})
            finally:
                shutil.rmtree(tmp, ignore_errors=True)
    if ctx["driver_ok"]:
        ans = common.drv_batch(reqs)
        for rq, m, a in zip(reqs, meta, ans):
            if m[0] == "loc":
                segs = [x for x in m[1].split("/") if x]
                if a.get("ok") != segs:
                    res.disagreements.append({"what": "location of %s differs from the model" % m[1], "impl": segs, "model": a})
            elif m[0] == "locbad":
                if ("err" in a) != (m[2] == "err"):
                    res.disagreements.append({"what": "refusal of path %r differs from the model" % m[1], "impl": m[2], "model": a})
            else:
                if a.get("ok") != m[2]:
                    j = next((i for i, (x, y) in enumerate(zip(a.get("ok", []), m[2])) if x != y), None)
                    res.disagreements.append({"what": "%s store differs from the model at op %s" % (m[0], j), "ops": m[1][: (j or 0) + 1],
                                              "impl": m[2][: (j or 0) + 1], "model": (a.get("ok") or [])[: (j or 0) + 1]})
    res.rule = ("%d seeded operation sequences (2..%d ops incl. reopen) over prefix-free path sets of 1..4 segments from %s x stores "
                "{memory, local, local+cache, DBFS(fake)}; plus escaping paths ('.', '..', root); one case = (store, sequence)" % (nseq, maxlen, SEGS))
    res.violations.sort(key=lambda v: len(json.dumps(v["input"])))
    res.violations = res.violations[:5]
    return res
