"""C09 - dds.load always sees the latest kept value and invalidates its readers.

Directed pipelines: one producer of a path (data function or keep) and one reader that loads it, over
placements {root, plain helper, kept function, data function} x order {producer earlier in the same
evaluation, later in the same evaluation, in an earlier evaluation, never} x edits of the producer.
Correspondence: values, errors, executed bodies and signatures agree with the Lean model.
Property oracle (implementation only): a load returns what the dds-free run of the same files returns
(the value most recently kept at the path in program order); a kept reader is re-executed when the
producer's result changes and is served while it does not; reading before producing is rejected with a
DDS error, with nothing executed and nothing stored.
"""
import copy
import json

from . import common, hist, pipeline, progs

DESIGN_REF = "DESIGN.md §5 C09"
ASSUMPTIONS = ["paths are literal strings; one producer per path per evaluation"]


def run(ctx):
    res = common.Result()
    rng = ctx["rng"]
    thorough = ctx["tier"] == "thorough"
    common.import_dds()
    combos = [(pl, pr, od) for pl in ("root", "helper", "kept", "datafn", "feeds_keep") for pr in ("datafn", "keep")
              for od in ("before", "after", "earlier", "never")]
    reps = 4 if thorough else 1
    combos = [c + ("none",) for c in combos] + [(pl, "keep", od, ru) for pl in ("root", "helper", "kept", "datafn")
                                                 for od in ("before", "after") for ru in ("called_before", "kept_before")]
    combos = [c + (1,) for c in combos] + [(pl, pr, od, "none", nl) for pl in ("root", "helper", "kept", "datafn", "feeds_keep")
                                             for pr in ("datafn", "keep") for od in ("before", "earlier") for nl in (2, 3)]
    for rep in range(reps):
        for ci_, (placement, producer, order, reuse, nloads) in enumerate(combos):
            w, meta = progs.gen_load_world(rng, placement, producer, order, reuse, nloads=nloads)
            # (every order of load and producer meets every kind of store: the index of the combination and the seed turn the wheel)
            store_kind = ["memory", "local", "local_lru"][(rep + ci_ + ci_ // 4 + ctx.get("seed", 0)) % 3]
            entry = {"kind": "eval", "fun": "f0"} if rng.random() < 0.5 else {"kind": "keep", "fun": "f0", "path": "/top"}
            prod_entry = {"kind": "direct", "fun": "fp"} if producer == "datafn" else {"kind": "keep", "fun": "fp", "path": "/prod"}
            with pipeline.Session(store_kind, tag="c09") as s:
                msteps = [{"set_store": "dict"}]
                recs = []

                def setw(world):
                    s.set_world(world)
                    msteps.append({"world": progs.model_world(world, s.extmod)})

                def run1(e, label):
                    r, rr = s.run(e)
                    msteps.append({"run": {"entry": e}})
                    recs.append((label, e, r, rr, copy.deepcopy(s.world)))
                    res.evaluations += 1
                    return r, rr
                setw(w)
                case = dict(meta, store=store_kind, entry=entry["kind"], source=progs.render_world(w, "extmod"))
                res.nontrivial(json.dumps(meta) + str(rep))
                res.count("order_" + order)
                res.count("placement_" + placement)
                if order == "earlier":
                    run1(prod_entry, "produce")
                r, rr = run1(entry, "first")
                kept_reader = placement in ("kept", "datafn") or entry["kind"] == "keep"
                reader_name = "fr" if placement in ("kept", "datafn") else "f0"
                bad = None
                if order in ("before", "earlier"):
                    if r["error"] is not None:
                        bad = "a well-ordered load is rejected / fails: %s" % (r["error"],)
                    elif r["value"] != rr["value"]:
                        bad = "value with dds %r differs from plain execution %r" % (r["value"], rr["value"])
                elif order == "after":
                    if r["error"] is None or r["error"]["kind"] != "dds" or r["log"] or r["stored"]:
                        bad = "an evaluation that loads /prod before producing it is not rejected cleanly: error %s, value %r, executed %s" % (r["error"], r["value"], r["log"])
                else:
                    if r["error"] is None or r["error"]["kind"] != "dds" or r["log"]:
                        bad = "loading a path that was never kept is not refused with a DDS error: %s, executed %s" % (r["error"], r["log"])
                if bad is None and order in ("before", "earlier"):
                    # unchanged: the reader is served
                    r2, rr2 = run1(entry, "again")
                    if r2["error"] is not None or r2["value"] != rr2["value"] or (kept_reader and reader_name in r2["log"]):
                        bad = "re-evaluation with an unchanged producer: error %s, value %r vs %r, executed %s" % (r2["error"], r2["value"], rr2["value"], r2["log"])
                if bad is None and order in ("before", "earlier"):
                    # the producer's result changes
                    w2 = copy.deepcopy(w)
                    for f in w2["funs"]:
                        if f["name"] == "fp":
                            f["tag"] = progs.bump_tag(f["tag"])
                    setw(w2)
                    if order == "earlier":
                        run1(prod_entry, "reproduce")
                    r3, rr3 = run1(entry, "after producer edit")
                    if r3["error"] is not None or r3["value"] != rr3["value"]:
                        bad = "after the producer changed: error %s, value with dds %r, plain execution %r" % (r3["error"], r3["value"], rr3["value"])
                    elif kept_reader and reader_name not in r3["log"]:
                        bad = "the kept reader %s was not re-evaluated although /prod serves a different result (executed %s)" % (reader_name, r3["log"])
                    case["source_after"] = progs.render_world(w2, "extmod")
                    if bad is None:
                        # right after the edit (before any revert brings the first keys back): a separate load of every path kept so far
                        for pth, want in sorted(s.ref_paths.items()):
                            got = s.load(pth)
                            res.count("standalone_loads_after_edit")
                            if got["error"] is not None or pipeline.norm_ext(got["value"]) != pipeline.norm_ext(want):
                                bad = "after the producer changed a separate dds.load(%r) gives %s, the value most recently kept there is %r" % (pth, got, want)
                                break
                    if bad is None:
                        # an unrelated change: the reader is served again
                        w3 = copy.deepcopy(w2)
                        for f in w3["funs"]:
                            if f["name"] == "fn":
                                f["tag"] = progs.bump_tag(f["tag"])
                        setw(w3)
                        r4, rr4 = run1(entry, "after unrelated edit")
                        if r4["error"] is not None or r4["value"] != rr4["value"]:
                            bad = "after an unrelated edit: error %s, value %r vs %r" % (r4["error"], r4["value"], rr4["value"])
                        elif placement in ("kept", "datafn") and "fr" in r4["log"]:
                            bad = "the kept reader was re-executed by an edit it cannot observe (executed %s)" % (r4["log"],)
                if bad is None and order == "before":
                    # back to the first version of the producer: every signature is in the store again (when the evaluated
                    # function is itself kept nothing runs at all) - the paths kept inside must follow
                    setw(copy.deepcopy(w))
                    r5, rr5 = run1(entry, "after revert")
                    if r5["error"] is not None or r5["value"] != rr5["value"]:
                        bad = "after the producer was reverted: error %s, value with dds %r, plain execution %r" % (r5["error"], r5["value"], rr5["value"])
                if bad is None and order in ("before", "earlier"):
                    # a later, separate load of every path kept so far returns the value most recently kept there
                    for pth, want in sorted(s.ref_paths.items()):
                        got = s.load(pth)
                        res.count("standalone_loads")
                        if got["error"] is not None or pipeline.norm_ext(got["value"]) != pipeline.norm_ext(want):
                            bad = "a later dds.load(%r) gives %s, the value most recently kept there is %r" % (pth, got, want)
                            break
                if bad:
                    res.violations.append({"what": bad, "input": case, "kf": None})
                if ctx["driver_ok"]:
                    ans = common.drv_batch([{"op": "history", "max": 10000, "steps": msteps}])[0]
                    outs = ans.get("ok")
                    if outs is None or len(outs) != len(recs):
                        res.disagreements.append({"what": "driver rejected the history", "detail": ans, "case": case})
                    else:
                        for (label, e, rx, rrx, wx), m in zip(recs, outs):
                            ie, me = rx["error"], m["error"]
                            a = None if ie is None else (ie["kind"], ie.get("code") if ie["kind"] == "dds" else ie.get("cls"))
                            b = None if me is None else (me["kind"], me.get("code") if me["kind"] == "dds" else me.get("cls"))
                            if a != b or rx["value"] != m["value"] or rx["log"] != m["log"] or \
                                    (rx["paths"] is not None and ie is None and rx["paths"] != dict(m["paths"])):
                                res.disagreements.append({"what": "implementation differs from the model at step '%s'" % label,
                                                          "case": {k: v for k, v in case.items() if not k.startswith("source")},
                                                          "impl": [a, rx["value"], rx["log"]], "model": [b, m["value"], m["log"]],
                                                          "source": progs.render_world(wx, "extmod")})
                                break
                if rep == 0 and (placement, producer, order, reuse, nloads) == ("kept", "datafn", "before", "none", 1):
                    res.sample({"case": meta, "source": case["source"], "first_value": r["value"]})
    # values that are easily mistaken for "nothing there" (None, 0, '', [], {}, False, 0.0, b''): kept, then loaded - in the same
    # evaluation, by a kept reader and at top level - after another value was committed at the same path (two-way: real dds
    # against the dds-free run of the same files)
    import os
    import shutil
    import sys
    import tempfile
    real = pipeline.real_runner()
    ref = pipeline.ref_worker()
    FALSY = ["None", "0", "''", "[]", "{}", "False", "0.0", "b''", "()"]
    # (the last form passes the path by keyword: refused by the analysis or right, never silently ignored)
    LOAD_FORMS = ["dds.load('/v/p')", "dict(x=dds.load('/v/p'))['x']", "[dds.load('/v/p')][0]", "dds.load('/v/p') if True else None",
                  "dict(y=1, x=dds.load('/v/p'))['x']", "dds.load(path='/v/p')"]
    for fi, falsy in enumerate(FALSY if thorough else rng.sample(FALSY, 5) + ["None"]):
        base = tempfile.mkdtemp(prefix="ddsverif_c09v_")
        pkg = "c9v_%d_%d" % (os.getpid(), fi)
        try:
            store_kind = ["memory", "local", "local_lru"][fi % 3]
            real.reset_process_state()
            real.set_store(store_kind, os.path.join(base, "si"), os.path.join(base, "sd"))
            ref.call(cmd="refpaths", paths={})
            for step, expr in enumerate(["'x1'", falsy, "'x2'", falsy]):
                src = ("import dds\nfrom ddsverif_rt import log, term\n\n"
                       "def prod():\n    log('prod')\n    return %s\n\n"
                       "def reader():\n    log('reader')\n%s    v = %s\n    return term('reader', repr(v))\n\n"
                       "def f0():\n    a = dds.keep('/v/p', prod)\n    b = dds.keep('/v/r', reader)\n    c = dds.load('/v/p')\n"
                       "    return term('f0', repr(a), b, repr(c))\n" % (expr, ["", "    import dds\n", "    from dds import load\n    import dds\n"][fi % 3],
                          # where the load sits in the statement: alone, as a keyword argument, inside a display, in a conditional expression
                          LOAD_FORMS[(fi + 1) % len(LOAD_FORMS)]))
                os.makedirs(os.path.join(base, pkg), exist_ok=True)
                open(os.path.join(base, pkg, "__init__.py"), "w").close()
                with open(os.path.join(base, pkg, "main.py"), "w") as fh:
                    fh.write(src)
                real.load_world(base, pkg + ".main", None, accept=pkg)
                ref.call(cmd="world", dir=base, module=pkg + ".main", extmod=None)
                entry = {"kind": "eval", "fun": "f0"}
                rr = ref.call(cmd="run", entry=entry)
                r = real.run(entry)
                res.evaluations += 1
                res.count("falsy_value_steps")
                res.nontrivial("falsy %s step %d" % (falsy, step))
                if rr.get("error") is not None:
                    continue
                if "path=" in LOAD_FORMS[(fi + 1) % len(LOAD_FORMS)] and r["error"] is not None and r["error"].get("kind") == "dds":
                    res.count("load_with_keyword_path_refused")
                    continue
                if r["error"] is not None or r["value"] != rr["value"]:
                    res.violations.append({"what": "a kept value %s is not what dds.load returns afterwards: dds gives %r (error %s), plain execution %r" % (
                        expr, r["value"], r["error"], rr["value"]), "input": {"source": src, "step": step, "store": store_kind,
                        "history": "the path held 'x1' / 'x2' before"}, "kf": None})
                    break
        finally:
            shutil.rmtree(base, ignore_errors=True)
            for k in list(sys.modules):
                if k.split(".")[0] == pkg:
                    del sys.modules[k]
    # the producer is a keep inside a method of a class - written in the class itself, inherited from a base class, inherited over
    # two levels - and the reader comes after it (the load returns the value just kept, on a fresh and on a populated store) or
    # before it (the evaluation is rejected, nothing runs; on a populated store too, where the previous content is at hand)
    for ci, (where, order) in enumerate([(w_, o_) for w_ in ("own", "base", "base2", "prop") for o_ in ("after", "before")]):
        base = tempfile.mkdtemp(prefix="ddsverif_c09m_")
        pkg = "c9m_%d_%d" % (os.getpid(), ci)
        try:
            store_kind = ["memory", "local", "local_lru"][ci % 3]
            real.reset_process_state()
            real.set_store(store_kind, os.path.join(base, "si"), os.path.join(base, "sd"))
            ref.call(cmd="refpaths", paths={})
            meth = "    def fit(self):\n        return dds.keep('/m/fit', fit_impl)\n\n"
            classes = {"own": "class Model(object):\n" + meth,
                       "base": "class Base(object):\n" + meth + "class Model(Base):\n    def other(self):\n        return 1\n\n",
                       "base2": "class Base0(object):\n" + meth + "class Base(Base0):\n    pass\n\nclass Model(Base):\n    def other(self):\n        return 1\n\n",
                       # the reader goes through a property that has a getter (which loads) and a setter: two definitions of one name
                       "prop": "class Model(object):\n" + meth + "class Settings(object):\n    @property\n    def scale(self):\n        return dds.load('/m/fit')\n\n"
                               "    @scale.setter\n    def scale(self, v):\n        self._v = v\n\n"}[where]
            body = {"after": "    a = dds.keep('/m/out', out)\n    b = dds.keep('/m/reader', reader)\n",
                    "before": "    b = dds.keep('/m/reader', reader)\n    a = dds.keep('/m/out', out)\n"}[order]
            for step, (expr, fbody) in enumerate([("'v1'", body if order == "after" else None), ("'v2'", body), ("'v2'", body), ("'v3'", body)]):
                if fbody is None:
                    # populate the store first (the producer alone)
                    fbody = "    a = dds.keep('/m/out', out)\n    b = None\n"
                src = ("import dds\nfrom ddsverif_rt import log, term\n\n"
                       "def fit_impl():\n    log('fit')\n    return term('fit', %s)\n\n" % expr + classes +
                       "def out():\n    log('out')\n    m = Model()\n    return term('out', m.fit())\n\n" +
                       ("def reader():\n    log('reader')\n    return term('reader', Settings().scale)\n\n" if where == "prop" else
                        "def reader():\n    log('reader')\n    return term('reader', dds.load('/m/fit'))\n\n") +
                       "def f0():\n" + fbody + "    return term('f0', a, b)\n")
                os.makedirs(os.path.join(base, pkg), exist_ok=True)
                open(os.path.join(base, pkg, "__init__.py"), "w").close()
                with open(os.path.join(base, pkg, "main.py"), "w") as fh:
                    fh.write(src)
                real.load_world(base, pkg + ".main", None, accept=pkg)
                ref.call(cmd="world", dir=base, module=pkg + ".main", extmod=None)
                entry = {"kind": "eval", "fun": "f0"}
                reads_first = "reader)\n    a =" in fbody
                rr = None if reads_first else ref.call(cmd="run", entry=entry)
                r = real.run(entry)
                res.evaluations += 1
                res.count("method_producer_steps")
                res.nontrivial("method producer %s %s step %d" % (where, order, step))
                bad = None
                if reads_first:
                    if r["error"] is None or r["error"]["kind"] != "dds":
                        bad = "an evaluation that loads /m/fit before the method that keeps it has run is not rejected: value %r, error %s" % (r["value"], r["error"])
                    elif r["log"]:
                        bad = "the rejected evaluation executed %s" % (r["log"],)
                elif rr.get("error") is None and (r["error"] is not None or r["value"] != rr["value"]):
                    bad = "the load of a path kept by a method (%s) gives %r (error %s), plain execution %r" % (where, r["value"], r["error"], rr["value"])
                if bad:
                    res.violations.append({"what": bad, "input": {"source": src, "step": step, "store": store_kind, "where": where, "order": order}, "kf": None})
                    break
        finally:
            shutil.rmtree(base, ignore_errors=True)
            for k in list(sys.modules):
                if k.split(".")[0] == pkg:
                    del sys.modules[k]
    # a load written inside the arguments of a keep: it is evaluated before the kept call. After the producer: the kept call
    # follows the producer's edits; as an argument of the very call that produces the path: read before produced, rejected
    for ci, order in enumerate(["after", "self", "self_kw", "self_kw_mixed"]):
        base = tempfile.mkdtemp(prefix="ddsverif_c09a_")
        pkg = "c9a_%d_%d" % (os.getpid(), ci)
        try:
            real.reset_process_state()
            real.set_store(["local", "memory"][ci % 2], os.path.join(base, "si"), os.path.join(base, "sd"))
            ref.call(cmd="refpaths", paths={})
            for step, expr in enumerate(["'a1'", "'a2'", "'a2'", "'a1'"]):
                body = {"after": "    a = dds.keep('/g/p', prod)\n    b = dds.keep('/g/r', wrap, dds.load('/g/p'))\n    c = dds.keep('/g/k', wrap, x=dds.load('/g/p'))\n",
                        "self": "    a = None\n    b = dds.keep('/g/p', wrap, dds.load('/g/p'))\n    c = None\n",
                        # ... the same read written as a keyword argument of the producing call (alone, and after a positional one)
                        "self_kw": "    a = None\n    b = dds.keep('/g/p', wrap, x=dds.load('/g/p'))\n    c = None\n",
                        "self_kw_mixed": "    a = None\n    b = dds.keep('/g/p', wrap2, 'lit', y=dds.load('/g/p'))\n    c = None\n"}[order]
                if order.startswith("self") and step == 0:
                    body = "    a = dds.keep('/g/p', wrap, 'seed')\n    b = None\n    c = None\n"
                src = ("import dds\nfrom ddsverif_rt import log, term\n\n"
                       "def prod():\n    log('prod')\n    return term('prod', %s)\n\n"
                       "def wrap(x):\n    log('wrap')\n    return term('wrap', x)\n\n"
                       "def wrap2(x, y=None):\n    log('wrap2')\n    return term('wrap2', x, y)\n\n"
                       "def f0():\n%s    return term('f0', a, b, c)\n" % (expr, body))
                os.makedirs(os.path.join(base, pkg), exist_ok=True)
                open(os.path.join(base, pkg, "__init__.py"), "w").close()
                with open(os.path.join(base, pkg, "main.py"), "w") as fh:
                    fh.write(src)
                real.load_world(base, pkg + ".main", None, accept=pkg)
                ref.call(cmd="world", dir=base, module=pkg + ".main", extmod=None)
                entry = {"kind": "eval", "fun": "f0"}
                ill = order.startswith("self") and step > 0
                rr = None if ill else ref.call(cmd="run", entry=entry)
                r = real.run(entry)
                res.evaluations += 1
                res.count("load_in_keep_arguments_steps")
                res.nontrivial("load in keep arguments %s %d" % (order, step))
                bad = None
                if ill:
                    if r["error"] is None or r["error"]["kind"] != "dds":
                        bad = "keep('/g/p', wrap, dds.load('/g/p')) reads the path before the call that produces it: not rejected (value %r, error %s)" % (r["value"], r["error"])
                    elif r["log"]:
                        bad = "the rejected evaluation executed %s" % (r["log"],)
                elif rr.get("error") is None and (r["error"] is not None or r["value"] != rr["value"]):
                    bad = "a load in the arguments of a keep: dds gives %r (error %s), plain execution %r" % (r["value"], r["error"], rr["value"])
                if bad:
                    res.violations.append({"what": bad, "input": {"source": src, "step": step, "order": order}, "kf": None})
                    break
        finally:
            shutil.rmtree(base, ignore_errors=True)
            for k in list(sys.modules):
                if k.split(".")[0] == pkg:
                    del sys.modules[k]
    # the producer is a data function that is only referenced by name and run indirectly (a list of steps, a callback): a load of
    # its path later in the same evaluation returns the value just kept - on a fresh store too; a load before it is rejected
    for ci, order in enumerate(["after", "before"]):
        base = tempfile.mkdtemp(prefix="ddsverif_c09r_")
        pkg = "c9r_%d_%d" % (os.getpid(), ci)
        try:
            real.reset_process_state()
            real.set_store(["local", "memory"][ci % 2], os.path.join(base, "si"), os.path.join(base, "sd"))
            ref.call(cmd="refpaths", paths={})
            steps = [("'c1'", "after"), ("'c2'", order), ("'c2'", order), ("'c3'", order)]
            for step, (expr, od) in enumerate(steps):
                body = {"after": "    for st in [raw, clean]:\n        st()\n    out = hof(publish)\n    v = dds.load('/r/clean')\n    w = dds.load('/r/pub')\n",
                        "before": "    v = dds.load('/r/clean')\n    for st in [raw, clean]:\n        st()\n    out = hof(publish)\n    w = None\n"}[od]
                src = ("import dds\nfrom ddsverif_rt import log, term, hof\n\n"
                       "@dds.data_function('/r/raw')\ndef raw():\n    log('raw')\n    return term('raw', %s)\n\n"
                       "@dds.data_function('/r/clean')\ndef clean():\n    log('clean')\n    return term('clean', %s)\n\n"
                       "@dds.data_function('/r/pub')\ndef publish():\n    log('publish')\n    return term('pub', %s)\n\n"
                       "def f0():\n%s    return term('f0', out, v, w)\n" % (expr, expr, expr, body))
                os.makedirs(os.path.join(base, pkg), exist_ok=True)
                open(os.path.join(base, pkg, "__init__.py"), "w").close()
                with open(os.path.join(base, pkg, "main.py"), "w") as fh:
                    fh.write(src)
                real.load_world(base, pkg + ".main", None, accept=pkg)
                ref.call(cmd="world", dir=base, module=pkg + ".main", extmod=None)
                entry = {"kind": "eval", "fun": "f0"}
                ill = od == "before"
                rr = None if ill else ref.call(cmd="run", entry=entry)
                r = real.run(entry)
                res.evaluations += 1
                res.count("producers_referenced_by_name_steps")
                res.nontrivial("producer referenced by name %s %d" % (order, step))
                bad = None
                if ill:
                    if r["error"] is None or r["error"]["kind"] != "dds":
                        bad = "the evaluation loads /r/clean before the data function (referenced by name, run from a list) has produced it: not rejected (value %r, error %s)" % (r["value"], r["error"])
                    elif r["log"]:
                        bad = "the rejected evaluation executed %s" % (r["log"],)
                elif rr.get("error") is None and (r["error"] is not None or r["value"] != rr["value"]):
                    bad = "data functions referenced by name and run from a list, then loaded: dds gives %r (error %s), plain execution %r" % (r["value"], r["error"], rr["value"])
                if bad:
                    res.violations.append({"what": bad, "input": {"source": src, "step": step, "order": order}, "kf": None})
                    break
        finally:
            shutil.rmtree(base, ignore_errors=True)
            for k in list(sys.modules):
                if k.split(".")[0] == pkg:
                    del sys.modules[k]
    # the load sits in a function defined inside the evaluated function (a closure): run before the keep - called by name, through an
    # alias, handed to a library function that calls it - the evaluation reads the path before producing it: rejected, nothing runs,
    # also on a store that holds an earlier content. Run after the keep: the value of plain execution (or a refusal), never another one
    for ci, via in enumerate(["direct", "hof", "alias", "after_direct", "after_hof"]):
        base = tempfile.mkdtemp(prefix="ddsverif_c09n_")
        pkg = "c9n_%d_%d" % (os.getpid(), ci)
        try:
            real.reset_process_state()
            real.set_store(["local", "memory"][ci % 2], os.path.join(base, "si"), os.path.join(base, "sd"))
            ref.call(cmd="refpaths", paths={})
            for step, expr in enumerate(["'n1'", "'n2'", "'n2'"]):
                use = {"direct": "    previous = current()\n", "hof": "    previous = hof(current)\n", "alias": "    g = current\n    previous = g()\n"}.get(via)
                if step == 0 and ci % 2 == 0:
                    body = "    previous = None\n    a = dds.keep('/n/p', prod)\n"        # an earlier evaluation leaves a content at the path
                elif use is not None:
                    body = "    def current():\n        return dds.load('/n/p')\n" + use + "    a = dds.keep('/n/p', prod)\n"
                else:
                    body = ("    def current():\n        return dds.load('/n/p')\n    a = dds.keep('/n/p', prod)\n"
                            + {"after_direct": "    previous = current()\n", "after_hof": "    previous = hof(current)\n"}[via])
                src = ("import dds\nfrom ddsverif_rt import log, term, hof\n\n"
                       "def prod():\n    log('prod')\n    return term('prod', %s)\n\n"
                       "def f0():\n%s    return term('f0', previous, a)\n" % (expr, body))
                os.makedirs(os.path.join(base, pkg), exist_ok=True)
                open(os.path.join(base, pkg, "__init__.py"), "w").close()
                with open(os.path.join(base, pkg, "main.py"), "w") as fh:
                    fh.write(src)
                real.load_world(base, pkg + ".main", None, accept=pkg)
                ref.call(cmd="world", dir=base, module=pkg + ".main", extmod=None)
                entry = {"kind": "eval", "fun": "f0"}
                ill = use is not None and "def current" in body
                rr = None if ill else ref.call(cmd="run", entry=entry)
                r = real.run(entry)
                res.evaluations += 1
                res.count("loads_in_closures_steps")
                res.nontrivial("load in a closure %s %d" % (via, step))
                bad = None
                refused = r["error"] is not None and r["error"]["kind"] == "dds"
                if ill:
                    if not refused:
                        bad = "a closure that loads /n/p is run (%s) before the keep that produces the path: not rejected (value %r, error %s)" % (via, r["value"], r["error"])
                    elif r["log"]:
                        bad = "the rejected evaluation executed %s" % (r["log"],)
                elif refused and "def current" in body:
                    res.count("loads_in_closures_refused_although_well_ordered")
                elif rr.get("error") is None and (r["error"] is not None or r["value"] != rr["value"]):
                    bad = "a closure that loads the path, run after the keep: dds gives %r (error %s), plain execution %r" % (r["value"], r["error"], rr["value"])
                if bad:
                    res.violations.append({"what": bad, "input": {"source": src, "step": step, "via": via}, "kf": None})
                    break
        finally:
            shutil.rmtree(base, ignore_errors=True)
            for k in list(sys.modules):
                if k.split(".")[0] == pkg:
                    del sys.modules[k]
    # a keep that fails, the failure handled by the pipeline itself (a refresh that cannot reach its source): the evaluation goes on and
    # returns; the path still serves the value most recently KEPT there, and a kept reader of the path is served from the store
    for ci, store_kind in enumerate(["local", "memory", "local_lru"]):
        base = tempfile.mkdtemp(prefix="ddsverif_c09h_")
        pkg = "c9h_%d_%d" % (os.getpid(), ci)
        try:
            real.reset_process_state()
            real.set_store(store_kind, os.path.join(base, "si"), os.path.join(base, "sd"))
            ref.call(cmd="refpaths", paths={})
            for step, (body, entry_fun, may_run) in enumerate([
                    ("    return term('fetch', 'd1')\n", "f0", {"fetch", "reader"}),
                    ("    boom('ConnectionError', 'down')\n", "f0", {"fetch"}),
                    ("    boom('ConnectionError', 'down')\n", "f1", set()),
                    ("    boom('TimeoutError', 'still down')\n", "f0", {"fetch"}),
                    ("    boom('TimeoutError', 'still down')\n", "f1", set())]):
                src = ("import dds\nfrom ddsverif_rt import log, term, boom\n\n"
                       "def fetch():\n    log('fetch')\n" + body + "\n"
                       "def reader():\n    log('reader')\n    return term('reader', dds.load('/h/data'))\n\n"
                       "def f0():\n    try:\n        d = dds.keep('/h/data', fetch)\n    except (ConnectionError, TimeoutError):\n        d = 'unreachable'\n"
                       "    return term('f0', d)\n\n"
                       "def f1():\n    return term('f1', dds.keep('/h/reader', reader))\n")
                os.makedirs(os.path.join(base, pkg), exist_ok=True)
                open(os.path.join(base, pkg, "__init__.py"), "w").close()
                with open(os.path.join(base, pkg, "main.py"), "w") as fh:
                    fh.write(src)
                real.load_world(base, pkg + ".main", None, accept=pkg)
                r = real.run({"kind": "eval", "fun": entry_fun})
                if step == 0:
                    r = real.run({"kind": "eval", "fun": "f1"})
                lv = real.load_path("/h/data")
                res.evaluations += 1
                res.count("handled_failing_keep_steps")
                res.nontrivial("handled failing keep %s %d" % (store_kind, step))
                want = {"f0": "f0(fetch(d1))" if step == 0 else "f0(unreachable)", "f1": "f1(reader(fetch(d1)))"}["f1" if step == 0 else entry_fun]
                ran = set(x for x in r["log"] if x in ("fetch", "reader"))
                bad = None
                if r["error"] is not None or r["value"] != want:
                    bad = "the evaluation returns %r (error %s), plain execution %r" % (r["value"], r["error"], want)
                elif lv.get("error") is not None or lv.get("value") != "fetch(d1)":
                    bad = "dds.load('/h/data') gives %s: the value most recently kept there is 'fetch(d1)'" % (lv,)
                elif step > 0 and ran - may_run:
                    bad = "%s re-executed although /h/data serves the same result as before" % sorted(ran - may_run)
                if bad:
                    res.violations.append({"what": "a keep that fails and whose failure the pipeline handles: " + bad,
                                           "input": {"source": src, "step": step, "entry": entry_fun, "store": store_kind}, "kf": None})
                    break
        finally:
            shutil.rmtree(base, ignore_errors=True)
            for k in list(sys.modules):
                if k.split(".")[0] == pkg:
                    del sys.modules[k]
    pipeline.close_ref()
    res.rule = ("all 40 combinations placement {root, helper, kept, datafn, loaded value fed to a keep} x producer {datafn, keep} x order {before, after, earlier, never}, plus 16 where the producing function already appeared in the evaluation (called / kept at another path) "
                "(x%d with fresh random variables / stores / entry kinds), each followed by re-evaluation, producer edit, unrelated edit; one "
                "case = one combination" % reps)
    res.exhaustive = True
    res.violations = res.violations[:8]
    return res
