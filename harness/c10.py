"""C10 - a failing user function is never cached and leaves dds and the store clean.

Every function of every generated pipeline is made the failing one, with exception classes
{Exception subclass, BaseException subclass, KeyboardInterrupt, SystemExit, GeneratorExit}.
Correspondence: error kind/token, executed bodies, signatures and the later evaluations agree with the
Lean model (`evalStep` with `Fn.fails`).
Property oracle (implementation only): the very exception object raised by the user code comes out of
dds; no blob is stored under the signature of the failing function or of a function waiting for it; no
path is committed; the evaluation context is idle again; the repaired pipeline and an unrelated one then
evaluate to what plain execution gives, re-using the sub-results that did complete.
"""
import copy
import os
import shutil
import sys
import tempfile
import json

from . import common, hist, pipeline, progs

DESIGN_REF = "DESIGN.md §5 C10"
ASSUMPTIONS = ["the failing function raises after its sub-calls returned (a body that fails earlier is the same case for a shorter body)"]
# user-defined classes (an Exception, an Exception whose instances are immutable - a frozen dataclass -, and a BaseException
# subclass), the BaseException-only built-ins, and built-in exception
# classes that library code is tempted to catch and translate
KINDS = ["Boom", "BoomFrozen", "BoomBase", "KeyboardInterrupt", "SystemExit", "GeneratorExit", "KeyError", "AttributeError", "TypeError",
         "AssertionError", "FileNotFoundError", "StopIteration", "LookupError", "NotImplementedError", "ImportError", "RecursionError",
         "ValueError", "IndexError"]


EXHAUSTION_KINDS = ["MemoryError", "RecursionError", "TimeoutError", "ConnectionError", "BrokenPipeError", "BufferError", "OverflowError"]


def run(ctx):
    res = common.Result()
    rng = ctx["rng"]
    thorough = ctx["tier"] == "thorough"
    common.import_dds()
    nworlds = 60 if thorough else 12
    kind_counter = [0]
    for wi in range(nworlds):
        w = progs.gen_world(rng, nfun=rng.randint(2, 6))
        names = [f["name"] for f in w["funs"]]
        victims = names if thorough else rng.sample(names, min(3, len(names)))
        for victim in victims:
            # the kinds are dealt in turn, so that every one of them is used (several times) in every run
            kind_counter[0] += 1
            kind = KINDS[(kind_counter[0] + ctx.get("seed", 0)) % len(KINDS)]
            store_kind = ["memory", "local", "local_lru"][(wi + len(victim)) % 3]
            wf = copy.deepcopy(w)
            for f in wf["funs"]:
                if f["name"] == victim:
                    f["fails"] = kind
            entry = {"kind": "eval", "fun": "f0"} if rng.random() < 0.6 else {"kind": "keep", "fun": "f0", "path": "/top"}
            with pipeline.Session(store_kind, tag="c10") as s:
                msteps = [{"set_store": "dict"}]
                s.set_world(wf)
                msteps.append({"world": progs.model_world(wf, s.extmod)})

                def data_tree():
                    """everything under the data directory: directories, links, files"""
                    out = []
                    if store_kind == "memory" or not os.path.isdir(s.data_dir):
                        return out
                    for r_, ds_, fs_ in os.walk(s.data_dir):
                        for x in ds_ + fs_:
                            out.append(os.path.relpath(os.path.join(r_, x), s.data_dir))
                    return sorted(out)
                tree_before = data_tree()
                r, rr = s.run(entry)
                msteps.append({"run": {"entry": entry}})
                res.evaluations += 1
                res.count("kind_" + kind)
                res.nontrivial("%d %s %s" % (wi, victim, kind))
                case = {"failing": victim, "exception": kind, "entry": entry, "store": store_kind,
                        "source": progs.render_world(wf, "extmod")}
                err = r["error"]
                want_cls = kind
                bad = None
                if err is None or err["kind"] != "exc" or err["cls"] != want_cls or err["token"] != victim or not err.get("same_object"):
                    bad = "the exception raised by %s did not come out of dds unchanged: %s" % (victim, err)
                elif r["synced"]:
                    bad = "paths were committed although the evaluation failed: %s" % (r["synced"],)
                elif not r["idle"]:
                    bad = "dds is still inside an evaluation context after the failure"
                elif data_tree() != tree_before:
                    bad = "the failed evaluation left entries under the data directory: %s" % sorted(set(data_tree()) - set(tree_before))[:6]
                else:
                    waiting = {p for (p, g) in progs.kept_paths(wf) if victim in hist.reach(wf, g)}
                    if entry["kind"] == "keep":
                        waiting.add(entry["path"])
                    sigs = {(r["paths"] or {}).get(p) for p in waiting}
                    hit = [k for k in (r["stored"] or []) if k in sigs]
                    if hit:
                        bad = "a blob was stored under the signature of the failing function or of a function waiting for it: %s" % hit
                if bad:
                    res.violations.append({"what": bad, "input": case, "kf": None})
                    continue
                completed = list(r["stored"] or [])
                # the repaired pipeline, then the same again
                s.set_world(w)
                msteps.append({"world": progs.model_world(w, s.extmod)})
                r2, rr2 = s.run(entry)
                msteps.append({"run": {"entry": entry}})
                res.evaluations += 1
                if r2["error"] is not None or pipeline.norm_ext(r2["value"]) != pipeline.norm_ext(rr2["value"]):
                    res.violations.append({"what": "after a failed evaluation the repaired pipeline does not evaluate to what plain execution gives: %s vs %s (error %s)" % (
                        r2["value"], rr2["value"], r2["error"]), "input": case, "kf": None})
                    continue
                # the store is what a fresh store would be after the repaired evaluation: every path it keeps (also below
                # a function whose result survived the failure and is now served) loads the value its keep returned
                stale = None
                for pth, want in sorted(s.ref_paths.items()):
                    got = s.load(pth)
                    res.count("paths_loaded_after_repair")
                    if got["error"] is not None or pipeline.norm_ext(got["value"]) != pipeline.norm_ext(want):
                        stale = "after the failed evaluation and the repaired one, path %s loads %s; its keep returned %r" % (pth, got, want)
                        break
                if stale:
                    res.violations.append({"what": stale, "input": dict(case, stored_before_failure=completed), "kf": None})
                    continue
                # model
                if ctx["driver_ok"]:
                    ans = common.drv_batch([{"op": "history", "max": 10000, "steps": msteps}])[0]
                    outs = ans.get("ok") or []
                    for rec_r, rec_rr, m, nm in ((r, rr, outs[0] if outs else None, "failing step"), (r2, rr2, outs[1] if len(outs) > 1 else None, "repaired step")):
                        if m is None:
                            res.disagreements.append({"what": "driver rejected the history", "detail": ans})
                            break
                        me = m["error"]
                        ie = rec_r["error"]
                        a = None if ie is None else (ie["kind"], ie.get("cls"), ie.get("token"))
                        b = None if me is None else (me["kind"], me.get("cls"), me.get("token"))
                        if a != b or rec_r["log"] != m["log"] or rec_r["value"] != m["value"] or \
                                (rec_r["paths"] is not None and rec_r["paths"] != dict(m["paths"])):
                            res.disagreements.append({"what": "implementation differs from the model at the " + nm, "case": case,
                                                      "impl": [a, rec_r["log"], rec_r["value"]], "model": [b, m["log"], m["value"]]})
                if wi < 2 and victim == victims[0]:
                    res.sample({"case": {k: v for k, v in case.items() if k != "source"}, "error": err, "executed": r["log"],
                                "stored_before_failure": completed, "repaired_executed": r2["log"]})
    # kept steps that run on worker threads of the evaluating process (a thread pool inside the evaluated function), a later
    # step fails: nothing is committed either, and the repaired pipeline evaluates to what plain execution gives
    real = pipeline.real_runner()
    ref = pipeline.ref_worker()
    for ti, kind in enumerate(["Boom", "KeyboardInterrupt", "KeyError"][: (3 if thorough else 2)]):
        base = tempfile.mkdtemp(prefix="ddsverif_c10t_")
        pkg = "c10t_%d_%d" % (os.getpid(), ti)
        try:
            store_kind = ["memory", "local", "local_lru"][ti % 3]
            real.reset_process_state()
            real.set_store(store_kind, os.path.join(base, "si"), os.path.join(base, "sd"))
            ref.call(cmd="refpaths", paths={})
            for step, (fail, ver) in enumerate([(True, 1), (False, 1), (True, 2), (False, 2)]):
                src = ("import dds\nfrom concurrent.futures import ThreadPoolExecutor\nfrom ddsverif_rt import log, term, boom\n\n"
                       "def extract():\n    log('extract')\n    return term('extract#%d')\n\n"
                       "def lookup():\n    log('lookup')\n    return term('lookup#%d')\n\n"
                       "def job_a():\n    return dds.keep('/t/extract', extract)\n\n"
                       "def job_b():\n    return dds.keep('/t/lookup', lookup)\n\n"
                       "def final(a, b):\n    log('final')\n%s    return term('final', a, b)\n\n"
                       "def f0():\n    with ThreadPoolExecutor(max_workers=1) as pool:\n        a = pool.submit(job_a).result()\n"
                       "        b = pool.submit(job_b).result()\n    return dds.keep('/t/final', final, a, b)\n"
                       % (ver, ver, ("    boom(%r, 'final')\n" % kind) if fail else ""))
                os.makedirs(os.path.join(base, pkg), exist_ok=True)
                open(os.path.join(base, pkg, "__init__.py"), "w").close()
                with open(os.path.join(base, pkg, "main.py"), "w") as fh:
                    fh.write(src)
                real.load_world(base, pkg + ".main", None, accept=pkg)
                ref.call(cmd="world", dir=base, module=pkg + ".main", extmod=None)
                entry = {"kind": "eval", "fun": "f0"}
                rr = ref.call(cmd="run", entry=entry)
                r = real.run(entry)
                res.evaluations += 1
                res.count("worker_thread_steps")
                res.nontrivial("threads %s step %d" % (kind, step))
                case = {"scenario": "kept steps on worker threads", "exception": kind, "step": step, "store": store_kind, "source": src}
                bad = None
                if fail:
                    err = r["error"]
                    if err is None or err["kind"] != "exc" or err["cls"] != kind or not err.get("same_object"):
                        bad = "the exception raised by final did not come out of dds unchanged: %s" % (err,)
                    elif r["synced"]:
                        bad = "paths were committed although the evaluation failed: %s" % (r["synced"],)
                    elif not r["idle"]:
                        bad = "dds is still inside an evaluation context after the failure"
                elif r["error"] is not None or r["value"] != rr.get("value"):
                    bad = "the repaired pipeline gives %r (error %s), plain execution %r" % (r["value"], r["error"], rr.get("value"))
                if bad:
                    res.violations.append({"what": bad, "input": case, "kf": None})
                    break
        finally:
            shutil.rmtree(base, ignore_errors=True)
            for k in list(sys.modules):
                if k.split(".")[0] == pkg:
                    del sys.modules[k]
    # directed: every exception class once in a fixed small pipeline where the failing function is kept (nested keep, and keep at
    # the root): the exception that comes out is the very object that was raised, and nothing is stored or committed
    real = pipeline.real_runner()
    directed = [(k_, ["memory", "local"][i_ % 2]) for i_, k_ in enumerate(KINDS + ["FileNotFoundError:errno", "PermissionError:errno", "OSError:errno"])]
    # ... and once more on the store with the object cache, warm: the results of the functions that succeed were stored by an earlier
    # evaluation and fetched since (resource exhaustion - MemoryError, RecursionError - is where a cache is tempted to 'help')
    directed += [(k_, "local_lru:warm") for k_ in KINDS + EXHAUSTION_KINDS]
    for ki, (kind, dstore) in enumerate(directed):
        base = tempfile.mkdtemp(prefix="ddsverif_c10k_")
        pkg = "c10k_%d_%d" % (os.getpid(), ki)
        try:
            real.reset_process_state()
            real.set_store(dstore.split(":")[0], os.path.join(base, "si"), os.path.join(base, "sd"))
            if ki % 3 == 2:
                # the kept callable is a class whose constructor fails
                src = ("import dds\nfrom ddsverif_rt import log, term, boom\n\n"
                       "def ok():\n    log('ok')\n    return term('ok')\n\n"
                       "class bad(object):\n    def __init__(self):\n        log('bad')\n        boom(%r, 'tok%d')\n\n"
                       "def f0():\n    a = dds.keep('/k/ok', ok)\n    b = dds.keep('/k/bad', bad)\n    return term('f0', a, b)\n" % (kind, ki))
            else:
                src = ("import dds\nfrom ddsverif_rt import log, term, boom\n\n"
                       "def ok():\n    log('ok')\n    return term('ok')\n\n"
                       "def bad():\n    log('bad')\n    boom(%r, 'tok%d')\n\n"
                       "def f0():\n    a = dds.keep('/k/ok', ok)\n    b = dds.keep('/k/bad', bad)\n    return term('f0', a, b)\n" % (kind, ki))
            os.makedirs(os.path.join(base, pkg), exist_ok=True)
            open(os.path.join(base, pkg, "__init__.py"), "w").close()
            with open(os.path.join(base, pkg, "main.py"), "w") as fh:
                fh.write(src)
            real.load_world(base, pkg + ".main", None, accept=pkg)
            if dstore.endswith(":warm"):
                for _ in (1, 2):
                    real.run({"kind": "keep", "fun": "ok", "path": "/k/ok"})
            for entry in ({"kind": "eval", "fun": "f0"}, {"kind": "keep", "fun": "bad", "path": "/k/top"}):
                r = real.run(entry)
                if [x for x in r["log"] if x == "bad"] != ["bad"]:
                    res.violations.append({"what": "a kept function that raises %s was executed %d times in one evaluation" % (kind, len([x for x in r["log"] if x == "bad"])),
                                           "input": {"source": src, "entry": entry, "store": dstore}, "kf": None})
                    break
                res.evaluations += 1
                res.count("directed_kinds")
                res.nontrivial("directed kind %s %s" % (kind, entry["kind"]))
                e = r["error"]
                want_cls = kind.split(":")[0]
                if e is None or e.get("kind") != "exc" or e.get("cls") != want_cls or not e.get("same_object") or (
                        ":" not in kind and e.get("token") != "tok%d" % ki):
                    res.violations.append({"what": "a kept function raises %s('tok%d'); what comes out of dds is %s (the same exception object is expected)" % (kind, ki, e),
                                           "input": {"source": src, "entry": entry, "store": dstore}, "kf": None})
                    break
                if r["synced"]:
                    res.violations.append({"what": "a failed evaluation committed paths: %s" % (r["synced"],), "input": {"source": src, "entry": entry}, "kf": None})
                    break
        finally:
            shutil.rmtree(base, ignore_errors=True)
            for k in list(sys.modules):
                if k.split(".")[0] == pkg:
                    del sys.modules[k]
    # the same through the public API only (no recording wrapper around the store: the library sees the store types it builds itself),
    # on the store with the object cache, warm: the exception that comes out is the object that was raised, the function ran once,
    # and no file appears in the store directories
    import dds
    import dds._api as api
    import importlib
    import ddsverif_rt
    saved_store = api._store_var
    for ki, kind in enumerate(EXHAUSTION_KINDS + ["Boom", "KeyError", "KeyboardInterrupt"]):
        base = tempfile.mkdtemp(prefix="ddsverif_c10p_")
        pkg = "c10p_%d_%d" % (os.getpid(), ki)
        try:
            real.reset_process_state()
            dds.set_store("local", internal_dir=os.path.join(base, "si"), data_dir=os.path.join(base, "sd"), cache_objects=[True, 2, 100][ki % 3])
            src = ("import dds\nfrom ddsverif_rt import log, term, boom\n\n"
                   "def ok():\n    log('ok')\n    return term('ok')\n\n"
                   "def ok2():\n    log('ok2')\n    return term('ok2')\n\n"
                   "def bad():\n    log('bad')\n    boom(%r, 'tok%d')\n\n"
                   "def ok3():\n    log('ok3')\n    return term('ok3')\n\n"
                   "def after():\n    return term('after', dds.keep('/k/after/ok3', ok3))\n\n"
                   "def warm():\n    return term('warm', dds.keep('/k/ok', ok), dds.keep('/k/ok2', ok2))\n\n"
                   "def f0():\n    a = dds.keep('/k/ok', ok)\n    a2 = dds.keep('/k/ok2', ok2)\n    b = dds.keep('/k/bad', bad)\n    return term('f0', a, a2, b)\n" % (kind, ki))
            os.makedirs(os.path.join(base, pkg), exist_ok=True)
            open(os.path.join(base, pkg, "__init__.py"), "w").close()
            with open(os.path.join(base, pkg, "main.py"), "w") as fh:
                fh.write(src)
            sys.path.insert(0, base)
            importlib.invalidate_caches()
            dds.accept_module(pkg)
            mod = importlib.import_module(pkg + ".main")
            for _ in (1, 2):
                dds.eval(mod.warm)

            def snapshot():
                out = []
                for root_, _, files_ in os.walk(base):
                    if os.path.basename(root_) != pkg and "__pycache__" not in root_:
                        out += [os.path.join(root_, f_) for f_ in files_]
                return sorted(out)
            before = snapshot()
            del ddsverif_rt.LOG[:]
            del ddsverif_rt.RAISED[:]
            # the failing evaluation is a full one, or a trial run restricted to a prefix of the stages that contains the evaluation
            stages = [None, ["analysis", "store_inspect", "eval"], ["analysis", "store_inspect", "eval", "store_commit"]][(ki // 3 + ki) % 3]
            try:
                v = dds.eval(mod.f0) if stages is None else dds.eval(mod.f0, dds_stages=stages)
                out = ("returned", repr(v))
            except BaseException as e:
                out = ("raised", type(e).__name__, bool(ddsverif_rt.RAISED) and e is ddsverif_rt.RAISED[0])
            ran = [x for x in ddsverif_rt.LOG if x == "bad"]
            res.count("public_api_failing_run_stages_%s" % ("all" if stages is None else len(stages)))
            res.evaluations += 1
            res.count("public_api_warm_cache_kinds")
            res.nontrivial("public api warm cache %s" % kind)
            bad = None
            if out != ("raised", kind, True):
                bad = "what comes out of dds.eval is %s (expected: the very %s object that the function raised)" % (out, kind)
            elif ran != ["bad"] or len(ddsverif_rt.RAISED) != 1:
                bad = "the failing function was executed %d times" % len(ran)
            elif snapshot() != before:
                bad = "files appeared in / disappeared from the store: %s" % sorted(set(snapshot()) ^ set(before))
            if bad is None:
                # dds stays usable: the next (full) evaluation in the same process stores and commits as if the failed one had not happened
                try:
                    del ddsverif_rt.LOG[:]
                    va = dds.eval(mod.after)
                    first = list(ddsverif_rt.LOG)
                    lv = dds.load("/k/after/ok3")
                    del ddsverif_rt.LOG[:]
                    vb = dds.eval(mod.after)
                    second = list(ddsverif_rt.LOG)
                    new_files = sorted(set(snapshot()) - set(before))
                    if first != ["ok3"] or second != [] or va != vb or lv != mod.ok3() or not new_files:
                        bad = ("the next evaluation in the same process is not a normal one: it executes %s, evaluated again it executes %s, values %r / %r, "
                               "load gives %r, new files in the store: %d" % (first, second, va, vb, lv, len(new_files)))
                except BaseException as e:
                    bad = "the next evaluation in the same process fails: %s: %s" % (type(e).__name__, str(e)[:200])
            if bad:
                res.violations.append({"what": "a kept function raises %s on a local store with the object cache (warm), stages of the failing run %s: %s" % (kind, stages, bad),
                                       "input": {"source": src, "cache_objects": [True, 2, 100][ki % 3], "stages": stages}, "kf": None})
        finally:
            api._eval_ctx = None
            if base in sys.path:
                sys.path.remove(base)
            shutil.rmtree(base, ignore_errors=True)
            for k in list(sys.modules):
                if k.split(".")[0] == pkg:
                    del sys.modules[k]
    api._store_var = saved_store
    # a pipeline that retries a keep whose function failed (the failure handled inside the evaluation, the same path kept again):
    # what plain execution does - the function runs again, its result or its second failure is what the pipeline gets
    ref = pipeline.ref_worker()
    for ri, (fails, store_kind) in enumerate([(1, "local"), (1, "memory"), (99, "local"), (0, "local_lru"), (1, "local_lru")]):
        base = tempfile.mkdtemp(prefix="ddsverif_c10r_")
        pkg = "c10r_%d_%d" % (os.getpid(), ri)
        try:
            real.reset_process_state()
            real.set_store(store_kind, os.path.join(base, "si"), os.path.join(base, "sd"))
            ref.call(cmd="refpaths", paths={})
            src = ("import dds\nfrom ddsverif_rt import log, term, fail_first\n\n"
                   "def fetch():\n    log('fetch')\n    n = fail_first('source', %d, 'ConnectionError')\n    return term('fetch')\n\n"
                   "def f0():\n    for attempt in (1, 2):\n        try:\n            return term('f0', dds.keep('/r/data', fetch), attempt)\n"
                   "        except ConnectionError:\n            log('handled')\n    return 'gave up'\n" % fails)
            os.makedirs(os.path.join(base, pkg), exist_ok=True)
            open(os.path.join(base, pkg, "__init__.py"), "w").close()
            with open(os.path.join(base, pkg, "main.py"), "w") as fh:
                fh.write(src)
            real.load_world(base, pkg + ".main", None, accept=pkg)
            ref.call(cmd="world", dir=base, module=pkg + ".main", extmod=None)
            ref.call(cmd="exec", stmt="__import__('ddsverif_rt').COUNTS.clear()")
            ddsverif_rt.COUNTS.clear()
            entry = {"kind": "eval", "fun": "f0"}
            rr = ref.call(cmd="run", entry=entry)
            r = real.run(entry)
            res.evaluations += 1
            res.count("retried_keeps")
            res.nontrivial("retried keep %d" % ri)
            if rr.get("error") is not None:
                raise common.Infra("the retry pipeline does not run: %s" % (rr["error"],))
            if r["error"] is not None or r["value"] != rr["value"] or r["log"] != rr["log"]:
                res.violations.append({"what": "a pipeline that keeps the same path again after the kept function failed (the source fails %d time(s)): dds returns %r "
                                               "(error %s, executed %s), plain execution %r (executed %s)" % (fails, r["value"], r["error"], r["log"], rr["value"], rr["log"]),
                                       "input": {"source": src, "store": store_kind}, "kf": None})
        finally:
            shutil.rmtree(base, ignore_errors=True)
            for k in list(sys.modules):
                if k.split(".")[0] == pkg:
                    del sys.modules[k]
    pipeline.close_ref()
    res.rule = ("%d generated pipelines x failing function (quick: 3 per pipeline; thorough: every function) x exception classes %s x entry "
                "{eval, keep} x stores {memory, local, local+cache}; each followed by the repaired pipeline; one case = (pipeline, failing "
                "function, class)" % (nworlds, KINDS))
    res.violations = res.violations[:5]
    return res
