"""C11 - ill-formed evaluations are rejected before anything runs, whatever the order.

Correspondence: `FunctionInteractionsUtils.non_terminal_leaves` vs the Lean `nonTerminalLeaves`
(exact result lists) on all lists of <= 4 paths over the segment alphabet {f, g, fg, x} up to depth 3
(quick: all lists of <= 3, sampled 4-lists) in every order, plus random longer lists.
Property oracle (implementation only, end to end): generated programs whose kept paths overlap (every
order, nesting placement), whose functions are (co-)recursive through every edge kind, or which nest
dds.eval at depth 1..4 must raise the corresponding DDS error, execute no user function and leave the
store untouched.
"""
import itertools
import sys
import json

from . import common, ws, execlog

DESIGN_REF = "DESIGN.md §5 C11"
ASSUMPTIONS = ["paths are well formed: absolute, non-empty segments; the root path '/' as a kept path is outside the statement",
               "cycle / nested-eval rejection is checked end to end on the real code (the analysis pass is not yet part of the Lean model)"]

# "f.b", "f-" and "f " extend "f" with a character that sorts BELOW the separator "/", "fg" with one above it
SEGS = ["f", "g", "fg", "x", "f.b", "f-", "f "]


def all_paths(maxdepth):
    out = []
    for d in range(1, maxdepth + 1):
        for t in itertools.product(SEGS, repeat=d):
            out.append(list(t))
    return out


def spec_overlap(ps):
    # (a path is the sequence of its non-empty segments: //f and /f/ are /f)
    ps = [[x for x in p if x] for p in ps]
    return any(p != q and q[:len(p)] == p for p in ps for q in ps)


def pstr(segs):
    return "/" + "/".join(segs)


def run(ctx):
    res = common.Result()
    rng = ctx["rng"]
    dds = common.import_dds()
    from dds.structures_utils import FunctionInteractionsUtils as FIU, DDSPathUtils as DPU
    from dds.structures import DDSException, DDSErrorCode
    thorough = ctx["tier"] == "thorough"
    # ---------------- unit level ----------------
    P = all_paths(2) + [["f", "g", "x"], ["f", "g", "fg"], ["fg", "f", "g"], ["f", "f", "f"], ["x", "g", "f"], ["f", "f.b", "g"], ["f.b", "g", "f"]]
    lists = []
    for n in (1, 2, 3):
        if n < 3 or thorough:
            lists += [list(t) for t in itertools.permutations(P, n)] if n < 3 else []
        if n == 3:
            small = [["f"], ["g"], ["f.b"], ["f-"], ["fg"], ["f", "g"], ["f", "f.b"], ["f.b", "g"], ["f", "x"], ["x"], ["x", "f"], ["f ", "g"],
                     ["f", "g", "x"], ["f.b", "f"], ["g", "f"], ["f", "fg"], ["fg", "f"]]
            lists += [list(t) for t in itertools.permutations(small, 3)]
    for _ in range(20000 if thorough else 3000):
        n = rng.choice([3, 4, 4, 5, 6])
        lists.append([rng.choice(P) for _ in range(n)])
    # dedupe identical paths inside a list the way the OrderedDict of store paths does
    seen = set()
    cases = []
    for l in lists:
        d = []
        for p in l:
            if p not in d:
                d.append(p)
        k = json.dumps(d)
        if k not in seen:
            seen.add(k)
            cases.append(d)
    reqs = []
    impl = []
    norm_reqs, norm_impl = [], []
    for l in cases:
        try:
            # (every path goes through DDSPathUtils.create, as in the library; every third list is spelled with repeated and
            # trailing separators: one path, one spelling afterwards)
            if len(impl) % 3 == 2:
                raw = ["/" + "".join(seg + rng.choice(["/", "//", "///"]) for seg in p[:-1]) + (p[-1] if p else "") + rng.choice(["", "/", "//"]) for p in l]
                raw = [("/" if rng.random() < 0.3 else "") + x for x in raw]
            else:
                raw = [pstr(p) for p in l]
            created = [DPU.create(x) for x in raw]
            for x_, c_ in zip(raw, created):
                if len(norm_reqs) < 600:
                    norm_reqs.append({"op": "normpath", "p": x_})
                    norm_impl.append(str(c_))
            r = FIU.non_terminal_leaves(created, None)
            r = [x.split("/")[1:] for x in r]
        except BaseException as e:
            r = "EXC:" + type(e).__name__
        impl.append(r)
        reqs.append({"op": "overlap", "paths": l})
        res.evaluations += 1
        want = spec_overlap(l)
        res.nontrivial("n%d ov%s first%s" % (len(l), want, l[0] if want else ""))
        if isinstance(r, str) or bool(r) != want:
            res.violations.append({"what": "non_terminal_leaves reports %s but %s" % (r, "one path is a strict prefix of another" if want else "no path is a prefix of another"),
                                   "input": [pstr(p) for p in l], "kf": None})
    if ctx["driver_ok"]:
        ans = common.drv_batch(reqs)
        for rq, a, r in zip(reqs, ans, impl):
            if a.get("ok") != r:
                res.disagreements.append({"what": "non_terminal_leaves differs from the model", "request": rq, "impl": r, "model": a})
        # the one spelling given to a path when it is created = the model's normPath (C11.spelling_irrelevant)
        for rq, a, c_ in zip(norm_reqs, common.drv_batch(norm_reqs), norm_impl):
            if a.get("ok") != c_:
                res.disagreements.append({"what": "DDSPathUtils.create differs from the model normPath", "request": rq, "impl": c_, "model": a})
        res.count("path_spellings_compared", len(norm_reqs))
    res.sample({"paths": [pstr(p) for p in cases[len(cases) // 2]], "impl": impl[len(cases) // 2]})
    res.count("unit_lists", len(cases))
    # ---------------- end to end ----------------
    store = ws.recording_store()
    dds.set_store(store)
    inner = store.inner

    def run_case(w, src, entry, expect_code, desc, keep_store=False):
        modname = w.unique("c11m")
        mod = w.write_module(modname, src)
        # something already in the store
        inner._cache["preexisting"] = "v"
        inner._paths["/pre"] = "preexisting"
        snap = (dict(inner._cache), dict(inner._paths))
        execlog.clear()
        try:
            v = entry(mod)
            out = ("returned", repr(v))
        except DDSException as e:
            out = ("dds_error", e.error_code.name if e.error_code is not None else None)
        except BaseException as e:
            out = ("exc", type(e).__name__ + ": " + str(e)[:80])
        ws.reset_dds_state()
        log = execlog.snapshot()
        changed = (dict(inner._cache), dict(inner._paths)) != snap
        res.evaluations += 1
        res.nontrivial(desc)
        if expect_code is None:
            if out[0] != "returned":
                res.violations.append({"what": "a well-formed evaluation is rejected: %s" % (out,), "input": {"case": desc, "source": src}, "kf": None})
        else:
            if out != ("dds_error", expect_code) or log or changed:
                res.violations.append({
                    "what": "ill-formed evaluation (%s expected): outcome %s, user functions executed %s, store changed %s" % (expect_code, out, log, changed),
                    "input": {"case": desc, "source": src}, "kf": None})
        if not keep_store:
            inner._cache.clear()
            inner._paths.clear()
        return out

    HEAD = "import dds\nfrom harness.execlog import log\n\n"
    with ws.Workspace("c11") as w:
        # overlapping paths: sets of 2..3 paths, all orders, three placements
        pathsets = [[["f"], ["f", "g"]], [["f"], ["x"], ["f", "g"]], [["f", "g"], ["x"], ["f"]], [["x"], ["f", "g", "x"], ["f", "g"]],
                    [["f"], ["fg"]], [["f", "g"], ["fg"], ["x"]], [["f"], ["x"], ["g", "f"]], [["f", "g"], ["f", "x"], ["g"]],
                    [["f", "g"], ["x"], ["fg"], ["f"]], [["f", "g", "x"], ["x"], ["g"], ["f"]],
                    [["f"], ["f", "g"], ["f.b"]], [["f.b"], ["f", "g"], ["f"]], [["x", "f"], ["x", "f-"], ["x", "f", "g"]],
                    # spellings with repeated / trailing separators: the path of the segments that are not empty
                    [["", "f"], ["f", "g"]], [["f", ""], ["x"], ["f", "g"]], [["f", "", "g"], ["f"]], [["x"], ["", "", "f", "g", ""], ["", "f"]]]
        if thorough:
            pool = all_paths(2) + [["f", "g", "x"], ["f", "g", "fg"]]
            for _ in range(60):
                pathsets.append(rng.sample(pool, rng.choice([2, 3, 4])))
        n_over = 0
        for ps in pathsets:
            orders = list(itertools.permutations(ps))
            if not thorough and len(orders) > 6:
                orders = rng.sample(orders, 6)
            for order in orders:
                for placement in ("flat", "helper", "nested_keep", "inherited_method"):
                    src = HEAD
                    for i in range(len(order)):
                        src += "def leaf%d():\n    log('leaf%d')\n    return 'v%d'\n\n" % (i, i, i)
                    if placement == "flat":
                        src += "def top():\n    log('top')\n" + "".join("    dds.keep(%r, leaf%d)\n" % (pstr(p), i) for i, p in enumerate(order)) + "    return 't'\n"
                    elif placement == "inherited_method":
                        # the other keeps sit in a method that the class used inherits from its base class
                        src += "class Base(object):\n    def m(self):\n        log('Base.m')\n" + "".join(
                            "        dds.keep(%r, leaf%d)\n" % (pstr(p), i) for i, p in list(enumerate(order))[1:]) + "        return 'b'\n\n"
                        src += "class Derived(Base):\n    def other(self):\n        return 1\n\n"
                        src += "def top():\n    log('top')\n    dds.keep(%r, leaf0)\n    Derived().m()\n    return 't'\n" % pstr(order[0])
                    elif placement == "helper":
                        src += "def helper():\n    log('helper')\n" + "".join("    dds.keep(%r, leaf%d)\n" % (pstr(p), i) for i, p in list(enumerate(order))[1:]) + "    return 'h'\n\n"
                        src += "def top():\n    log('top')\n    dds.keep(%r, leaf0)\n    helper()\n    return 't'\n" % pstr(order[0])
                    else:
                        src += "def mid():\n    log('mid')\n" + "".join("    dds.keep(%r, leaf%d)\n" % (pstr(p), i) for i, p in list(enumerate(order))[2:]) + "    return 'm'\n\n"
                        if len(order) >= 2:
                            src += "def top():\n    log('top')\n    dds.keep(%r, leaf0)\n    dds.keep(%r, mid)\n    return 't'\n" % (pstr(order[0]), pstr(order[1]))
                        else:
                            continue
                    ov = spec_overlap(list(order))
                    n_over += ov
                    run_case(w, src, lambda m: dds.eval(m.top), "OVERLAPPING_PATH" if ov else None,
                             "paths %s placement %s" % ([pstr(p) for p in order], placement))
        # overlapping paths on a WARM store: a well-formed evaluation first (its kept function, which keeps a path inside, is then in
        # the store), then an evaluation that shares that kept function and adds a keep at a prefix / an extension of the inner path
        for (inner_path, extra_path) in (("/x/y", "/x"), ("/x/y", "/x/y/z"), ("/x", "/x/y"), ("/a/b/c", "/a/b")):
            for extra_first in (False, True):
                base_src = (HEAD + "def inner():\n    log('inner')\n    return 'i'\n\ndef other():\n    log('other')\n    return 'o'\n\n"
                            "def outer():\n    log('outer')\n    return dds.keep(%r, inner)\n\n" % inner_path)
                run_case(w, base_src + "def top():\n    log('top')\n    return dds.keep('/m', outer)\n", lambda m: dds.eval(m.top), None,
                         "warm-up for overlapping paths %s %s" % (inner_path, extra_path), keep_store=True)
                k1, k2 = "    a = dds.keep('/m', outer)\n", "    b = dds.keep(%r, other)\n" % extra_path
                run_case(w, base_src + "def top():\n    log('top')\n" + ((k2 + k1) if extra_first else (k1 + k2)) + "    return 't'\n",
                         lambda m: dds.eval(m.top), "OVERLAPPING_PATH",
                         "paths /m (kept function already in the store, keeps %s inside) and %s, %s first" % (inner_path, extra_path, "extra" if extra_first else "/m"))
        # the second keep sits in an expression that Python evaluates when a nested function / a lambda is DEFINED: a default value
        # (positional or keyword-only), an annotation, a decorator - the enclosing function runs it, so the analysis must see it
        spots = {"lambda_default": "    h = lambda v=dds.keep('/a/b', leaf1): v\n",
                 "lambda_kwonly_default": "    h = lambda *, v=dds.keep('/a/b', leaf1): v\n",
                 "lambda_kwonly_default_second": "    h = lambda *, u=0, v=dds.keep('/a/b', leaf1): v\n",
                 "def_default": "    def h(v=dds.keep('/a/b', leaf1)):\n        return v\n",
                 "def_kwonly_default": "    def h(*, v=dds.keep('/a/b', leaf1)):\n        return v\n",
                 "def_kwonly_after_star_args": "    def h(*xs, u=1, v=dds.keep('/a/b', leaf1)):\n        return v\n",
                 "def_annotation": "    def h(v: dds.keep('/a/b', leaf1) = 0):\n        return v\n",
                 "def_return_annotation": "    def h(v=0) -> dds.keep('/a/b', leaf1):\n        return v\n"}
        for spot, line in sorted(spots.items()):
            for first in (True, False):
                src = HEAD + "def leaf0():\n    log('leaf0')\n    return 'v0'\n\ndef leaf1():\n    log('leaf1')\n    return 'v1'\n\n"
                k0 = "    dds.keep('/a', leaf0)\n"
                src += "def top():\n    log('top')\n" + ((k0 + line) if first else (line + k0)) + "    return 't'\n"
                run_case(w, src, lambda m: dds.eval(m.top), "OVERLAPPING_PATH", "paths /a and /a/b, the second keep in a %s, %s" % (spot, "after /a" if first else "before /a"))
                res.count("e2e_overlap_in_definition_time_expressions")
        res.count("e2e_overlap_programs", res.evaluations)
        # cycles of length 1..4 through each edge kind
        # (the last two: a plain call next to a lambda / a nested function whose PARAMETER has the name of the called function)
        kinds = ["call", "keep", "ref", "method", "object", "call_lambda_param", "call_def_param", "inherited", "callee"]
        for n in range(1, 5):
            combos = list(itertools.product(kinds, repeat=n))
            if not thorough and len(combos) > 12:
                combos = rng.sample(combos, 12)
            for combo in combos:
                src = HEAD + "def apply(g):\n    return g()\n\n"
                for i, kind in enumerate(combo):
                    nxt = "c%d" % ((i + 1) % n)
                    if kind == "call":
                        body = "    return %s()\n" % nxt
                    elif kind == "callee":
                        # the call that closes the cycle sits inside the expression of the function of another call
                        body = "    return str(%s()).strip()\n" % nxt
                    elif kind == "call_lambda_param":
                        body = "    best = sorted([(2, 1), (1, 2)], key=lambda %s: %s[1])\n    return %s()\n" % (nxt, nxt, nxt)
                    elif kind == "call_def_param":
                        body = "    def pick(%s):\n        return %s\n    pick(1)\n    return %s()\n" % (nxt, nxt, nxt)
                    elif kind == "keep":
                        body = "    return dds.keep('/cyc%d', %s)\n" % (i, nxt)
                    elif kind == "ref":
                        body = "    return apply(%s)\n" % nxt
                    elif kind == "method":
                        src += "class K%d(object):\n    def m(self):\n        return %s()\n\n" % (i, nxt)
                        body = "    return K%d().m()\n" % i
                    elif kind == "inherited":
                        # the method that closes the cycle is defined in a base class
                        src += "class B%d(object):\n    def m(self):\n        return %s()\n\nclass K%d(B%d):\n    def other(self):\n        return 1\n\n" % (i, nxt, i, i)
                        body = "    return K%d().m()\n" % i
                    else:
                        # the object is built first, the method is called on the variable (the class is then a node of the
                        # cycle in its own right: function -> class -> method -> function)
                        src += "class K%d(object):\n    def m(self):\n        return %s()\n\n" % (i, nxt)
                        body = "    w = K%d()\n    return w.m()\n" % i
                    src += "def c%d():\n    log('c%d')\n%s\n" % (i, i, body)
                for entry_kind in ("eval", "keep"):
                    entry = (lambda m: dds.eval(m.c0)) if entry_kind == "eval" else (lambda m: dds.keep("/entry", m.c0))
                    run_case(w, src, entry, "CIRCULAR_CALL", "cycle %s entry %s" % ("-".join(combo), entry_kind))
        # cycles through a second module, reached by a module-level import, a from-import or an import inside the function body
        # (the second module then is not loaded yet when the first evaluation is analysed)
        import os as _os
        for how in ("import", "from_import", "lazy_import", "lazy_import"):
            for back in ("lazy_import", "import"):
                for entry_kind in ("eval", "keep"):
                    na, nb = w.unique("c11a"), w.unique("c11b")
                    if how == "import":
                        a_body = "import %s\n\ndef c0():\n    log('c0')\n    return %s.c1()\n" % (nb, nb)
                    elif how == "from_import":
                        if back == "import":
                            continue          # two modules importing names from each other at load time cannot be imported at all
                        a_body = "from %s import c1\n\ndef c0():\n    log('c0')\n    return c1()\n" % nb
                    else:
                        a_body = "def c0():\n    log('c0')\n    import %s\n    return %s.c1()\n" % (nb, nb)
                    if back == "import":
                        b_body = "import %s\n\ndef c1():\n    log('c1')\n    return %s.c0()\n" % (na, na)
                    else:
                        b_body = "def c1():\n    log('c1')\n    import %s\n    return %s.c0()\n" % (na, na)
                    # the second module is only written (and accepted), not imported by the harness
                    with open(_os.path.join(w.dir, nb + ".py"), "w") as fh:
                        fh.write(HEAD + b_body)
                    dds.accept_module(nb)
                    w.pkgs.append(nb)
                    entry = (lambda m: dds.eval(m.c0)) if entry_kind == "eval" else (lambda m: dds.keep("/entry2", m.c0))
                    for attempt in ("first evaluation in the process", "second evaluation"):
                        execlog.clear()
                        inner._cache["preexisting"] = "v"
                        inner._paths["/pre"] = "preexisting"
                        snap = (dict(inner._cache), dict(inner._paths))
                        try:
                            mod = sys.modules.get(na) or w.write_module(na, HEAD + a_body)
                            out = ("returned", repr(entry(mod)))
                        except DDSException as e:
                            out = ("dds_error", e.error_code.name if e.error_code is not None else None)
                        except RecursionError:
                            out = ("exc", "RecursionError")
                        except BaseException as e:
                            out = ("exc", type(e).__name__ + ": " + str(e)[:80])
                        ws.reset_dds_state()
                        log = execlog.snapshot()
                        changed = (dict(inner._cache), dict(inner._paths)) != snap
                        res.evaluations += 1
                        res.nontrivial("two-module cycle %s/%s %s %s" % (how, back, entry_kind, attempt))
                        if out != ("dds_error", "CIRCULAR_CALL") or log or changed:
                            res.violations.append({
                                "what": "ill-formed evaluation (CIRCULAR_CALL expected): a cycle through a second module (%s there, %s back), %s: outcome %s, "
                                        "user functions executed %s, store changed %s" % (how, back, attempt, out, log[:6], changed),
                                "input": {"case": "two-module cycle", "module_a": HEAD + a_body, "module_b": HEAD + b_body, "entry": entry_kind}, "kf": None})
                            break
                        inner._cache.clear()
                        inner._paths.clear()
        # nested eval at depth 1..4
        for depth in range(1, 5):
            for via in ("call", "keep", "inherited", "callee"):
                src = HEAD + "def inner():\n    log('inner')\n    return 'i'\n\n"
                if via == "inherited":
                    # the nested eval sits in a method defined by a base class
                    src += ("class BaseRunner(object):\n    def launch(self):\n        log('launch')\n        return dds.eval(inner)\n\n"
                            "class Runner(BaseRunner):\n    def other(self):\n        return 1\n\n"
                            "def h%d():\n    log('h%d')\n    return Runner().launch()\n\n" % (depth, depth))
                else:
                    src += "def h%d():\n    log('h%d')\n    return dds.eval(inner)\n\n" % (depth, depth)
                for i in range(depth - 1, 0, -1):
                    if via in ("call", "inherited"):
                        src += "def h%d():\n    log('h%d')\n    return h%d()\n\n" % (i, i, i + 1)
                    elif via == "callee":
                        src += "def h%d():\n    log('h%d')\n    return str(h%d()).upper()\n\n" % (i, i, i + 1)
                    else:
                        src += "def h%d():\n    log('h%d')\n    return dds.keep('/n%d', h%d)\n\n" % (i, i, i, i + 1)
                src += "def top():\n    log('top')\n    return %s\n" % ("str(h1()).upper()" if via == "callee" else "h1()")
                run_case(w, src, lambda m: dds.eval(m.top), "EVAL_IN_EVAL", "nested eval depth %d via %s" % (depth, via))
        # cycles and nested evals reached through names that are imported in the body of the function, wherever the import statement
        # stands: at the top of the body, in an exception handler (the fallback import), in an else / finally clause, under a case
        for place in ("body", "except", "else", "finally", "case", "with", "if"):
            ma, mb = w.unique("c11ia"), w.unique("c11ib")
            imp = "from %s import g" % mb
            stmts = {"body": "    %s\n" % imp,
                     "except": "    try:\n        import c11_no_such_module\n    except ImportError:\n        %s\n" % imp,
                     "else": "    try:\n        pass\n    except ImportError:\n        pass\n    else:\n        %s\n" % imp,
                     "finally": "    try:\n        pass\n    finally:\n        %s\n" % imp,
                     "case": "    match n:\n        case _:\n            %s\n" % imp,
                     "with": "    with open(__file__) as fh_:\n        %s\n" % imp,
                     "if": "    if n is not None:\n        %s\n" % imp}[place]
            w.write_module(mb, HEAD + "def g(n=0):\n    log('g')\n    from %s import f\n    return f(n)\n" % ma)
            src_a = HEAD + "def f(n=0):\n    log('f')\n" + stmts + "    return g(n)\n\ndef top():\n    log('top')\n    return f(1)\n"
            moda = w.write_module(ma, src_a)
            inner._cache["preexisting"] = "v"
            snap = (dict(inner._cache), dict(inner._paths))
            execlog.clear()
            try:
                v = dds.eval(moda.top)
                out = ("returned", repr(v)[:60])
            except DDSException as e:
                out = ("dds_error", e.error_code.name if e.error_code is not None else None)
            except BaseException as e:
                out = ("exc", type(e).__name__ + ": " + str(e)[:80])
            ws.reset_dds_state()
            log_ = execlog.snapshot()
            changed = (dict(inner._cache), dict(inner._paths)) != snap
            res.evaluations += 1
            res.count("cycles_through_in_body_imports")
            res.nontrivial("cycle through an in-body import, %s" % place)
            if out != ("dds_error", "CIRCULAR_CALL") or log_ or changed:
                res.violations.append({"what": "ill-formed evaluation (CIRCULAR_CALL expected): two modules whose functions call each other through imports made in the "
                                               "function bodies (the import statement stands in: %s): outcome %s, user functions executed %s, store changed %s" % (place, out, log_[:6], changed),
                                       "input": {"case": "cycle through in-body imports", "place": place, "module_a": src_a}, "kf": None})
            inner._cache.clear()
            inner._paths.clear()
        # a nested eval that the analysis cannot see (it sits in a library that is not accepted, or dds.eval is handed over as a value):
        # it is found when it runs, and is rejected with the same code - also when the user code around it has the usual best-effort
        # handler (except Exception), which must not turn the rejection into a result. (Found at run time: the clause 'nothing
        # runs' cannot apply here, only the outcome is compared.)
        libname = w.unique("c11lib")
        w.write_module(libname, "import dds\n\ndef run_nested(f):\n    return dds.eval(f)\n\ndef guarded(runner, f):\n    try:\n        return runner(f)\n"
                                "    except Exception:\n        return None\n\ndef attempt(f):\n    try:\n        return f()\n    except Exception as e:\n        return None\n", accept=False)
        for guard in ("none", "except_exception", "library_guard", "eval_as_value", "finally"):
            src = HEAD + "import %s as lib\n\ndef inner():\n    log('inner')\n    return 'i'\n\n" % libname
            body = {"none": "    r = lib.run_nested(inner)\n",
                    "except_exception": "    try:\n        r = lib.run_nested(inner)\n    except Exception:\n        r = None\n",
                    "library_guard": "    r = lib.guarded(lib.run_nested, inner)\n",
                    "eval_as_value": "    r = lib.guarded(dds.eval, inner)\n",
                    "finally": "    r = None\n    try:\n        r = lib.run_nested(inner)\n    except (ValueError, RuntimeError, KeyError):\n        r = 'handled'\n    finally:\n        log('cleanup')\n"}[guard]
            src += "def step():\n    log('step')\n" + body + "    return (41, r)\n\ndef top():\n    log('top')\n    return dds.keep('/rt/step', step)\n"
            modname = w.unique("c11m")
            mod = w.write_module(modname, src)
            execlog.clear()
            try:
                v = dds.eval(mod.top)
                out = ("returned", repr(v))
            except DDSException as e:
                out = ("dds_error", e.error_code.name if e.error_code is not None else None)
            except BaseException as e:
                out = ("exc", type(e).__name__ + ": " + str(e)[:80])
            ws.reset_dds_state()
            committed = dict(inner._paths)
            res.evaluations += 1
            res.count("nested_eval_found_at_run_time")
            res.nontrivial("nested eval found at run time, handler %s" % guard)
            if out != ("dds_error", "EVAL_IN_EVAL") or "/rt/step" in committed:
                res.violations.append({
                    "what": "an evaluation that nests dds.eval inside a library that is not accepted (handler around it: %s) is not rejected with EVAL_IN_EVAL: "
                            "outcome %s, paths committed %s" % (guard, out, sorted(committed)),
                    "input": {"case": "nested eval found at run time", "handler": guard, "source": src}, "kf": None})
            inner._cache.clear()
            inner._paths.clear()
        res.sample({"program": src, "expected": "EVAL_IN_EVAL"})
    res.rule = ("unit: every ordered list of <= 2 (quick: sampled 3) distinct paths over segments {f,g,fg,x} (depth <= 3) plus %d random lists "
                "of 3..6 paths; end to end: path sets x call orders x placements {flat, helper, inside a kept function}; cycles of length "
                "1..4 through {plain call, keep, higher-order reference, method call on a fresh object, method call on an object built first} x entry {eval, keep}; nested eval at depth 1..4 via "
                "{call, keep}; distinct = distinct path list / program shape" % (20000 if thorough else 3000))
    uniq = {}
    for v in res.violations:
        uniq.setdefault(v["what"][:40] + json.dumps(v["input"])[:80], v)
    res.violations = sorted(uniq.values(), key=lambda v: len(json.dumps(v["input"])))
    return res
