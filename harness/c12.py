"""C12 - the in-memory object cache is invisible and bounded.

Correspondence: the same operation sequence is run on (a) the bare store, (b) LRUCacheStore over a
second store of the same kind, (c) the Lean dictionary, (d) the Lean LRU wrapper; all four output
streams must be equal (lock step), and the cache size of the real wrapper must follow the model's.
Property oracle (implementation only): (a) == (b) at every step; never more than `capacity` cached
objects (entries of the cache, and live fetched objects counted through weak references).
"""
import gc
import json
import shutil
import sys
import tempfile
import weakref

from . import common

DESIGN_REF = "DESIGN.md §5 C12"
ASSUMPTIONS = ["blob values are opaque picklable objects or None; object identity is not compared, only equality"]


class Obj(object):
    """an opaque, weak-referenceable, picklable blob value"""
    def __init__(self, n):
        self.n = n
        self.closed = False

    def close(self):
        """a resource-like value (a connection, a buffer, a generator): once closed it is of no use to whoever holds it"""
        self.closed = True

    def __eq__(self, o):
        return isinstance(o, Obj) and o.n == self.n

    def __hash__(self):
        return hash(self.n)

    def __repr__(self):
        return "Obj(%d)" % self.n


KEYS = ["kpresent", "kabsent", "klater", "knone", "k5", "k6"]
PATHS = ["/p1", "/d/p2", "/p3"]


def gen_ops(rng, n):
    ops = [["store", "kpresent", 1], ["store", "knone", None]]
    vcount = [10]
    for _ in range(n):
        r = rng.random()
        k = rng.choice(KEYS)
        if r < 0.30:
            ops.append(["fetch", k])
        elif r < 0.55:
            ops.append(["has", k])
        elif r < 0.80:
            if k == "kabsent":
                k = "klater"
            if k == "knone" or rng.random() < 0.15:
                ops.append(["store", k, None])
            else:
                vcount[0] += 1
                ops.append(["store", k, vcount[0] if rng.random() < 0.6 else 1])
        elif r < 0.90:
            ps = rng.sample(PATHS, rng.choice([1, 2]))
            ops.append(["sync", [[p, rng.choice(KEYS)] for p in ps]])
        else:
            ops.append(["fetch_paths", [rng.choice(PATHS) for _ in range(rng.choice([1, 2]))]])
    # directed: a path goes from one key to another and back (an edit and its revert), then is resolved
    p = rng.choice(PATHS)
    ops += [["sync", [[p, "kpresent"]]], ["sync", [[p, "k5"]]], ["sync", [[p, "kpresent"]]], ["fetch_paths", [p]]]
    return ops


def apply_op(store, op, DDSException, keep_refs=None, hold=None):
    from collections import OrderedDict
    kind = op[0]
    try:
        if kind == "store":
            store.store_blob(op[1], None if op[2] is None else Obj(op[2]), None)
            return "unit"
        if kind == "has":
            return bool(store.has_blob(op[1]))
        if kind == "fetch":
            v = store.fetch_blob(op[1])
            if v is not None and keep_refs is not None:
                keep_refs.append(weakref.ref(v))
            if v is not None and hold is not None:
                hold.append(v)       # the program goes on using what it fetched
            return {"val": None if v is None else v.n, "closed": bool(getattr(v, "closed", False))}
        if kind == "sync":
            store.sync_paths(OrderedDict([(p, k) for (p, k) in op[1]]))
            return "unit"
        if kind == "fetch_paths":
            r = store.fetch_paths(list(op[1]))
            return {"paths": [[p, k] for (p, k) in r.items()]}
    except DDSException:
        return "err"
    except BaseException as e:
        return "EXC:" + type(e).__name__
    raise ValueError(kind)


def run(ctx):
    res = common.Result()
    rng = ctx["rng"]
    common.import_dds()
    from dds.store import MemoryStore, LocalFileStore
    from dds._lru_store import LRUCacheStore
    from dds.structures import DDSException
    import dds._api as api
    thorough = ctx["tier"] == "thorough"
    caps = [1, 2, 3, 10, sys.maxsize // 2]
    nseq = 400 if thorough else 80
    maxlen = 200 if thorough else 30
    reqs, meta = [], []
    tmpdirs = []

    def mk(kind):
        if kind == "memory":
            return MemoryStore()
        d = tempfile.mkdtemp(prefix="ddsverif_c12_")
        tmpdirs.append(d)
        return LocalFileStore(d + "/internal", d + "/data")

    try:
        for i in range(nseq):
            kind = "memory" if i % 3 else "local"
            cap = caps[i % len(caps)]
            ops = gen_ops(rng, rng.randint(3, maxlen))
            # every fourth sequence: the caller keeps (strongly) every object it fetched, as a program that goes on using its data
            # does; the first of them is directed: a key is fetched, evicted, stored again with another content and fetched
            held = [] if i % 4 == 1 else None
            if i == 1 or i == 5:
                ops = [["store", "k5", 11], ["fetch", "k5"], ["store", "k6", 12], ["fetch", "k6"], ["store", "klater", 14], ["fetch", "klater"],
                       ["store", "k5", 13], ["fetch", "k5"], ["has", "k5"]] + ops
            if ctx.get("replay") and i == 0:
                rp = json.load(open(ctx["replay"]))
                inp = rp.get("violation", {}).get("input") or {}
                if "ops" in inp:
                    ops, cap, kind = inp["ops"], inp.get("capacity", cap), inp.get("inner", kind)
                    held = [] if inp.get("fetched_objects_kept_by_the_caller") else None
            if kind == "local":
                # fetch_paths on the local store resolves links; keep sync targets to stored keys only
                ops = [op for op in ops if op[0] not in ("sync", "fetch_paths")]
            bare = mk(kind)
            wrapped = LRUCacheStore(mk(kind), num_elem=cap)
            refs = []
            outs_b, outs_w, sizes = [], [], []
            first_bad = None
            for j, op in enumerate(ops):
                ob = apply_op(bare, op, DDSException)
                ow = apply_op(wrapped, op, DDSException, keep_refs=refs if (kind == "local" and held is None) else None, hold=held)
                outs_b.append(ob)
                outs_w.append(ow)
                sz = len(wrapped._cache._cache) if hasattr(getattr(wrapped, "_cache", None), "_cache") else None
                sizes.append(sz)
                if first_bad is None and (ob != ow or (isinstance(ow, str) and ow.startswith("EXC:"))):
                    first_bad = ("answers differ at op %d %s: bare %s, wrapped %s" % (j, op, ob, ow), j)
                if first_bad is None and sz is not None and sz > cap:
                    first_bad = ("cache holds %d entries, capacity %d, after op %d" % (sz, cap, j), j)
                if first_bad is None and kind == "local" and held is None and j % 7 == 6:
                    gc.collect()
                    alive = len({id(o) for o in (r() for r in refs) if o is not None})
                    if alive > cap:
                        first_bad = ("%d fetched objects are still alive, capacity %d, after op %d" % (alive, cap, j), j)
            if first_bad is None and held is not None and any(getattr(o, "closed", False) for o in held):
                first_bad = ("an object that the caller fetched and still holds has been closed by the store", len(ops) - 1)
            res.evaluations += 1
            res.count("inner_" + kind)
            res.count("ops", len(ops))
            res.nontrivial("%s cap%d %s" % (kind, cap, json.dumps(ops)))
            if first_bad is not None:
                res.violations.append({"what": "wrapped store is not transparent/bounded: " + first_bad[0],
                                       "input": {"inner": kind, "capacity": cap, "ops": ops[: first_bad[1] + 1],
                                                 "fetched_objects_kept_by_the_caller": held is not None}, "kf": None})
            reqs.append({"op": "storeops", "kind": "dict", "ops": ops})
            unflag = lambda outs: [dict((k_, v_) for (k_, v_) in o.items() if k_ != "closed") if isinstance(o, dict) else o for o in outs]
            meta.append(("bare " + kind, ops, unflag(outs_b), None))
            reqs.append({"op": "storeops", "kind": "lru", "cap": cap, "ops": ops})
            meta.append(("wrapped " + kind, ops, unflag(outs_w), sizes))
            if i < 2:
                res.sample({"inner": kind, "capacity": cap, "ops": ops[:12], "bare": outs_b[:12], "wrapped": outs_w[:12]})
    finally:
        for d in tmpdirs:
            shutil.rmtree(d, ignore_errors=True)
    # stores configured through dds.set_store, twice in one process with the same arguments: the second store starts empty (a new
    # memory store / a wiped directory), and so must its cache
    import os
    for i in range(40 if thorough else 12):
        kind = "memory" if i % 2 else "local"
        cap = caps[i % len(caps)]
        ops1 = gen_ops(rng, rng.randint(3, 15))
        # the second store is first asked about every key the first one may have seen
        ops2 = [["has", k] for k in KEYS] + [["fetch", k] for k in KEYS] + gen_ops(rng, rng.randint(3, 15))[2:]
        if kind == "local":
            ops1 = [op for op in ops1 if op[0] not in ("sync", "fetch_paths")]
            ops2 = [op for op in ops2 if op[0] not in ("sync", "fetch_paths")]
        d = tempfile.mkdtemp(prefix="ddsverif_c12s_")
        try:
            args = ("memory", None, None, None, None, cap) if kind == "memory" else ("local", d + "/internal", d + "/data", None, None, cap)
            api._store_var = None
            api.set_store(*args)
            w1 = api._store()
            for op in ops1:
                apply_op(w1, op, DDSException)
            if kind == "local":
                shutil.rmtree(d, ignore_errors=True)
                os.makedirs(d)
            api.set_store(*args)
            w2 = api._store()
            bare = MemoryStore() if kind == "memory" else LocalFileStore(d + "/internal_b", d + "/data_b")
            res.evaluations += 1
            res.count("set_store_twice_" + kind)
            res.nontrivial("twice %s cap%d %s %s" % (kind, cap, json.dumps(ops1), json.dumps(ops2)))
            for j, op in enumerate(ops2):
                ob = apply_op(bare, op, DDSException)
                ow = apply_op(w2, op, DDSException)
                if ob != ow:
                    res.violations.append({"what": "a store configured by a second dds.set_store call with the same arguments is not transparent: "
                                                   "op %d %s answers %s on the bare store, %s through the cache" % (j, op, ob, ow),
                                           "input": {"inner": kind, "capacity": cap, "ops_first_store": ops1, "ops": ops2[: j + 1], "via": "set_store twice"}, "kf": None})
                    break
        finally:
            api._store_var = None
            shutil.rmtree(d, ignore_errors=True)
    # objects without value semantics over the memory store: compared by identity (no __eq__), or impossible to copy (they hold
    # a lock): what the wrapper hands out on every fetch is what the bare store hands out - the stored object itself
    import threading

    class Plain(object):
        pass

    class Holder(object):
        def __init__(self):
            self.lock = threading.Lock()
    for i, cap in enumerate(caps):
        for mk_obj in (Plain, Holder, object):
            bare, wrapped = MemoryStore(), LRUCacheStore(MemoryStore(), num_elem=cap)
            objs = {"ka": mk_obj(), "kb": mk_obj()}
            res.evaluations += 1
            res.nontrivial("identity %s cap %d" % (mk_obj.__name__, cap))
            bad = None
            for st in (bare, wrapped):
                for k_, o_ in objs.items():
                    st.store_blob(k_, o_, None)
            for rnd in range(3):
                for k_, o_ in objs.items():
                    outs = []
                    for st in (bare, wrapped):
                        try:
                            got = st.fetch_blob(k_)
                            outs.append("the stored object" if got is o_ else "another object (%s)" % type(got).__name__)
                        except BaseException as e:
                            outs.append("EXC:" + type(e).__name__)
                    if outs[0] != outs[1] and bad is None:
                        bad = "fetch number %d of key %s (a %s instance) gives %s on the bare memory store, %s through the cache" % (rnd + 1, k_, mk_obj.__name__, outs[0], outs[1])
            if bad:
                res.violations.append({"what": bad, "input": {"inner": "memory", "capacity": cap, "ops": [["store", "ka"], ["store", "kb"], ["fetch", "ka"], ["fetch", "kb"]] * 2,
                                                             "values": mk_obj.__name__ + " instances"}, "kf": None})
    # path operations over the local store (not part of the lock step with the model above): several spellings of one path
    # ('/d/p2', '/d/p2/', '/d//p2' are one link for the local store), and a second handle on the same directories re-pointing a
    # path behind the cache's back: the wrapper answers what the bare store answers
    SPELL = {"/p1": ["/p1", "/p1/", "//p1"], "/d/p2": ["/d/p2", "/d/p2/", "/d//p2"], "/p3": ["/p3", "/p3/"]}
    for i in range(60 if thorough else 16):
        cap = caps[i % len(caps)]
        d = tempfile.mkdtemp(prefix="ddsverif_c12p_")
        try:
            bare = LocalFileStore(d + "/bi", d + "/bd")
            wrapped = LRUCacheStore(LocalFileStore(d + "/wi", d + "/wd"), num_elem=cap)
            other = LocalFileStore(d + "/wi", d + "/wd")          # a second handle on the wrapped store's directories
            other_b = LocalFileStore(d + "/bi", d + "/bd")
            for k in ("k1", "k2", "k3"):
                for st in (bare, wrapped):
                    st.store_blob(k, Obj(1), None)
            ops = []
            # the first sequences are fixed: a path committed, then moved under another spelling / through the second handle, then
            # resolved under each spelling
            DIRECTED = [
                [["sync", [["/p1", "k1"]], False], ["sync", [["/p1/", "k2"]], False], ["fetch_paths", ["/p1"], False], ["fetch_paths", ["//p1"], False]],
                [["sync", [["/d/p2", "k1"]], False], ["sync", [["/d/p2", "k3"]], True], ["fetch_paths", ["/d/p2"], False], ["fetch_paths", ["/d//p2"], False]],
                [["sync", [["/d//p2", "k2"]], False], ["fetch_paths", ["/d/p2"], False], ["sync", [["/d/p2/", "k1"]], False], ["fetch_paths", ["/d//p2"], False],
                 ["fetch_paths", ["/d/p2"], False]],
                [["sync", [["/p3", "k1"]], True], ["fetch_paths", ["/p3/"], False], ["sync", [["/p3/", "k2"]], False], ["sync", [["/p3", "k3"]], True],
                 ["fetch_paths", ["/p3/"], False], ["fetch_paths", ["/p3"], False]],
            ]
            if i < len(DIRECTED):
                ops = [list(o) for o in DIRECTED[i]]
            for _ in range(rng.randint(4, 14) if i >= len(DIRECTED) else 0):
                p = rng.choice(sorted(SPELL))
                r = rng.random()
                if r < 0.45:
                    ops.append(["sync", [[rng.choice(SPELL[p]), rng.choice(["k1", "k2", "k3"])]], rng.random() < 0.3])
                else:
                    ops.append(["fetch_paths", [rng.choice(SPELL[p])], False])
            res.evaluations += 1
            res.count("local_path_sequences")
            res.nontrivial("paths %d %s" % (cap, json.dumps(ops)))
            for j, (kind, arg, behind) in enumerate(ops):
                op = [kind, arg]
                # 'behind': the commit goes through the second handle (another process), not through the wrapper
                ob = apply_op(other_b if behind else bare, op, DDSException)
                ow = apply_op(other if behind else wrapped, op, DDSException)
                if ob != ow:
                    res.violations.append({"what": "path operation %d %s%s answers %s on the bare local store, %s through the cache" % (
                        j, op, " (committed through a second handle on the same directories)" if behind else "", ob, ow),
                        "input": {"inner": "local", "capacity": cap, "ops": [[k_, a_, "second handle" if b_ else "wrapper"] for (k_, a_, b_) in ops[: j + 1]]}, "kf": None})
                    break
        finally:
            shutil.rmtree(d, ignore_errors=True)
    # the capacity chosen by set_store(cache_objects=...)
    copts = [None, False, True, 0, -1, 1, 5, 10 ** 6]
    for c in copts:
        api._store_var = None
        try:
            api.set_store("memory", None, None, None, None, c)
            st = api._store()
            got = st._num_elem if isinstance(st, LRUCacheStore) else None
        except BaseException as e:
            got = "EXC:" + type(e).__name__
        reqs.append({"op": "cacheopt", "v": c if (c is None or isinstance(c, bool)) else str(c)})
        meta.append(("cacheopt %r" % (c,), None, None if got is None else str(got), None))
        res.evaluations += 1
    api._store_var = None
    if ctx["driver_ok"]:
        ans = common.drv_batch(reqs)
        for rq, (what, ops, outs, sizes), a in zip(reqs, meta, ans):
            if ops is None:
                if a.get("ok") != outs:
                    res.disagreements.append({"what": "set_store(cache_objects) differs from the model", "case": what, "impl": outs, "model": a})
                continue
            if a.get("ok") != outs:
                j = next((i for i, (x, y) in enumerate(zip(a.get("ok", []), outs)) if x != y), None)
                res.disagreements.append({"what": "%s store differs from the model at op %s" % (what, j), "ops": ops[: (j or 0) + 1],
                                          "impl": outs[: (j or 0) + 1], "model": (a.get("ok") or [])[: (j or 0) + 1]})
            elif sizes is not None and all(s is not None for s in sizes) and a.get("sizes") != sizes:
                res.disagreements.append({"what": "cache size of the real wrapper differs from the model", "ops": ops, "impl": sizes, "model": a.get("sizes")})
    res.rule = ("%d seeded operation sequences (3..%d ops of store/has/fetch/sync/fetch_paths) over keys {present, absent, stored-later, "
                "None-valued, re-stored} x capacities %s x inner {memory, local}; lock step bare vs wrapped vs model; distinct = distinct "
                "(inner, capacity, sequence)" % (nseq, maxlen, caps))
    # shrink: keep the shortest failing sequence
    res.violations.sort(key=lambda v: len(v["input"]["ops"]))
    res.violations = res.violations[:3]
    return res
