"""C13 - a kept call's signature depends on the argument binding, not on its spelling.

Correspondence: `get_arg_ctx` / `get_arg_ctx_ast` on generated functions vs the Lean `getArgCtx` /
`getArgCtxAst` (bytes of every per-parameter hash, error kinds), and the end-to-end signature of the
kept leaf function vs the model's `buildReturnSig`.
Property oracle (implementation only): for every generated function and binding, the signature of the
kept path is the same for every spelling on both routes (direct call, call seen in source), and
different for bindings that differ beyond the documented identifications (bool = int).
"""
import ast
import inspect
import itertools
import json

from . import common, ws
import dataclasses
import typing
from .c05 import jv, sint, fbits

DESIGN_REF = "DESIGN.md §5 C13"
ASSUMPTIONS = ["parameters are positional-or-keyword (the supported subset); literals are ast.Constant nodes "
               "(a negative number is an expression, not a literal)"]

NAMES = ["a", "b", "c", "d"]
# ints, bools and floats that compare equal in Python (1 == 1.0 == True) are different bindings for dds (bool = int only)
# ... and two strings that are different values but the same text after Unicode normalisation
VALUES = [0, 1, "", "a", None, False, True, 2, "__none__", 1.0, 0.0, 2.0, 1.5, "caf\u00e9", "cafe\u0301"]
DEFAULTS = [0, "", False, None, 1, "a", 1.0, 0.0]


@dataclasses.dataclass
class Settings(object):
    name: str
    threshold: float = dataclasses.field(default=0.5, init=False)
    instances: typing.ClassVar[int] = 0

    def __post_init__(self):
        Settings.instances += 1


def enc(v):
    if v is None:
        return jv("none")
    if isinstance(v, bool):
        return jv("bool", v)
    if isinstance(v, int):
        return jv("int", sint(v))
    if isinstance(v, float):
        return jv("float", fbits(v))
    if isinstance(v, str):
        return jv("str", v)
    raise ValueError(v)


def doc_key(v):
    """documented identification: bool = int"""
    if isinstance(v, bool):
        return ("i", int(v))
    if isinstance(v, int):
        return ("i", v)
    if isinstance(v, float):
        return ("f", fbits(v))
    if v is None:
        return ("none",)
    return ("s", v)


def gen_functions(rng, thorough):
    """parameter lists: n params, the last k have defaults"""
    out = []
    for n in range(1, 5):
        for k in range(0, n + 1):
            combos = list(itertools.product(DEFAULTS, repeat=k))
            rng.shuffle(combos)
            for ds in combos[: (6 if thorough else 2) if k else 1]:
                out.append([(NAMES[i], (ds[i - (n - k)] if i >= n - k else inspect.Parameter.empty)) for i in range(n)])
    return out


def spellings(params, binding):
    """all spellings (positional prefix, keyword rest in two orders, omission where the default is bound)"""
    n = len(params)
    res = []
    for npos in range(n + 1):
        rest = list(range(npos, n))
        omittable = [i for i in rest if params[i][1] is not inspect.Parameter.empty
                     and type(params[i][1]) is type(binding[i]) and params[i][1] == binding[i]]
        for r in range(len(omittable) + 1):
            for om in itertools.combinations(omittable, r):
                kws = [i for i in rest if i not in om]
                if any(params[i][1] is inspect.Parameter.empty for i in om):
                    continue
                for order in ([kws] if len(kws) < 2 else [kws, kws[::-1]]):
                    res.append(([binding[i] for i in range(npos)], [(params[i][0], binding[i]) for i in order]))
    return res


def render_fun(fname, params):
    ps = ", ".join(n if d is inspect.Parameter.empty else "%s=%r" % (n, d) for (n, d) in params)
    return "def %s(%s):\n    return 'r'\n" % (fname, ps)


def render_call(args, kwargs):
    return ", ".join([repr(a) for a in args] + ["%s=%r" % (k, v) for (k, v) in kwargs])


def params_json(f):
    out = []
    for n, p in inspect.signature(f).parameters.items():
        out.append({"name": n, "kind": p.kind.name,
                    "default": None if p.default is inspect.Parameter.empty else enc(p.default)})
    return out


def run(ctx):
    res = common.Result()
    rng = ctx["rng"]
    dds = common.import_dds()
    from dds.fun_args import get_arg_ctx, get_arg_ctx_ast
    from dds.structures import DDSException
    import dds._config as cfg
    from collections import OrderedDict
    thorough = ctx["tier"] == "thorough"
    maxlen = int(cfg.get_option("hash.max_sequence_size"))
    funs = gen_functions(rng, thorough)
    reqs = []      # driver requests
    expect = []    # (description, impl result)

    def impl_ctx(fn):
        try:
            r = fn()
            named = r.named_args if hasattr(r, "named_args") else r
            return ("ok", [[k, v] for (k, v) in named.items()])
        except DDSException as e:
            return ("err", e.error_code.name if e.error_code is not None else "MISSING_ARG")
        except NotImplementedError:
            return ("err", "NotImplementedError")
        except BaseException as e:
            return ("exc", type(e).__name__)

    store = ws.recording_store()
    dds.set_store(store)
    with ws.Workspace("c13") as w:
        def process(fi, params, modname, rewrite=False):
            n = len(params)
            # bindings: the all-default one (when possible), plus random ones
            bindings = []
            if all(d is not inspect.Parameter.empty for (_, d) in params):
                bindings.append([d for (_, d) in params])
            for _ in range(8 if thorough else 4):
                b = []
                for (nm, d) in params:
                    if d is not inspect.Parameter.empty and rng.random() < 0.4:
                        b.append(d)
                    else:
                        b.append(rng.choice(VALUES))
                bindings.append(b)
            # a binding that differs from the first in exactly one parameter
            b0 = list(bindings[0])
            i = rng.randrange(n)
            b0[i] = rng.choice([v for v in VALUES if doc_key(v) != doc_key(b0[i])])
            bindings.append(b0)
            # two bindings that differ, in one parameter, by strings that a text normalisation would identify
            for tw in ("caf\u00e9", "cafe\u0301"):
                bt = list(bindings[0])
                bt[i] = tw
                bindings.append(bt)
            uniq, seen_b = [], set()
            for b in bindings:
                kb = repr(b)               # type-aware: [1], [1.0] and [True] are three bindings
                if kb not in seen_b:
                    seen_b.add(kb)
                    uniq.append(b)
            bindings = uniq
            src = "import dds\n\n" + render_fun("f", params) + "\n"
            tops = []
            for bi, b in enumerate(bindings):
                for si, (args, kwargs) in enumerate(spellings(params, b)):
                    tname = "top_%d_%d" % (bi, si)
                    src += "def %s():\n    return dds.keep('/p', f, %s)\n\n" % (tname, render_call(args, kwargs))
                    tops.append((bi, si, tname, args, kwargs))
            mod = w.rewrite_module(modname, src) if rewrite else w.write_module(modname, src)
            f = mod.f
            lines = inspect.getsource(f).split("\n")
            pj = params_json(f)
            sigs = {}   # binding index -> {(route, spelling) : sig}
            for (bi, si, tname, args, kwargs) in tops:
                b = bindings[bi]
                # unit level: both routes of fun_args
                r_direct = impl_ctx(lambda: get_arg_ctx(f, tuple(args), dict(kwargs)))
                nodes = [ast.parse(repr(a), mode="eval").body for a in args]
                kwn = OrderedDict([(k, ast.parse(repr(v), mode="eval").body) for (k, v) in kwargs])
                r_ast = impl_ctx(lambda: get_arg_ctx_ast(f, nodes, kwn))
                base = {"params": pj, "max": maxlen, "args": [enc(a) for a in args],
                        "kwargs": [[k, enc(v)] for (k, v) in kwargs]}
                reqs.append(dict(base, op="argctx", route="direct"))
                expect.append(("get_arg_ctx", tname, r_direct))
                reqs.append(dict(base, op="argctx", route="ast"))
                expect.append(("get_arg_ctx_ast", tname, r_ast))
                # end to end, direct route
                for route in ("direct", "source"):
                    store.synced.clear()
                    try:
                        if route == "direct":
                            dds.keep("/p", f, *args, **dict(kwargs))
                        else:
                            dds.eval(getattr(mod, tname))
                        sig = store.synced[-1]["/p"]
                    except BaseException as e:
                        sig = "EXC:" + type(e).__name__
                        ws.reset_dds_state()
                    sigs.setdefault(bi, {})[(route, si)] = sig
                    res.evaluations += 1
                    if route == "direct":
                        reqs.append(dict(base, op="leafsig", route="direct", lines=lines))
                        expect.append(("leafsig", tname, ("ok", sig)))
                res.count("spellings")
            res.count("functions")
            res.count("bindings", len(bindings))
            # property oracle
            for bi, d in sigs.items():
                vals = set(d.values())
                res.nontrivial("f%d b%d %d spellings" % (fi, bi, len(d)))
                if len(vals) > 1 or any(v.startswith("EXC:") for v in vals):
                    items = sorted(d.items())
                    first = items[0]
                    other = [it for it in items if it[1] != first[1]]
                    other = other[0] if other else first
                    tt = {(t[0], t[1]): t for t in tops}

                    def show(it):
                        (route, si), sig = it
                        t = tt[(bi, si)]
                        return {"route": route, "call": "f(%s)" % render_call(t[3], t[4]), "signature": sig}
                    res.violations.append({
                        "what": "one binding, two signatures: spellings of the same parameter binding get different signatures",
                        "input": {"function": render_fun("f", params), "binding": dict(zip([p[0] for p in params], map(repr, bindings[bi]))),
                                  "spelling_1": show(first), "spelling_2": show(other)},
                        "kf": None})
            keys = {}
            for bi, d in sigs.items():
                k = tuple(doc_key(v) for v in bindings[bi])
                for sig in set(d.values()):
                    if sig.startswith("EXC:"):
                        continue
                    if sig in keys and keys[sig][0] != k:
                        res.violations.append({
                            "what": "two different bindings share one signature",
                            "input": {"function": render_fun("f", params), "binding_1": list(map(repr, keys[sig][1])),
                                      "binding_2": list(map(repr, bindings[bi])), "signature": sig},
                            "kf": None})
                    keys.setdefault(sig, (k, bindings[bi]))
            if fi == 0 or fi == len(funs) // 2:
                res.sample({"function": render_fun("f", params), "bindings": [list(map(repr, b)) for b in bindings[:3]],
                            "spellings_of_first": ["f(%s)" % render_call(a, k) for (a, k) in spellings(params, bindings[0])][:8]})

        def edited(params):
            """the same function after an edit of its parameter list: a changed default, a new default, or two parameters swapped"""
            ps = [list(p) for p in params]
            with_d = [i for i, (_, d) in enumerate(ps) if d is not inspect.Parameter.empty]
            r = rng.random()
            if with_d and r < 0.6:
                i = rng.choice(with_d)
                ps[i][1] = rng.choice([d for d in DEFAULTS if doc_key(d) != doc_key(ps[i][1])])
            elif len(ps) >= 2 and r < 0.8:
                i = rng.randrange(len(ps) - 1)
                ps[i][0], ps[i + 1][0] = ps[i + 1][0], ps[i][0]
            else:
                ps[-1][1] = rng.choice(DEFAULTS)
            return [tuple(p) for p in ps]

        for fi, params in enumerate(funs):
            modname = w.unique("c13m")
            process(fi, params, modname)
            if fi % 3 == 0:
                # the parameter list is edited and the module reloaded in the same process: the same checks on the new version
                res.count("functions_edited_and_reloaded")
                process(fi, edited(params), modname, rewrite=True)
    # arguments written with a unary operator (+1, -1, ~1, not 3): expressions for the parser, not literals - each call must get
    # the value plain Python computes, and calls with different values must not share a signature
    with ws.Workspace("c13u") as w:
        exprs = ["+1", "-1", "~1", "-2", "not 3", "+0.5", "-0.5", "-(1)", "1", "2", "+2", "~0", "not 0", "-0.5 + 1"]
        src = "import dds\n\ndef f(a, b=0):\n    return repr((a, b))\n\n"
        for i, e in enumerate(exprs):
            src += "def u_top_%d():\n    return dds.keep('/u%d', f, %s)\n\n" % (i, i, e)
            src += "def k_top_%d():\n    return dds.keep('/k%d', f, 7, b=%s)\n\n" % (i, i, e)
        mod = w.write_module(w.unique("c13u"), src)
        seen_sig = {}
        for i, e in enumerate(exprs):
            val = eval(e)
            for kind, want in (("u", repr((val, 0))), ("k", repr((7, val)))):
                store.synced.clear()
                try:
                    got = dds.eval(getattr(mod, "%s_top_%d" % (kind, i)))
                    sig = store.synced[-1]["/%s%d" % (kind, i)]
                except BaseException as ex:
                    got, sig = "EXC:" + type(ex).__name__ + ":" + str(ex)[:80], None
                    ws.reset_dds_state()
                res.evaluations += 1
                res.nontrivial("unary %s %s" % (kind, e))
                call = "f(%s)" % e if kind == "u" else "f(7, b=%s)" % e
                if got != want:
                    res.violations.append({"what": "a kept call with the argument expression %s returned %r, plain execution gives %r" % (e, got, want),
                                           "input": {"function": "def f(a, b=0): return repr((a, b))", "call": call}, "kf": None})
                    continue
                key = (kind, doc_key(val) if not isinstance(val, float) else ("float", val))
                prev = seen_sig.get((kind, sig))
                if prev is not None and prev[0] != key:
                    res.violations.append({"what": "two different bindings share one signature",
                                           "input": {"function": "def f(a, b=0): return repr((a, b))", "call_1": prev[1], "call_2": call, "signature": sig}, "kf": None})
                seen_sig.setdefault((kind, sig), (key, call))
    # container arguments whose keys differ in type only ({2020: x} / {'2020': x}), or in order of insertion: different bindings
    with ws.Workspace("c13d") as w:
        from collections import OrderedDict as _OD
        tables = [{2020: 0.2}, {"2020": 0.2}, {None: 1}, {"None": 1}, {(1, 2): 1}, {"(1, 2)": 1}, {1.5: "a"}, {"1.5": "a"},
                  {"a": 1, "b": 2}, {"b": 2, "a": 1}, {"a": [1, 2]}, {"a": [1, 3], "b": None}, {0: "z"}, {"0": "z"}]
        # (an OrderedDict with the items of a dict in the same order, and a list of pairs, are documented identifications / known
        # findings of C05: not used here)
        src = "import dds\n\ndef f(table, k=0):\n    return repr((type(table).__name__, [(repr(a), repr(b)) for (a, b) in (table.items() if hasattr(table, 'items') else table)], k))\n"
        mod = w.write_module(w.unique("c13d"), src)
        seen_t = {}
        for ti, t in enumerate(tables):
            for spelling in ("pos", "kw"):
                store.synced.clear()
                try:
                    got = dds.keep("/t%d" % ti, mod.f, t) if spelling == "pos" else dds.keep("/t%d" % ti, mod.f, table=t, k=0)
                    sig = store.synced[-1]["/t%d" % ti]
                except BaseException as ex:
                    got, sig = "EXC:" + type(ex).__name__ + ":" + str(ex)[:80], None
                    ws.reset_dds_state()
                res.evaluations += 1
                res.nontrivial("table %d %s" % (ti, spelling))
                want = mod.f(t)
                if got != want:
                    res.violations.append({"what": "a kept call with the argument %r returned %r, plain execution gives %r" % (t, got, want),
                                           "input": {"function": src, "argument": repr(t), "spelling": spelling}, "kf": None})
                    continue
                prev = seen_t.get(sig)
                if prev is not None and prev != ti and repr(tables[prev]) != repr(t):
                    # (documented identification: a list of pairs is not a dict; dict order matters for dds_hash)
                    res.violations.append({"what": "two different bindings share one signature",
                                           "input": {"function": src, "argument_1": repr(tables[prev]), "argument_2": repr(t), "signature": sig}, "kf": None})
                seen_t.setdefault(sig, ti)
    # dataclass arguments that differ only in a field that is not an argument of the constructor (init=False, set on the object
    # afterwards) or only in the class of the value: different bindings; a class variable is no part of the value
    with ws.Workspace("c13e") as w:
        a1, a2, a3 = Settings("m"), Settings("m"), Settings("m")
        a2.threshold = 0.9
        a3.threshold = 0.5
        # (a dataclass of another class with the same fields and values hashes alike: the known finding C05-KF3, not used here)
        cfgs = [("threshold 0.5", a1), ("threshold 0.9", a2), ("threshold 0.5 again", a3)]
        src = "import dds\n\ndef f(cfg, k=0):\n    return repr((cfg, cfg.threshold, k))\n"
        mod = w.write_module(w.unique("c13e"), src)
        sigs = {}
        for ci, (what, cfg) in enumerate(cfgs):
            store.synced.clear()
            try:
                got = dds.keep("/cfg%d" % ci, mod.f, cfg)
                sig = store.synced[-1]["/cfg%d" % ci]
            except BaseException as ex:
                got, sig = "EXC:" + type(ex).__name__ + ":" + str(ex)[:80], None
                ws.reset_dds_state()
            res.evaluations += 1
            res.nontrivial("dataclass argument " + what)
            want = mod.f(cfg)
            if got != want:
                res.violations.append({"what": "a kept call with the dataclass argument %r (%s) returned %r, plain execution gives %r" % (cfg, what, got, want),
                                       "input": {"function": src, "argument": repr(cfg), "threshold": cfg.threshold}, "kf": None})
            sigs[what] = sig
        if sigs.get("threshold 0.5") is not None and sigs["threshold 0.5"] == sigs.get("threshold 0.9"):
            res.violations.append({"what": "two dataclass arguments that differ in a field that is not an argument of the constructor (init=False) share one signature",
                                   "input": {"function": src, "argument_1": "Settings('m') with threshold 0.5", "argument_2": "Settings('m') with threshold 0.9"}, "kf": None})
        if sigs.get("threshold 0.5") != sigs.get("threshold 0.5 again"):
            res.violations.append({"what": "two equal dataclass arguments (built one after the other: the class counts its instances in a class variable) get two signatures",
                                   "input": {"function": src, "argument": "Settings('m')"}, "kf": None})
    # the callee is a class that has methods but no __init__ of its own (a dataclass, a typing.NamedTuple): its arguments are the
    # binding like those of a function - different arguments, different signatures and the object of plain execution
    with ws.Workspace("c13f") as w:
        src = ("import dds\nimport dataclasses\nimport typing\n\n"
               "@dataclasses.dataclass\nclass Cfg(object):\n    rate: int\n    depth: int = 2\n\n    def total(self):\n        return self.rate * self.depth\n\n"
               "class Pt(typing.NamedTuple):\n    x: int\n    y: int = 0\n\n    def norm(self):\n        return abs(self.x) + abs(self.y)\n")
        mod = w.write_module(w.unique("c13f"), src)
        for cname, calls in (("Cfg", [((1,), {}), ((3,), {}), ((1,), {"depth": 4}), ((), {"rate": 1}), ((1, 2), {})]),
                             ("Pt", [((1,), {}), ((3,), {}), ((1,), {"y": 4}), ((), {"x": 1}), ((1, 0), {})])):
            cls_ = getattr(mod, cname)
            by_sig = {}
            for ci, (a_, k_) in enumerate(calls):
                store.synced.clear()
                pth = "/obj_%s_%d" % (cname, ci)
                try:
                    got = dds.keep(pth, cls_, *a_, **k_)
                    sig = store.synced[-1][pth]
                except BaseException as ex:
                    got, sig = "EXC:" + type(ex).__name__ + ":" + str(ex)[:80], None
                    ws.reset_dds_state()
                res.evaluations += 1
                res.nontrivial("class callee %s %d" % (cname, ci))
                want = cls_(*a_, **k_)
                if isinstance(got, str) and got.startswith("EXC:DDSException"):
                    res.count("class_callee_refused")
                    continue
                if got != want:
                    res.violations.append({"what": "a kept call of the class %s with the arguments %r %r returned %r, plain execution gives %r" % (cname, a_, k_, got, want),
                                           "input": {"classes": src, "callee": cname, "args": repr(a_), "kwargs": repr(k_)}, "kf": None})
                    continue
                prev = by_sig.get(sig)
                if prev is not None and prev != want:
                    res.violations.append({"what": "two calls of the class %s that bind different values (%r and %r) share one signature" % (cname, prev, want),
                                           "input": {"classes": src, "callee": cname, "signature": sig}, "kf": None})
                by_sig.setdefault(sig, want)
    # unsupported parameter kinds (unit level only)
    ns = {}
    exec("def g1(a, *rest):\n    return 1\ndef g2(a, *, k=1):\n    return 1\ndef g3(a, **kw):\n    return 1\n", ns)
    for gname in ("g1", "g2", "g3"):
        g = ns[gname]
        for args, kwargs in [((1,), {}), ((), {"a": 1}), ((1, 2), {"k": 3})]:
            r_direct = impl_ctx(lambda: get_arg_ctx(g, tuple(args), dict(kwargs)))
            reqs.append({"op": "argctx", "route": "direct", "params": params_json(g), "max": maxlen,
                         "args": [enc(a) for a in args], "kwargs": [[k, enc(v)] for (k, v) in kwargs.items()]})
            expect.append(("get_arg_ctx", gname, r_direct))
            res.evaluations += 1
    # a call seen in source whose callee collects the remaining positional arguments (*rest): the analysis accepts it, so two
    # calls that bind different tuples to `rest` must not share a signature (correspondence on the per-parameter hashes too)
    for args in [(1,), (1, 2), (1, 2, 3), (1, 2, 4), (1, 3, 2), (1, 2, 3, 0), (1, "2", 3)]:
        nodes = [ast.parse(repr(a), mode="eval").body for a in args]
        r_ast = impl_ctx(lambda: get_arg_ctx_ast(ns["g1"], nodes, OrderedDict()))
        reqs.append({"op": "argctx", "route": "ast", "params": params_json(ns["g1"]), "max": maxlen,
                     "args": [enc(a) for a in args], "kwargs": []})
        expect.append(("get_arg_ctx_ast", "g1" + repr(args), r_ast))
        res.evaluations += 1
    import os
    import shutil
    import sys
    import tempfile
    base = tempfile.mkdtemp(prefix="ddsverif_c13v_")
    pkg = "c13v_%d" % os.getpid()
    try:
        os.makedirs(os.path.join(base, pkg))
        open(os.path.join(base, pkg, "__init__.py"), "w").close()
        calls = ["1", "1, 2", "1, 2, 3", "1, 2, 4", "1, 3, 2", "1, 2, 3, 0"]
        # ... and sequence literals as the one argument: nesting is part of the value ((1, (2, 3)) is not (1, 2, 3))
        calls += ["(1, (2, 3))", "(1, 2, 3)", "[[1], [2, 3]]", "((1, 2), 3)", "((1,), 2, 3)", "[1, 2, 3, []]"]
        src = "import dds\n\ndef g(a, *rest):\n    return repr((a, rest))\n\n" + "".join(
            "def top_%d():\n    return dds.keep('/v%d', g, %s)\n\n" % (i, i, c) for i, c in enumerate(calls))
        with open(os.path.join(base, pkg, "va.py"), "w") as fh:
            fh.write(src)
        sys.path.insert(0, base)
        dds.accept_module(pkg)
        import importlib
        modv = importlib.import_module(pkg + ".va")
        seen_v = {}
        for i, c in enumerate(calls):
            store.synced.clear()
            want = repr(eval("(lambda a, *rest: (a, rest))(%s)" % c))
            try:
                got = dds.eval(getattr(modv, "top_%d" % i))
                sig = store.synced[-1]["/v%d" % i]
            except BaseException as e:
                # refused: outside the supported subset, nothing to check
                res.count("var_positional_refused(%s)" % type(e).__name__)
                ws.reset_dds_state()
                continue
            res.evaluations += 1
            res.count("var_positional_calls")
            res.nontrivial("varpos " + c)
            if got != want:
                res.violations.append({"what": "a call g(%s) of def g(a, *rest) kept inside an evaluated function returns %r, plain execution %r" % (c, got, want),
                                       "input": {"function": src, "call": c}, "kf": None})
            prev = seen_v.get(sig)
            if prev is not None and prev != c:
                res.violations.append({"what": "two different bindings share one signature", "input": {"function": src, "argument_1": prev,
                                                                                                       "argument_2": c, "signature": sig}, "kf": None})
            seen_v.setdefault(sig, c)
    finally:
        if base in sys.path:
            sys.path.remove(base)
        for k in list(sys.modules):
            if k.split(".")[0] == pkg:
                del sys.modules[k]
        shutil.rmtree(base, ignore_errors=True)
    # model vs implementation
    if ctx["driver_ok"]:
        answers = common.drv_batch(reqs)
        for rq, (what, tname, impl), m in zip(reqs, expect, answers):
            res.evaluations += 1
            if "ok" in m:
                mm = ("ok", m["ok"])
            elif "err" in m:
                mm = ("err", m["err"])
            else:
                mm = ("bad", json.dumps(m))
            if impl[0] == "exc" and mm == ("err", "AssertionError"):
                continue
            if list(mm) != [impl[0], impl[1]]:
                res.disagreements.append({"what": "%s differs from the model" % what, "request": rq, "impl": impl, "model": mm})
            res.count("compared_" + what)
    res.rule = ("%d generated functions (1-4 parameters, every number of trailing defaults, defaults from %r) x bindings over %r "
                "(all-default, random, one-parameter variations) x every spelling (positional prefix, keywords in two orders, "
                "omitted defaults) x {direct call, call seen in source}; a case is one (function, binding) with its set of spellings"
                % (len(funs), DEFAULTS, VALUES))
    uniqv = {}
    for v in res.violations:
        k = v["what"][:30] + json.dumps(v["input"].get("function"))
        uniqv.setdefault(k, v)
    res.violations = sorted(uniqv.values(), key=lambda v: len(json.dumps(v["input"])))
    return res
