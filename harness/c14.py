"""C14 - exactly the accepted modules are tracked.

Correspondence: `EvalMainContext.is_authorized_path` vs the Lean `isAuthorizedPath` over
(depth 1..6) x (accepted prefix at each depth, or none) x (1..40 accepted packages).
Property oracle (implementation only, end to end): a function in a package nested 1..6 deep, accepted
through a prefix at each depth with few or many other accepted packages, is evaluated; editing an
accepted helper changes its signature, editing a non-accepted module does not; a data function of a
non-accepted module is refused with an error naming the module and is not executed.
"""
import importlib
import json
import os
import sys
from pathlib import PurePosixPath

from . import common, ws

DESIGN_REF = "DESIGN.md §5 C14"
ASSUMPTIONS = ["import forms covered end to end: `import pkg.sub.mod` + attribute access, `from pkg.sub import mod`, "
               "`from mod import f`; name resolution itself (ObjectRetrieval) is exercised, not modelled"]

EXEC_LOG = []


def run_object_kinds(ctx, res, dds):
    """which objects of an accepted module are tracked (model: Dds.objTracking): `_is_authorized_type` against the model for every
    kind of type x the four settings of the two container options, then end to end: a variable of each kind read by a kept function
    is edited under each setting - its signature changes exactly when the model tracks the kind; and `accept_module` given a module
    OBJECT accepts that module, not the package around it."""
    import collections
    import datetime
    import decimal
    import pathlib
    import types
    from dds import _config as cfg
    from dds._eval_ctx import EvalMainContext
    from dds._retrieve_objects import _is_authorized_type
    from dds.structures import DDSException, FunctionInteractions
    from dds.introspect import _accepted_packages
    before = set(_accepted_packages)
    nomod = type("NoMod", (), {"__module__": "c14_no_such_module_xyz"})
    kinds = [("scalar", t) for t in (int, float, str, bytes, bool, type(None), pathlib.PurePosixPath, datetime.datetime, datetime.date,
                                     datetime.time, datetime.timedelta, datetime.timezone)]
    kinds += [("tuple", tuple), ("function", types.FunctionType), ("module", types.ModuleType), ("list", list), ("dict", dict),
              ("dict", collections.OrderedDict), ("noModule", nomod), ("ofAccepted", FunctionInteractions),
              ("ofForeign", decimal.Decimal), ("ofForeign", collections.Counter), ("ofForeign", pathlib.PosixPath), ("ofForeign", set), ("ofForeign", frozenset)]
    g = EvalMainContext(None, {"dds", "__main__", "__global__"}, {}, {})
    reqs, impl = [], []
    settings = [(True, True), (False, True), (True, False), (False, False), (True, True)]
    try:
        for (al, ad) in settings:
            cfg.set_option("accept_list", al)
            cfg.set_option("accept_dict", ad)
            for (kind, tpe) in kinds:
                try:
                    r = "tracked" if _is_authorized_type(tpe, g) else "ignored"
                except DDSException:
                    r = "refused"
                except BaseException as e:
                    r = "crash %s" % type(e).__name__
                reqs.append({"op": "objkind", "accept_list": al, "accept_dict": ad, "kind": kind, "type": getattr(tpe, "__name__", str(tpe))})
                impl.append(r)
                res.evaluations += 1
                res.count("object_kind_cases")
                res.nontrivial("objkind %s %s %s" % (tpe.__name__, al, ad))
        if ctx["driver_ok"]:
            for rq, a, r in zip(reqs, common.drv_batch(reqs), impl):
                if a.get("ok") != r:
                    res.disagreements.append({"what": "_is_authorized_type differs from the model (objTracking)", "request": rq, "impl": r, "model": a})
        # scalars, tuples, functions and modules are tracked whatever the options (theorem options_govern_containers_only)
        for rq, r in zip(reqs, impl):
            if rq["kind"] in ("scalar", "tuple", "function", "module") and r != "tracked":
                res.violations.append({"what": "objects of type %s of an accepted module are %s with accept_list=%s accept_dict=%s: the container options govern "
                                               "lists and dicts only" % (rq["type"], r, rq["accept_list"], rq["accept_dict"]), "input": rq, "kf": None})
        # ---- end to end
        store = ws.recording_store()
        dds.set_store(store)
        lits = {"tuple": lambda v: "(1, %d)" % v, "list": lambda v: "[1, %d]" % v, "dict": lambda v: "{'a': %d}" % v, "scalar": lambda v: "%d" % v,
                "nested_tuple": lambda v: "((1, %d), 'x')" % v}
        model_kind = {"nested_tuple": "tuple"}
        with ws.Workspace("c14k") as w:
            for (al, ad) in settings[:4]:
                cfg.set_option("accept_list", al)
                cfg.set_option("accept_dict", ad)
                for kname in sorted(lits):
                    root = w.unique("c14v")
                    src = lambda v: "import dds\n\nSHAPE = %s\n\ndef top():\n    return '%s' + str(SHAPE)\n" % (lits[kname](v), root)
                    mod = [w.write_module(root, src(2), accept=True)]
                    path = "/pv_" + root

                    def sig():
                        store.synced.clear()
                        try:
                            v = dds.keep(path, mod[0].top)
                            return ("ok", store.synced[-1][path], v)
                        except BaseException as e:
                            ws.reset_dds_state()
                            return ("exc", type(e).__name__, str(e)[:160])
                    s1 = sig()
                    mod[0] = w.rewrite_module(root, src(40))
                    s2 = sig()
                    res.evaluations += 2
                    res.count("e2e_object_kind_edits")
                    res.nontrivial("e2e objkind %s %s %s" % (kname, al, ad))
                    mk = model_kind.get(kname, kname)
                    tracked = mk in ("scalar", "tuple") or (mk == "list" and al) or (mk == "dict" and ad)
                    inp = {"accept_list": al, "accept_dict": ad, "module": src(2), "edit": "SHAPE = " + lits[kname](40)}
                    if s1[0] != "ok" or s2[0] != "ok":
                        res.violations.append({"what": "a kept function reading a module-level %s fails under accept_list=%s accept_dict=%s: %s / %s" % (kname, al, ad, s1, s2),
                                               "input": inp, "kf": None})
                    elif tracked and (s1[1] == s2[1] or s2[2] != root + str(eval(lits[kname](40)))):
                        res.violations.append({"what": "a module-level %s of an accepted module is edited (accept_list=%s accept_dict=%s): the kept function that reads it keeps "
                                                       "its signature / serves the old value: %s -> %s" % (kname, al, ad, s1, s2), "input": inp, "kf": None})
                    elif (not tracked) and s1[1] != s2[1]:
                        res.violations.append({"what": "a module-level %s is not tracked under accept_list=%s accept_dict=%s, yet its edit changed a signature: %s -> %s" % (
                            kname, al, ad, s1, s2), "input": inp, "kf": None})
            cfg.reset_option("accept_list")
            cfg.reset_option("accept_dict")
            # accept_module(<module object>): the module itself is accepted, not the package it lives in
            for depth in (1, 2, 3):
                for p_ in list(_accepted_packages):
                    if p_ not in before:
                        _accepted_packages.discard(p_)
                root = w.unique("c14mo")
                pk = ".".join([root] + ["etl%d" % i for i in range(1, depth)])
                vsrc = lambda v: "def rate():\n    return %d\n" % v
                w.write_module(pk + ".vendor", vsrc(3), accept=False)
                msrc = "import dds\nfrom %s import vendor\n\ndef own():\n    return 1\n\ndef top():\n    return own() + vendor.rate()\n" % pk
                pm = [w.write_module(pk + ".pipeline", msrc, accept=False)]
                dds.accept_module(pm[0])
                path = "/pmo_" + root

                def sigm():
                    store.synced.clear()
                    try:
                        v = dds.keep(path, pm[0].top)
                        return ("ok", store.synced[-1][path], v)
                    except BaseException as e:
                        ws.reset_dds_state()
                        return ("exc", type(e).__name__, str(e)[:160])
                m1 = sigm()
                w.rewrite_module(pk + ".vendor", vsrc(9))
                pm[0] = w.rewrite_module(pk + ".pipeline", msrc)
                m2 = sigm()
                res.evaluations += 2
                res.count("e2e_accept_module_object")
                res.nontrivial("accept_module(object) depth %d" % depth)
                added = sorted(str(p_) for p_ in set(_accepted_packages) - before)
                if m1[0] != "ok" or m2[0] != "ok" or m1[1] != m2[1] or added != [pk + ".pipeline"]:
                    res.violations.append({"what": "dds.accept_module(<module object %s>) accepted %s; editing the sibling module %s.vendor, which was never accepted, "
                                                   "gives %s -> %s (the signature must not move)" % ((pk + ".pipeline").replace(root, "ROOT"), [a.replace(root, "ROOT") for a in added],
                                                                                                    pk.replace(root, "ROOT"), m1, m2),
                                           "input": {"accepted_by_object": (pk + ".pipeline").replace(root, "ROOT"), "caller": msrc.replace(root, "ROOT")}, "kf": None})
    except BaseException as e:
        res.violations.append({"what": "the object-kind stratum failed: %s: %s" % (type(e).__name__, str(e)[:300]), "input": {}, "kf": None})
    finally:
        cfg.reset_option("accept_list")
        cfg.reset_option("accept_dict")
        for p_ in list(_accepted_packages):
            if p_ not in before:
                _accepted_packages.discard(p_)


def run(ctx):
    res = common.Result()
    rng = ctx["rng"]
    dds = common.import_dds()
    from dds._eval_ctx import EvalMainContext
    from dds.structures import CanonicalPath, DDSException
    from dds.introspect import _accepted_packages
    thorough = ctx["tier"] == "thorough"
    # ---- unit level -------------------------------------------------------------------------
    reqs, impl, spec, cases = [], [], [], []
    segs = ["p", "q", "r", "s", "t", "u"]
    counts = [0, 1, 2, 3, 5, 10, 39] if not thorough else list(range(0, 40))
    for depth in range(1, 7):
        parts = segs[:depth] + ["f"]
        for k in [None] + list(range(1, depth + 2)):
            for n_other in counts:
                for builtin in (True, False):
                    A = (["dds", "__main__", "__global__"] if builtin else [])
                    A = A + ["other%d.sub" % i for i in range(n_other)]
                    if k is not None:
                        A = A + [".".join(parts[:k])]
                    if rng.random() < 0.3:
                        A = A + [".".join(parts[:depth]) + "x"]      # a near miss: not a prefix
                    if not A:
                        continue
                    g = EvalMainContext(None, set(A), {}, {})
                    r = bool(g.is_authorized_path(CanonicalPath(PurePosixPath("/".join(parts)))))
                    want = any(".".join(parts[:i]) in set(A) for i in range(0, len(parts) + 1))
                    reqs.append({"op": "auth", "accepted": A, "parts": parts})
                    impl.append(r)
                    spec.append(want)
                    cases.append({"parts": parts, "accepted_prefix_depth": k, "n_accepted": len(A)})
                    res.evaluations += 1
                    res.nontrivial("d%d k%s n%d" % (depth, k, len(A)))
                    if r != want:
                        res.violations.append({
                            "what": "is_authorized_path is %s but %s" % (r, "a prefix of the path is accepted" if want else "no prefix is accepted"),
                            "input": {"parts": parts, "accepted": A}, "kf": None})
    if ctx["driver_ok"]:
        ans = common.drv_batch(reqs)
        for rq, a, r in zip(reqs, ans, impl):
            if a.get("ok") != r:
                res.disagreements.append({"what": "is_authorized_path differs from the model", "request": rq, "impl": r, "model": a})
    res.sample(cases[len(cases) // 2])
    # ---- end to end -------------------------------------------------------------------------
    store = ws.recording_store()
    dds.set_store(store)
    before = set(_accepted_packages)
    e2e = [(d, k, n) for d in range(1, 7) for k in range(1, d + 1) for n in ([0, 3] if not thorough else [0, 1, 3, 10, 37])]
    if not thorough:
        e2e = [c for c in e2e if c[1] in (1, c[0])] + [(6, 3, 0), (5, 4, 3)]
    forms = ["same_module", "from_import", "import_dotted", "local_import"]
    with ws.Workspace("c14") as w:
        for (depth, k, n_other) in e2e:
            form = forms[(depth + k + n_other) % 4]
            root = w.unique("c14p")
            pk = [root] + ["s%d" % i for i in range(2, depth + 1)]     # package directories
            modname = ".".join(pk + ["m"])
            helpmod = ".".join(pk + ["hm"])
            extname = w.unique("c14ext")
            w.write_module(extname, "import dds\nfrom harness.c14 import EXEC_LOG\n\ndef e():\n    return 'e1'\n\n"
                                    "@dds.data_function('/q_ext')\ndef dq():\n    EXEC_LOG.append('dq')\n    return 'dq'\n", accept=False)

            hv = [1]      # the value of the tracked variable HV of the helper module
            # the helper function and its variable are named plainly, or like Python built-ins (which they then hide)
            hn, vn = [("h", "HV"), ("filter", "format"), ("input", "max"), ("h", "type")][(depth + 2 * k + n_other) % 4]

            def helper_src(v):
                return "%s = %d\n\ndef %s():\n    return 'h%d'\n" % (vn, hv[0], hn, v)

            def main_src(v):
                # the helper's function h and its variable HV are reached in the same way (name / from-import / dotted attribute)
                if form == "same_module":
                    return ("import dds\nimport %s as ext\n\n%s\ndef top():\n    return %s() + ext.e() + str(%s)\n" % (extname, helper_src(v), hn, vn))
                if form == "from_import":
                    return ("import dds\nimport %s as ext\nfrom %s import %s, %s\n\ndef top():\n    return %s() + ext.e() + str(%s)\n" % (extname, helpmod, hn, vn, hn, vn))
                if form == "local_import":
                    # the accepted helper module is imported inside the function only (its name is not a global of the module)
                    return ("import dds\nimport %s as ext\n\ndef top():\n    import %s\n    return %s.%s() + ext.e() + str(%s.%s)\n" % (
                        extname, helpmod, helpmod, hn, helpmod, vn))
                return ("import dds\nimport %s as ext\nimport %s\n\ndef top():\n    return %s.%s() + ext.e() + str(%s.%s)\n" % (extname, helpmod, helpmod, hn, helpmod, vn))
            # accept exactly: prefix of depth k (+ n_other unrelated packages)
            for p in list(_accepted_packages):
                if p not in before:
                    _accepted_packages.discard(p)
            for i in range(n_other):
                dds.accept_module("zz_other_%d.sub" % i)
            # the accepted prefix is registered after (or before) one of its own sub-modules: the order of registration and
            # redundant entries must not matter
            sub_first = (depth + n_other + k) % 2 == 0
            if sub_first:
                dds.accept_module(".".join(pk[:k]) + ".zsub")
            dds.accept_module(".".join(pk[:k]))
            if not sub_first:
                dds.accept_module(".".join(pk[:k]) + ".zsub")
            w.write_module(helpmod, helper_src(1), accept=False)
            mod = w.write_module(modname, main_src(1), accept=False)
            case = {"package_depth": depth, "accepted_prefix": ".".join(pk[:k]).replace(root, "ROOT"), "n_accepted": len(_accepted_packages),
                    "import_form": form, "sub_module_registered": "before" if sub_first else "after",
                    "helper_names": [hn, vn]}
            res.evaluations += 1
            res.nontrivial(case)

            def sig_of():
                store.synced.clear()
                try:
                    v = dds.keep("/p", mod.top)
                    return ("ok", store.synced[-1]["/p"], v)
                except DDSException as e:
                    ws.reset_dds_state()
                    return ("dds_error", e.error_code.name if e.error_code else None, str(e)[:160])
                except BaseException as e:
                    ws.reset_dds_state()
                    return ("exc", type(e).__name__, str(e)[:160])
            s1 = sig_of()
            if s1[0] != "ok":
                res.violations.append({"what": "a function of an accepted package (accepted through a prefix of its module path) is not evaluated: %s" % (s1,),
                                       "input": case, "kf": None})
                continue
            # edit the accepted helper
            if form == "same_module":
                mod = w.rewrite_module(modname, main_src(2))
            else:
                w.rewrite_module(helpmod, helper_src(2))
                mod = w.rewrite_module(modname, main_src(2))
            s2 = sig_of()
            if s2[0] != "ok" or s2[1] == s1[1] or s2[2] != "h2e11":
                res.violations.append({"what": "editing a reachable function of an accepted module did not change the signature / value: %s -> %s" % (s1, s2),
                                       "input": case, "kf": None})
            # edit the tracked variable of the accepted helper module only
            hv[0] = 2
            if form != "same_module":
                w.rewrite_module(helpmod, helper_src(2))
            mod = w.rewrite_module(modname, main_src(2))
            s2v = sig_of()
            if s2v[0] != "ok" or s2v[1] == s2[1] or s2v[2] != "h2e12":
                res.violations.append({"what": "editing a tracked variable of an accepted module (read through: %s) did not change the signature / value: %s -> %s" % (form, s2, s2v),
                                       "input": case, "kf": None})
            s2 = s2v
            # edit the non-accepted module
            w.rewrite_module(extname, "import dds\nfrom harness.c14 import EXEC_LOG\n\ndef e():\n    return 'e2'\n\n"
                                      "@dds.data_function('/q_ext')\ndef dq():\n    EXEC_LOG.append('dq')\n    return 'dq'\n")
            mod = w.rewrite_module(modname, main_src(2))
            s3 = sig_of()
            if s3[0] != "ok" or s3[1] != s2[1]:
                res.violations.append({"what": "editing a non-accepted module changed the signature: %s -> %s" % (s2, s3),
                                       "input": case, "kf": None})
            # data function of the non-accepted module
            ext = sys.modules[extname]
            # (asked three times in the same process: a refusal must not wear off)
            for attempt in (1, 2, 3):
                del EXEC_LOG[:]
                try:
                    r = ext.dq()
                    out = ("returned", r)
                except DDSException as e:
                    out = ("dds_error", str(e))
                    ws.reset_dds_state()
                except BaseException as e:
                    out = ("exc", type(e).__name__ + ": " + str(e)[:100])
                    ws.reset_dds_state()
                if out[0] != "dds_error" or extname not in out[1] or EXEC_LOG:
                    res.violations.append({"what": "a data function of a non-accepted module is not refused with a DDS error naming the module (call number %d in the process): %s (executed: %s)" % (
                        attempt, out[:1] + (out[1][:120],), bool(EXEC_LOG)), "input": case, "kf": None})
                    break
            res.count("e2e_" + form)
        res.sample(case)
        # a package whose __init__ re-exports a function of one of its sub-modules; only the sub-package is accepted, and the caller
        # reaches the function through the package (import pkg; pkg.clean(...)): it is an object of an accepted module. (The variable
        # RATE re-exported next to it is, read as pkg.RATE, a variable of the non-accepted package: an edit of it changes nothing.)
        for facade_accepts in ("core", "core.steps"):
            for p in list(_accepted_packages):
                if p not in before:
                    _accepted_packages.discard(p)
            root = w.unique("c14f")
            import os as _os
            _os.makedirs(_os.path.join(w.dir, root, "core"))

            def steps_src(v, rate):
                return "RATE = %d\n\ndef clean(x):\n    return 'clean%d(%%s)' %% x\n" % (rate, v)
            with open(_os.path.join(w.dir, root, "core", "__init__.py"), "w") as fh:
                fh.write("")
            with open(_os.path.join(w.dir, root, "core", "steps.py"), "w") as fh:
                fh.write(steps_src(1, 1))
            with open(_os.path.join(w.dir, root, "__init__.py"), "w") as fh:
                fh.write("from .core.steps import clean, RATE\n")
            dds.accept_module(root + "." + facade_accepts)
            dds.accept_module(root + ".app")
            main_src = "import dds\nimport %s\nimport %s as pkg\n\ndef top():\n    return %s.clean(10) + pkg.clean(1)\n" % (root, root, root)
            mod = w.write_module(root + ".app", main_src, accept=False)
            case = {"facade_package": "ROOT/__init__.py: from .core.steps import clean, RATE", "accepted": ["ROOT." + facade_accepts, "ROOT.app"],
                    "caller": main_src.replace(root, "ROOT")}
            res.evaluations += 1
            res.nontrivial(case)
            res.count("e2e_facade")

            def sig_of_f():
                store.synced.clear()
                try:
                    v = dds.keep("/pf", mod.top)
                    return ("ok", store.synced[-1]["/pf"], v)
                except BaseException as e:
                    ws.reset_dds_state()
                    return ("exc", type(e).__name__, str(e)[:160])
            f1 = sig_of_f()
            w.rewrite_module(root + ".core.steps", steps_src(2, 1))
            importlib.reload(sys.modules[root])
            mod = w.rewrite_module(root + ".app", main_src)
            f2 = sig_of_f()
            w.rewrite_module(root + ".core.steps", steps_src(2, 5))
            importlib.reload(sys.modules[root])
            mod = w.rewrite_module(root + ".app", main_src)
            f3 = sig_of_f()
            if f1[0] != "ok" or f2[0] != "ok" or f3[0] != "ok":
                if not (f1[0] == f2[0] == f3[0] == "exc" and f1[1] == "DDSException"):
                    res.violations.append({"what": "a function reached through a package that re-exports it is not evaluated consistently: %s, %s, %s" % (f1, f2, f3), "input": case, "kf": None})
            elif f2[1] == f1[1] or f2[2] != "clean2(10)clean2(1)" or f3[1] != f2[1] or f3[2] != "clean2(10)clean2(1)":
                res.violations.append({"what": "editing a function / a variable of an accepted sub-module, reached through the package that re-exports them, did not change "
                                               "the signature / value: %s -> %s -> %s" % (f1, f2, f3), "input": case, "kf": None})
        # module names that extend an accepted name as strings without being its sub-modules (flows / flows_vendor): (1) a data
        # function of the non-accepted one, called from an accepted pipeline during an evaluation, is refused with a DDS error
        # naming the module and not run; (2) accepting the shorter name after the longer one leaves the longer one accepted
        for variant in ("extends_accepted_name", "unrelated_name"):
            for p in list(_accepted_packages):
                if p not in before:
                    _accepted_packages.discard(p)
            root = w.unique("c14s")
            vend = (root + "_vendor") if variant == "extends_accepted_name" else w.unique("c14v")
            w.write_module(vend, "import dds\nfrom harness.c14 import EXEC_LOG\n\n@dds.data_function('/vend/q')\ndef dq():\n    EXEC_LOG.append('dq')\n    return 'dq'\n", accept=False)
            dds.accept_module(root)
            modp = w.write_module(root, "import dds\nimport %s as vendor\n\ndef inner():\n    return 'inner'\n\ndef top():\n    return dds.keep('/s/inner', inner) + vendor.dq()\n" % vend, accept=False)
            case = {"accepted": ["ROOT"], "non_accepted_module": vend.replace(root, "ROOT"), "caller": "def top(): return dds.keep('/s/inner', inner) + vendor.dq()"}
            res.evaluations += 1
            res.nontrivial("nested refusal " + variant)
            res.count("e2e_nested_refusal")
            del EXEC_LOG[:]
            store.synced.clear()
            try:
                out = ("returned", dds.eval(modp.top))
            except DDSException as e:
                out = ("dds_error", str(e))
                ws.reset_dds_state()
            except BaseException as e:
                out = ("exc", type(e).__name__ + ": " + str(e)[:100])
                ws.reset_dds_state()
            if out[0] != "dds_error" or vend not in out[1] or EXEC_LOG or store.synced:
                res.violations.append({"what": "a data function of a non-accepted module (%s) called during an evaluation of accepted code is not refused with a DDS error "
                                               "naming the module: %s (its body ran: %s, paths committed: %s)" % (variant, out[:1] + (out[1][:160],), bool(EXEC_LOG), bool(store.synced)),
                                       "input": case, "kf": None})
        # a constant (int, str, float, bool) of a module that is not accepted, read through the module (settings.RATE) or imported by
        # name is not tracked by value: an edit of it changes no signature (only the accepted modules influence signatures)
        for p in list(_accepted_packages):
            if p not in before:
                _accepted_packages.discard(p)
        root = w.unique("c14k")
        extk = w.unique("c14kx")

        def extk_src(v):
            return "RATE = %d\nNAME = 'n%d'\nFLAG = %s\nRATIO = %d.5\n" % (v, v, v % 2 == 0, v)
        w.write_module(extk, extk_src(3), accept=False)
        dds.accept_module(root)
        main_k = ("import dds\nimport %s as settings\n\ndef top():\n    return 'k' + str(settings.RATE - settings.RATE) + str(len(settings.NAME)) + "
                  "str(settings.FLAG or not settings.FLAG) + str(settings.RATIO - settings.RATIO)\n" % extk)
        modk = w.write_module(root, main_k, accept=False)
        res.evaluations += 1
        res.nontrivial("constants of a non-accepted module")
        res.count("e2e_external_constants")

        def sig_k():
            store.synced.clear()
            try:
                v = dds.keep("/pk", modk.top)
                return ("ok", store.synced[-1]["/pk"], v)
            except BaseException as e:
                ws.reset_dds_state()
                return ("exc", type(e).__name__, str(e)[:160])
        k1 = sig_k()
        w.rewrite_module(extk, extk_src(4))
        modk = w.rewrite_module(root, main_k)
        k2 = sig_k()
        if k1[0] != "ok" or k2[0] != "ok" or k1[1] != k2[1]:
            res.violations.append({"what": "editing the constants of a non-accepted module (read as settings.RATE, settings.NAME, ...) changed the signature of an accepted "
                                           "function: %s -> %s" % (k1, k2), "input": {"non_accepted_module": extk_src(3), "caller": main_k.replace(extk, "EXT")}, "kf": None})
        # a tracked variable of an accepted module of which only an attribute or a method is used (conf.NAME.upper(),
        # pkg.conf.LIMIT.bit_length()): an edit of the variable changes the signature and the value
        for p in list(_accepted_packages):
            if p not in before:
                _accepted_packages.discard(p)
        root = w.unique("c14m")

        def conf_src(v):
            return "NAME = 'raw%d'\nLIMIT = %d\n" % (v, 2 ** v)
        dds.accept_module(root)
        w.write_module(root + ".settings.conf", conf_src(1), accept=False)
        main_m = ("import dds\nimport %s.settings.conf\nfrom %s.settings import conf\n\ndef top():\n    return conf.NAME.upper() + str(%s.settings.conf.LIMIT.bit_length())\n" % (root, root, root))
        modm = w.write_module(root + ".steps", main_m, accept=False)
        res.evaluations += 1
        res.nontrivial("attribute of a tracked variable")
        res.count("e2e_attribute_of_variable")

        def sig_m():
            store.synced.clear()
            try:
                v = dds.keep("/pm", modm.top)
                return ("ok", store.synced[-1]["/pm"], v)
            except BaseException as e:
                ws.reset_dds_state()
                return ("exc", type(e).__name__, str(e)[:160])
        m1 = sig_m()
        w.rewrite_module(root + ".settings.conf", conf_src(3))
        modm = w.rewrite_module(root + ".steps", main_m)
        m2 = sig_m()
        if m1[0] != "ok" or m2[0] != "ok" or m1[1] == m2[1] or m2[2] != "RAW34":
            res.violations.append({"what": "editing tracked variables of an accepted module of which only an attribute / a method is used (conf.NAME.upper(), "
                                           "pkg.settings.conf.LIMIT.bit_length()) did not change the signature / value: %s -> %s" % (m1, m2),
                                   "input": {"accepted": ["ROOT"], "caller": main_m.replace(root, "ROOT")}, "kf": None})
        for p in list(_accepted_packages):
            if p not in before:
                _accepted_packages.discard(p)
        root = w.unique("c14o")

        def steps_src(v):
            return "def h():\n    return 'h%d'\n" % v
        w.write_module(root + "_steps", steps_src(1), accept=False)
        dds.accept_module(root + "_steps")
        dds.accept_module(root)
        main_o = "import dds\nimport %s_steps as st\n\ndef top():\n    return st.h()\n" % root
        modo = w.write_module(root, main_o, accept=False)
        res.evaluations += 1
        res.nontrivial("acceptance order with prefix names")
        res.count("e2e_prefix_named_acceptance")

        def sig_o():
            store.synced.clear()
            try:
                v = dds.keep("/po", modo.top)
                return ("ok", store.synced[-1]["/po"], v)
            except BaseException as e:
                ws.reset_dds_state()
                return ("exc", type(e).__name__, str(e)[:160])
        o1 = sig_o()
        w.rewrite_module(root + "_steps", steps_src(2))
        modo = w.rewrite_module(root, main_o)
        o2 = sig_o()
        if o1[0] != "ok" or o2[0] != "ok" or o1[1] == o2[1] or o2[2] != "h2":
            res.violations.append({"what": "accept_module('X_steps') followed by accept_module('X'): an edit of a function of X_steps does not change the signature / value "
                                           "of its caller: %s -> %s" % (o1, o2), "input": {"accepted_in_order": ["ROOT_steps", "ROOT"], "caller": main_o.replace(root, "ROOT")}, "kf": None})
    # a package that registers itself (dds.accept_module(__name__) in its __init__): it is an accepted package from the moment it is
    # imported - at the top of the script, or for the first time while the function that imports it in its body is analysed. Every
    # run is a fresh process (a user running the script again) on one store; the function of the package is edited in between.
    import subprocess
    import tempfile
    import shutil
    SCRIPT = ("import sys, json\nsys.path.insert(0, %(repo)r)\nsys.path.insert(0, %(proj)r)\nimport dds\n%(top)s\n"
              "dds.set_store('local', internal_dir=%(si)r, data_dir=%(sd)r)\n\n"
              "def report():\n    import %(pk)s.model\n    return %(pk)s.model.score()\n\n"
              "def report_from():\n    from %(pk)s import model\n    return model.score()\n\n"
              "res = [dds.keep('/self/report', report), dds.keep('/self/report_from', report_from)]\n"
              "from dds.introspect import _accepted_packages\n"
              "print('RESULT ' + json.dumps({'res': res, 'accepted': %(pk)r in [str(p) for p in _accepted_packages]}))\n")
    for si_, top in enumerate(["import %(pk)s", "", "import json"]):
        proj = tempfile.mkdtemp(prefix="ddsverif_c14s_")
        pk = "c14self%d" % si_
        try:
            os.makedirs(os.path.join(proj, pk))
            with open(os.path.join(proj, pk, "__init__.py"), "w") as fh:
                fh.write("import dds\n\ndds.accept_module(__name__)\n\nfrom . import model\n")
            outs = []
            for v in (1, 2, 1):
                with open(os.path.join(proj, pk, "model.py"), "w") as fh:
                    fh.write("def score():\n    return 'score-v%d'\n" % v)
                shutil.rmtree(os.path.join(proj, pk, "__pycache__"), ignore_errors=True)
                with open(os.path.join(proj, "main.py"), "w") as fh:
                    fh.write(SCRIPT % {"repo": common.REPO, "proj": proj, "top": top % {"pk": pk}, "pk": pk,
                                       "si": os.path.join(proj, "si"), "sd": os.path.join(proj, "sd")})
                cp = subprocess.run([sys.executable, "-B", os.path.join(proj, "main.py")], capture_output=True, text=True, cwd=proj, timeout=300)
                lines = [l for l in cp.stdout.splitlines() if l.startswith("RESULT ")]
                outs.append(json.loads(lines[-1][7:]) if lines else {"error": cp.stderr.strip().splitlines()[-1][:300] if cp.stderr.strip() else "no output"})
                res.evaluations += 1
                res.count("self_registering_package_runs")
                res.nontrivial("self-registering package %d v%d" % (si_, v))
            want = [["score-v%d" % v] * 2 for v in (1, 2, 1)]
            got = [o.get("res") for o in outs]
            if got != want or not all(o.get("accepted") for o in outs):
                res.violations.append({"what": "a package that accepts itself when imported (first import: %s): its function score() is edited v1, v2, v1 between three "
                                               "runs of the script; the kept callers return %s (accepted at the end of the runs: %s)" % (
                                                   "at the top of the script" if si_ == 0 else "in the body of the kept function, during its analysis", [o.get("res", o.get("error")) for o in outs],
                                                   [o.get("accepted") for o in outs]),
                                       "input": {"script": SCRIPT.replace("%(pk)s", pk), "top_import": top % {"pk": pk}, "package_init": "import dds; dds.accept_module(__name__); from . import model"},
                                       "kf": None})
        finally:
            shutil.rmtree(proj, ignore_errors=True)
    # accepted code reached through imports made in function bodies: the relative forms inside the __init__.py of a sub-package
    # (shared with the C01 check)
    run_object_kinds(ctx, res, dds)
    from . import c01s, pipeline
    c01s.run_imports_in_package_init(ctx, res, thorough)
    pipeline.close_ref()
    for p in list(_accepted_packages):
        if p not in before:
            _accepted_packages.discard(p)
    res.rule = ("unit: canonical paths of depth 1..6 x accepted prefix at every depth (or none, or a near miss) x 0..39 unrelated accepted "
                "packages x with/without the built-in entries; end to end: %d configurations (package depth, accepted prefix depth, number "
                "of other accepted packages, import form), each with an accepted edit, a non-accepted edit and a non-accepted data function; "
                "distinct = distinct configuration" % len(e2e))
    uniq = {}
    for v in res.violations:
        uniq.setdefault(v["what"][:50], v)
    res.violations = list(uniq.values())
    return res
