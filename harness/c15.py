"""C15 - restricting the stages makes an evaluation a side-effect-free dry run.

Correspondence: value, executed bodies, signatures, stored blobs and committed paths of restricted
runs agree with the Lean `evalStep` for the same stage list; the accepted spellings agree with
`parseStages`; the stage table is regenerated from the code (Generated/Facts.lean, theorem stage_table).
Property oracle (implementation only): analysis-only runs execute nothing, store nothing, commit
nothing; runs stopping before path_commit store blobs but leave every path as it was; signatures equal
those of the full run; a later full evaluation returns what plain execution gives.
"""
import json
import os

from . import common, hist, pipeline, progs

DESIGN_REF = "DESIGN.md §5 C15"
ASSUMPTIONS = ["dds_stages is only accepted by dds.eval"]
ORDER = ["analysis", "store_inspect", "eval", "store_commit", "path_commit"]


def spell(rng, names, ProcessingStage):
    out = []
    for n in names:
        r = rng.random()
        if r < 0.25:
            out.append(n)
        elif r < 0.5:
            out.append(n.upper())
        elif r < 0.7:
            out.append("".join(c.upper() if rng.random() < 0.5 else c for c in n))
        else:
            out.append(ProcessingStage[n.upper()])
    return out


def run(ctx):
    res = common.Result()
    rng = ctx["rng"]
    thorough = ctx["tier"] == "thorough"
    common.import_dds()
    from dds.structures import ProcessingStage
    nworlds = 80 if thorough else 16
    # the evaluated function is itself a data function (its own result has a signature and a path): a run that stops before the
    # path commit stores its blobs and commits nothing; the full run that follows finds every blob there and must still commit
    # every path of the pipeline (afterwards every path loads, with the value plain execution keeps there)
    for wi in range(12 if thorough else 4):
        w = progs.gen_world(rng, nfun=rng.randint(2, 5), allow=("call", "keep", "datafn"))
        w["funs"][0]["store_path"] = "/root/df0"
        store_kind = ["local", "memory", "local_lru"][wi % 3]
        with pipeline.Session(store_kind, tag="c15r") as s:
            s.set_world(w)
            entry = {"kind": "eval", "fun": "f0"}
            k = [4, 3][wi % 2]
            r0, rr0 = s.run(entry, {"stages": ORDER[:k]})
            r, rr = s.run(entry)
            res.evaluations += 2
            res.count("restricted_then_full_on_a_data_function")
            res.nontrivial("root data function %d %d" % (wi, k))
            if rr["error"] is not None:
                continue
            bad = None
            if r["error"] is not None or pipeline.norm_ext(r["value"]) != pipeline.norm_ext(rr["value"]):
                bad = "full evaluation returned %r (error %s), plain execution %r" % (r["value"], r["error"], rr["value"])
            else:
                for pth in sorted(r["paths"] or {}):
                    got = s.real.load_path(pth)
                    if got["error"] is not None:
                        bad = "path %s of the pipeline does not load after the full run: %s" % (pth, got["error"])
                        break
            if bad:
                res.violations.append({"what": "run restricted to %s, then the full run of a pipeline whose evaluated function is a data function: %s" % (ORDER[:k], bad),
                                       "input": {"stages": ORDER[:k], "store": store_kind, "source": progs.render_world(s.world, "extmod")}, "kf": None})
    # directed: a path kept and then loaded by another kept function of the same evaluation; a full run, an edit of what the
    # producer reads, then a run restricted to the stages before the path commit: it returns the values of the edited code (the
    # loads inside it read what this evaluation keeps, not what is committed), and the full run after it too
    real = pipeline.real_runner()
    ref = pipeline.ref_worker()
    import shutil
    import sys
    import tempfile
    for di in range(3):
        base = tempfile.mkdtemp(prefix="ddsverif_c15d_")
        pkg = "c15d_%d_%d" % (os.getpid(), di)
        try:
            real.reset_process_state()
            real.set_store(["local", "memory", "local_lru"][di], os.path.join(base, "si"), os.path.join(base, "sd"))
            ref.call(cmd="refpaths", paths={})
            for step, (v, stages) in enumerate([(1, None), (2, ORDER[:4]), (2, None), (3, ORDER[:3]), (3, None)]):
                src = ("import dds\nfrom ddsverif_rt import log, term\n\nV = %d\n\n"
                       "def a():\n    log('a')\n    return term('a', V)\n\n"
                       "def b():\n    log('b')\n    return term('b', dds.load('/s/a'))\n\n"
                       "def f0():\n    x = dds.keep('/s/a', a)\n    y = dds.keep('/s/b', b)\n    z = dds.load('/s/a')\n    return term('f0', x, y, z)\n" % v)
                os.makedirs(os.path.join(base, pkg), exist_ok=True)
                open(os.path.join(base, pkg, "__init__.py"), "w").close()
                with open(os.path.join(base, pkg, "main.py"), "w") as fh:
                    fh.write(src)
                real.load_world(base, pkg + ".main", None, accept=pkg)
                ref.call(cmd="world", dir=base, module=pkg + ".main", extmod=None)
                entry = {"kind": "eval", "fun": "f0"}
                rr = ref.call(cmd="run", entry=entry)
                r = real.run(entry, {"stages": stages} if stages else None)
                res.evaluations += 1
                res.count("directed_load_after_keep_steps")
                res.nontrivial("directed load %d %d" % (di, step))
                if rr.get("error") is None and (r["error"] is not None or r["value"] != rr["value"]):
                    res.violations.append({"what": "evaluation %s of a pipeline that loads a path it has just kept returns %r (error %s), plain execution of the "
                                                   "current code %r" % ("restricted to %s" % stages if stages else "(full)", r["value"], r["error"], rr["value"]),
                                           "input": {"source": src, "step": step, "stages": stages}, "kf": None})
                    break
        finally:
            shutil.rmtree(base, ignore_errors=True)
            for k in list(sys.modules):
                if k.split(".")[0] == pkg:
                    del sys.modules[k]
    # a reorganisation of the paths: what was kept at /pp/model is now kept below it (/pp/model/small), or what was kept below a
    # directory is now kept at the directory itself. A run of the new code restricted to stages before the path commit is a dry run:
    # the data directory is left exactly as it was and the old path still loads
    def tree(d):
        out = []
        for root_, dirs_, files_ in os.walk(d):
            for n_ in dirs_ + files_:
                p_ = os.path.join(root_, n_)
                out.append((os.path.relpath(p_, d), os.readlink(p_) if os.path.islink(p_) else ("dir" if os.path.isdir(p_) else "file")))
        return sorted(out)
    for di, (old_path, new_path) in enumerate([("/pp/model", "/pp/model/small"), ("/pp/report/2024/q1", "/pp/report"), ("/pp/model", "/fresh/dir/below/model")]):
        for store_kind in ("local", "local_lru"):
            base = tempfile.mkdtemp(prefix="ddsverif_c15p_")
            pkg = "c15p_%d_%d_%s" % (os.getpid(), di, store_kind)
            try:
                real.reset_process_state()
                real.set_store(store_kind, os.path.join(base, "si"), os.path.join(base, "sd"))
                tmpl = ("import dds\nfrom ddsverif_rt import log, term\n\n"
                        "def m():\n    log('m')\n    return term('m', %r)\n\ndef f0():\n    return term('f0', dds.keep(%r, m))\n")
                os.makedirs(os.path.join(base, pkg), exist_ok=True)
                open(os.path.join(base, pkg, "__init__.py"), "w").close()
                with open(os.path.join(base, pkg, "main.py"), "w") as fh:
                    fh.write(tmpl % ("v1", old_path))
                real.load_world(base, pkg + ".main", None, accept=pkg)
                r1 = real.run({"kind": "eval", "fun": "f0"})
                with open(os.path.join(base, pkg, "main.py"), "w") as fh:
                    fh.write(tmpl % ("v2", new_path))
                real.load_world(base, pkg + ".main", None, accept=pkg)
                for k in range(0, 5):
                    before = tree(os.path.join(base, "sd"))
                    r = real.run({"kind": "eval", "fun": "f0"}, {"stages": ORDER[:k]})
                    after = tree(os.path.join(base, "sd"))
                    lv = real.load_path(old_path)
                    res.evaluations += 1
                    res.count("directed_reorganised_paths_steps")
                    res.nontrivial("reorganised paths %d %s %d" % (di, store_kind, k))
                    bad = None
                    if r1["error"] is not None:
                        bad = "the first evaluation failed: %s" % (r1["error"],)
                    elif before != after:
                        bad = "the data directory changed: %s" % (sorted(set(before) ^ set(after)),)
                    elif lv.get("error") is not None or lv.get("value") != "m(v1)":
                        bad = "the path %s committed earlier now loads as %s" % (old_path, lv)
                    if bad:
                        res.violations.append({"what": "a run restricted to the stages %s of a pipeline that now keeps %s where %s was committed is not a dry run: %s" % (
                            ORDER[:k], new_path, old_path, bad), "input": {"old_path": old_path, "new_path": new_path, "stages": ORDER[:k], "store": store_kind}, "kf": None})
                        break
            finally:
                shutil.rmtree(base, ignore_errors=True)
                for k_ in list(sys.modules):
                    if k_.split(".")[0] == pkg:
                        del sys.modules[k_]
    # a dry run leaves nothing behind in the process either: the top-level keep / the direct call of a data function that follows it
    # commits its path like any other (seen by ANOTHER process and as a file under the data directory, not through this process)
    for di2, (k_dry, entry_kind) in enumerate([(1, "keep"), (2, "call"), (3, "keep"), (1, "call"), (4, "keep")]):
        base = tempfile.mkdtemp(prefix="ddsverif_c15d_")
        pkg = "c15d_%d_%d" % (os.getpid(), di2)
        try:
            real.reset_process_state()
            real.set_store("local", os.path.join(base, "si"), os.path.join(base, "sd"))
            tmpl = ("import dds\nfrom ddsverif_rt import log, term\n\n"
                    "def m():\n    log('m')\n    return term('m', %r)\n\n"
                    "@dds.data_function('/dry/df')\ndef df():\n    log('df')\n    return term('df', %r)\n\n"
                    "def f0():\n    return term('f0', dds.keep('/dry/p', m), df())\n")
            os.makedirs(os.path.join(base, pkg), exist_ok=True)
            open(os.path.join(base, pkg, "__init__.py"), "w").close()
            top = {"kind": "keep", "fun": "m", "path": "/dry/p"} if entry_kind == "keep" else {"kind": "call", "fun": "df"}
            pth = "/dry/p" if entry_kind == "keep" else "/dry/df"
            outs = []
            for v in ("v1", "v2"):
                with open(os.path.join(base, pkg, "main.py"), "w") as fh:
                    fh.write(tmpl % (v, v))
                real.load_world(base, pkg + ".main", None, accept=pkg)
                if v == "v2":
                    outs.append(real.run({"kind": "eval", "fun": "f0"}, {"stages": ORDER[:k_dry]}))
                outs.append(real.run(top))
            want = ("m(%s)" if entry_kind == "keep" else "df(%s)") % "v2"
            wk = pipeline.WorkerProc("real", cwd=base)
            try:
                wk.call(cmd="store_api", internal_dir=os.path.join(base, "si"), data_dir=os.path.join(base, "sd"), cache_objects=None)
                lv = wk.call(cmd="load", path=pth)
            finally:
                wk.close()
            res.evaluations += 3
            res.count("directed_dry_run_then_top_level_entry")
            res.nontrivial("dry run then top-level %s, stages %d" % (entry_kind, k_dry))
            bad = None
            if outs[0]["error"] is not None or outs[-1]["error"] is not None or outs[-1]["value"] != want:
                bad = "the entries give %s" % ([(o["value"], o["error"]) for o in outs],)
            elif not all(o.get("idle") for o in outs):
                # (the harness clears a context that is left behind after every run, so that the next run is not disturbed by it)
                bad = "an evaluation context is still in place after the run(s) number %s of [keep/call, restricted run, keep/call]: the next top-level keep would be taken for a nested one" % (
                    [i for i, o in enumerate(outs) if not o.get("idle")],)
            elif lv.get("error") is not None or lv.get("value") != want:
                bad = "the top-level entry returned %r, another process loads %s as %s" % (outs[-1]["value"], pth, lv)
            if bad:
                res.violations.append({"what": "a run restricted to %s, then a top-level %s of an edited function in the same process: %s" % (ORDER[:k_dry], entry_kind, bad),
                                       "input": {"source": tmpl % ("v2", "v2"), "stages": ORDER[:k_dry], "entry": top}, "kf": None})
        except BaseException as e:
            res.violations.append({"what": "the dry-run-then-entry stratum failed: %s: %s" % (type(e).__name__, str(e)[:300]), "input": {}, "kf": None})
        finally:
            shutil.rmtree(base, ignore_errors=True)
            for k_ in list(sys.modules):
                if k_.split(".")[0] == pkg:
                    del sys.modules[k_]
    # paths given as pathlib objects (to the decorator of a data function, to dds.keep): under a restricted stage list nothing is
    # committed at them either - on a fresh store they do not load, after an edit they still load the value of the last full run
    for pi_, store_kind in enumerate(["local", "memory", "local_lru"]):
        base = tempfile.mkdtemp(prefix="ddsverif_c15q_")
        pkg = "c15q_%d_%d" % (os.getpid(), pi_)
        try:
            real.reset_process_state()
            real.set_store(store_kind, os.path.join(base, "si"), os.path.join(base, "sd"))
            tmpl = ("import dds\nimport pathlib\nfrom ddsverif_rt import log, term\n\nP = pathlib.Path('/pd/report')\nQ = pathlib.Path('/pd/sub/clean')\nK = pathlib.Path('/pd/kept')\n\n"
                    "@dds.data_function(P)\ndef report():\n    log('report')\n    return term('report', %r)\n\n"
                    "@dds.data_function(Q)\ndef clean():\n    log('clean')\n    return term('clean', %r)\n\n"
                    "def leaf():\n    log('leaf')\n    return term('leaf', %r)\n\n"
                    "def f0():\n    return term('f0', report(), clean(), dds.keep(K, leaf))\n")
            paths = ["/pd/report", "/pd/sub/clean", "/pd/kept"]
            committed = None          # the values of the last full run
            for step, (v, k) in enumerate([("v1", 3), ("v1", 4), ("v1", 1), ("v1", 5), ("v2", 4), ("v2", 3), ("v2", 0), ("v2", 5)]):
                os.makedirs(os.path.join(base, pkg), exist_ok=True)
                open(os.path.join(base, pkg, "__init__.py"), "w").close()
                with open(os.path.join(base, pkg, "main.py"), "w") as fh:
                    fh.write(tmpl % (v, v, v))
                real.load_world(base, pkg + ".main", None, accept=pkg)
                r = real.run({"kind": "eval", "fun": "f0"}, {"stages": ORDER[:k]})
                if k == 5:
                    committed = {"/pd/report": "report(%s)" % v, "/pd/sub/clean": "clean(%s)" % v, "/pd/kept": "leaf(%s)" % v}
                res.evaluations += 1
                res.count("directed_pathlib_paths_steps")
                res.nontrivial("pathlib paths %s %d" % (store_kind, step))
                bad = None
                if r["error"] is not None:
                    bad = "the evaluation fails: %s" % (r["error"],)
                else:
                    for p_ in paths:
                        lv = real.load_path(p_)
                        if committed is None and lv.get("error") is None:
                            bad = "the path %s loads (%r) although no evaluation with the path commit stage has run" % (p_, lv.get("value"))
                        elif committed is not None and (lv.get("error") is not None or lv.get("value") != committed[p_]):
                            bad = "the path %s loads as %s, the last full evaluation committed %r" % (p_, lv, committed[p_])
                        if bad:
                            break
                if bad:
                    res.violations.append({"what": "paths given as pathlib objects, evaluation restricted to the stages %s (code %s): %s" % (ORDER[:k], v, bad),
                                           "input": {"source": tmpl % (v, v, v), "stages": ORDER[:k], "store": store_kind, "step": step}, "kf": None})
                    break
        finally:
            shutil.rmtree(base, ignore_errors=True)
            for k_ in list(sys.modules):
                if k_.split(".")[0] == pkg:
                    del sys.modules[k_]
    for wi in range(nworlds):
        # (every second pipeline reads back, with dds.load, paths it has just kept)
        w = progs.gen_world(rng, nfun=rng.randint(2, 6), allow=("call", "ref", "keep", "datafn", "shadow") + (("load",) if wi % 2 else ()))
        store_kind = ["memory", "local", "local_lru"][wi % 3]
        with pipeline.Session(store_kind, tag="c15") as s:
            s.set_world(w)
            msteps = [{"set_store": "dict"}, {"world": progs.model_world(w, s.extmod)}]
            entry = {"kind": "eval", "fun": "f0"}
            recs = []
            ks = list(range(0, 6))     # 0: the empty list of stages, the shortest prefix
            rng.shuffle(ks)
            plan = ks[:3] + [0, 5] if not thorough else ks + [5, 2, 0, 5]
            full_paths = None
            prev_committed = {}
            for k in plan:
                names = ORDER[:k]
                sp = spell(rng, names, ProcessingStage)
                r, rr = s.run(entry, {"stages": sp})
                msteps.append({"run": {"entry": entry, "stages": names}})
                res.evaluations += 1
                res.count("prefix_%d" % k)
                res.nontrivial("%d %s" % (wi, names))
                case = {"stages": [str(x) for x in sp], "store": store_kind, "source": progs.render_world(w, "extmod")}
                try:
                    committed = dict(s.real.store.inner.fetch_paths(sorted(r["paths"] or {})))
                except BaseException:
                    committed = {}
                bad = None
                if r["error"] is not None:
                    bad = "a valid stage list is rejected / fails: %s" % (r["error"],)
                elif k < 3 and (r["value"] is not None or r["log"] or r["stored"] or r["synced"]):
                    bad = "analysis-only run is not a dry run: value %r, executed %s, stored %s, committed %s" % (r["value"], r["log"], r["stored"], r["synced"])
                elif 3 <= k < 5 and (r["synced"] or committed != prev_committed):
                    bad = "run stopping before path_commit changed the committed paths: %s -> %s" % (prev_committed, committed)
                elif k >= 3 and pipeline.norm_ext(r["value"]) != pipeline.norm_ext(rr["value"]):
                    bad = "evaluation (stages %s) returned %r, plain execution gives %r" % (names, r["value"], rr["value"])
                if full_paths is None:
                    full_paths = r["paths"]
                elif bad is None and r["paths"] != full_paths:
                    bad = "signatures depend on the stage list: %s vs %s" % (r["paths"], full_paths)
                if bad:
                    res.violations.append({"what": bad, "input": case, "kf": None})
                    break
                prev_committed = committed
                recs.append((r, rr, names))
            # a dry run, then an edit (in place - the function objects stay the same - or with a reload), then the full run:
            # the full run is of the edited code
            for ei, ek in enumerate(("inplace_var", "var", "body", "inplace_var", "body", "var")):
                e = progs.apply_edit(rng, s.world, ek)
                if e is None:
                    continue
                k = rng.choice([1, 2, 2, 4]) if ei % 2 == 0 else rng.choice([3, 4, 3, 2])
                w2, desc = e
                if ei % 2 == 0:
                    # restricted run of the old code, then the edit
                    r0, rr0 = s.run(entry, {"stages": ORDER[:k]})
                if desc.get("inplace"):
                    s.mutate_in_place(w2, desc["inplace"])
                else:
                    s.set_world(w2, desc.get("order"))
                if ei % 2 == 1:
                    # the edit, then a restricted run of the new code (on a store that holds the results of the old one)
                    r0, rr0 = s.run(entry, {"stages": ORDER[:k]})
                r, rr = s.run(entry)
                res.evaluations += 2
                res.count("dry_run_then_edit_" + ek)
                if any(x["error"] is not None and x["error"].get("kind") == "dds" and "before the function that produces it" in (x["error"].get("msg") or "")
                       for x in (r0, r)):
                    # the edit deleted the call that produces a loaded path: the evaluation is refused by design (C09)
                    res.count("rejected_load_before_produce")
                    continue
                res.nontrivial("%d dry-edit %s %d" % (wi, ek, k))
                if k >= 3 and r0["error"] is None and rr0["error"] is None and pipeline.norm_ext(r0["value"]) != pipeline.norm_ext(rr0["value"]):
                    res.violations.append({"what": "evaluation restricted to stages %s (%s the edit %s) returned %r, plain execution gives %r" % (
                        ORDER[:k], "before" if ei % 2 == 0 else "after", desc, r0["value"], rr0["value"]),
                        "input": {"stages": ORDER[:k], "edit": desc, "store": store_kind, "source": progs.render_world(s.world, "extmod")}, "kf": None})
                    break
                if r0["error"] is None and rr["error"] is None and (
                        r["error"] is not None or pipeline.norm_ext(r["value"]) != pipeline.norm_ext(rr["value"])):
                    res.violations.append({"what": "full evaluation after (restricted run with stages %s, then edit %s) returned %r (error %s), plain execution of the edited code gives %r" % (
                        ORDER[:k], desc, r["value"], r["error"], rr["value"]),
                        "input": {"stages": ORDER[:k], "edit": desc, "store": store_kind, "source": progs.render_world(s.world, "extmod")}, "kf": None})
                    break
            # a restricted evaluation (no path_commit) whose user code fails after kept sub-results completed: no path is committed
            import copy as _copy
            wf = _copy.deepcopy(s.world)
            fk = ["Boom", "KeyError", "ValueError", "BoomBase"][wi % 4]
            wf["funs"][0]["fails"] = fk
            s.set_world(wf)
            for k in (3, 4):
                rf, _ = s.run(entry, {"stages": ORDER[:k]})
                res.evaluations += 1
                res.count("restricted_failing_runs")
                res.nontrivial("%d failing restricted %d" % (wi, k))
                if rf["error"] is None or rf["error"].get("cls") != fk or rf["synced"]:
                    res.violations.append({"what": "an evaluation restricted to stages %s whose evaluated function raises %s at its end: error %s, paths committed %s" % (
                        ORDER[:k], fk, rf["error"], rf["synced"]),
                        "input": {"stages": ORDER[:k], "store": store_kind, "source": progs.render_world(wf, "extmod")}, "kf": None})
                    break
            # a function that keeps nothing at all (nor anything below it), evaluated with the analysis stages only: nothing runs
            nokeep = [f["name"] for f in s.world["funs"] if not f["items"] and not f.get("store_path")
                      and all(d is not None for (_, d) in f["params"])]
            for name in nokeep[:2]:
                for k in (1, 2):
                    rk, _ = s.run({"kind": "eval", "fun": name}, {"stages": ORDER[:k]})
                    res.evaluations += 1
                    res.count("analysis_only_of_a_function_without_keeps")
                    res.nontrivial("%d nokeep %s %d" % (wi, name, k))
                    if rk["error"] is not None or rk["value"] is not None or rk["log"] or rk["stored"] or rk["synced"]:
                        res.violations.append({"what": "analysis-only evaluation (stages %s) of %s, which keeps nothing, is not a dry run: value %r, executed %s, error %s" % (
                            ORDER[:k], name, rk["value"], rk["log"], rk["error"]),
                            "input": {"stages": ORDER[:k], "function": name, "store": store_kind, "source": progs.render_world(s.world, "extmod")}, "kf": None})
                        break
            # invalid lists must be refused with a DDS error and do nothing
            for badlist in (["eval"], ["analysis", "eval"], ["analysis", "nonsense"], ["path_commit"]):
                r, rr = s.run(entry, {"stages": badlist})
                res.evaluations += 1
                if r["error"] is None or r["error"]["kind"] != "dds" or r["log"] or r["stored"]:
                    res.violations.append({"what": "invalid stage list %s is not refused cleanly: %s, executed %s" % (badlist, r["error"], r["log"]),
                                           "input": {"stages": badlist, "source": progs.render_world(w, "extmod")}, "kf": None})
            if ctx["driver_ok"] and recs:
                ans = common.drv_batch([{"op": "history", "max": 10000, "steps": msteps[: 2 + len(recs)]}])[0]
                outs = ans.get("ok") or []
                for (r, rr, names), m in zip(recs, outs):
                    if r["value"] != m["value"] or r["log"] != m["log"] or (r["paths"] or {}) != dict(m["paths"]):
                        res.disagreements.append({"what": "restricted run differs from the model", "stages": names,
                                                  "impl": [r["value"], r["log"]], "model": [m["value"], m["log"]],
                                                  "source": progs.render_world(w, "extmod")})
                if wi < 2:
                    res.sample({"stages": recs[0][2], "value": recs[0][0]["value"], "executed": recs[0][0]["log"], "stored": recs[0][0]["stored"]})
    pipeline.close_ref()
    res.rule = ("%d generated pipelines x stage lists = prefixes of the stage order of length 1..5 spelled as names in lower / upper / mixed "
                "case or enum members, interleaved with full runs, x stores {memory, local, local+cache}; plus ill-ordered / unknown lists; "
                "one case = (pipeline, stage list)" % nworlds)
    res.violations = res.violations[:5]
    return res
