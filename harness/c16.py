"""C16 - every usable local-store configuration works; data dirs are independent views.

Correspondence: the absolute directories the real store ends up using equal the Lean `absPath` of the
configured strings in the working directory of construction; the capacity chosen for cache_objects equals
`decodeCacheObjects` (C12).
Property oracle (implementation only, worker subprocesses with real working directories): for every
configuration {absolute, relative, trailing slash, nested non-existing, symlinked parent} x cache_objects
{None, False, True, 0, -1, n}: keep followed by load round-trips in the same process, after chdir, and in a
fresh process; two stores on one internal directory with different data directories share blobs (no
recomputation) while each keeps its own paths.
"""
import json
import os
import shutil
import tempfile

from . import common, pipeline, progs

DESIGN_REF = "DESIGN.md §5 C16"
ASSUMPTIONS = ["symbolic links in parents of the configured directories are exercised on the real code but not modelled (partial)",
               "a relative configuration denotes the directories relative to the working directory at construction"]


# results whose stored form is an empty file (the empty string) or nearly so, kept next to the generated pipeline
EMPTY_RESULTS = """
def e_str():
    log('e_str')
    return ''


def e_none():
    log('e_none')
    return None


def e_list():
    log('e_list')
    return []


def f0x():
    return term('f0x', f0(), repr(dds.keep('/c16_empty/s', e_str)), repr(dds.keep('/c16_empty/n', e_none)), repr(dds.keep('/c16_empty/l', e_list)))
"""


def run(ctx):
    res = common.Result()
    rng = ctx["rng"]
    thorough = ctx["tier"] == "thorough"
    common.import_dds()
    base = os.path.realpath(tempfile.mkdtemp(prefix="ddsverif_c16_"))
    entry = {"kind": "eval", "fun": "f0x"}
    reqs, meta = [], []
    try:
        styles = ["absolute", "relative", "trailing_slash", "nested_new", "symlinked_parent", "relative_dotdot"]
        caches = [None, False, True, 0, -1, 3]
        combos = [(si, sd, c) for si in styles for sd in styles for c in caches]
        rng.shuffle(combos)
        combos = combos if thorough else combos[:18] + [("relative", "absolute", None), ("relative", "relative", True), ("symlinked_parent", "relative", -1)]
        # names related as strings or as directories: one a string prefix of the other (siblings), one inside the other
        # the two directories on different file systems (when this machine has a second writable one)
        shm = None
        try:
            if os.path.isdir("/dev/shm") and os.access("/dev/shm", os.W_OK) and os.stat("/dev/shm").st_dev != os.stat(base).st_dev:
                shm = tempfile.mkdtemp(prefix="ddsverif_c16_", dir="/dev/shm")
        except OSError:
            shm = None
        if shm:
            combos += [("absolute", "shm:data", None), ("shm:internal", "absolute", True)]
            res.count("configurations_across_file_systems", 2)
        # directories reached through the parent of the working directory (../store): the working directory of the moment the store
        # was configured is removed later, while the same store object is still in use
        combos += [("dotdot_sibling", "dotdot_sibling", None), ("dotdot_sibling", "absolute", True), ("absolute", "dotdot_sibling", 2)]
        combos += [("x:/store_internal", "x:/store", None), ("x:/st", "x:/st_data", True), ("x:/dd/internal", "x:/dd", None),
                   ("x:/ii", "x:/ii/data", None), ("x:/proj.store", "x:/proj", 2)]
        w = progs.gen_world(rng, nfun=3, allow=("call", "keep", "datafn"))
        for f in w["funs"]:
            f["uses_ext"] = False
        ws = os.path.join(base, "ws")
        os.makedirs(ws)
        with open(os.path.join(ws, "c16w.py"), "w") as fh:
            fh.write(progs.render_world(w, "c16e") + EMPTY_RESULTS)
        with open(os.path.join(ws, "c16e.py"), "w") as fh:
            fh.write(progs.render_ext(w))
        ref = pipeline.ref_worker()
        ref.call(cmd="refpaths", paths={})
        ref.call(cmd="world", dir=ws, module="c16w", extmod="c16e")
        rr = ref.call(cmd="run", entry=entry)
        want, want_paths = rr["value"], rr["refpaths"]
        kept = {fn for (_, fn) in progs.kept_paths(w)} | {"e_str", "e_none", "e_list"}
        for ci, (si, sd, cache) in enumerate(combos):
            root = os.path.join(base, "c%d" % ci)
            cwd1, cwd2 = os.path.join(root, "cwd1"), os.path.join(root, "cwd2")
            os.makedirs(cwd1)
            os.makedirs(cwd2)
            os.makedirs(os.path.join(root, "real_parent"))
            os.symlink(os.path.join(root, "real_parent"), os.path.join(root, "linked"))

            def spell(style, leaf):
                if style.startswith("x:"):
                    return root + style[2:]
                if style.startswith("shm:"):
                    return os.path.join(shm, "c%d_%s" % (ci, style[4:]))
                if style == "absolute":
                    return os.path.join(root, "abs_" + leaf)
                if style == "relative":
                    return "rel_" + leaf
                if style == "trailing_slash":
                    return os.path.join(root, "ts_" + leaf) + "/"
                if style == "nested_new":
                    return os.path.join(root, "n1", "n2", "n3_" + leaf)
                if style == "symlinked_parent":
                    return os.path.join(root, "linked", "sl_" + leaf)
                if style == "dotdot_sibling":
                    return os.path.join("..", "sib_" + leaf)
                return os.path.join("..", "cwd1", "dd_" + leaf)
            internal, data = spell(si, "internal"), spell(sd, "data")
            case = {"internal_dir": internal.replace(root, "$R"), "data_dir": data.replace(root, "$R"), "cache_objects": cache}
            res.evaluations += 1
            res.nontrivial(json.dumps([si, sd, str(cache)]))
            res.count("internal_" + si)
            wk = pipeline.WorkerProc("real", cwd=cwd1)
            bad = None
            try:
                try:
                    wk.call(cmd="store_api", internal_dir=internal, data_dir=data, cache_objects=cache)
                except RuntimeError as e:
                    bad = "the store cannot be configured with these directories: " + str(e).strip().splitlines()[-1][:300]
                    wk.close()
                    wk = pipeline.WorkerProc("real", cwd=cwd1)
                if bad is None and ci % 2 == 1:
                    # the working directory changes between set_store and the first use of the store: the directories are those
                    # that the spellings denoted when set_store was called (they are made absolute there)
                    wk.call(cmd="cwd", dir=cwd2)
                    res.count("configurations_with_chdir_before_first_use")
                wk.call(cmd="world", dir=ws, module="c16w", extmod="c16e")
                r = wk.call(cmd="run", entry=entry) if bad is None else None
                if bad is None and (r["error"] is not None or r["value"] != want):
                    bad = "keep under this configuration: error %s, value %r (plain execution: %r)" % (r["error"], r["value"], want)
                if bad is None:
                    for p, v in want_paths.items():
                        lv = wk.call(cmd="load", path=p)
                        if lv["error"] is not None or lv["value"] != v:
                            bad = "load(%s) right after the keep gives %s" % (p, lv)
                            break
                if bad is None:
                    wk.call(cmd="cwd", dir=cwd2)
                    if "dotdot_sibling" in (si, sd):
                        shutil.rmtree(cwd1)
                        res.count("configurations_whose_first_working_directory_is_removed")
                    for p, v in want_paths.items():
                        lv = wk.call(cmd="load", path=p)
                        if lv["error"] is not None or lv["value"] != v:
                            bad = "after the working directory changed load(%s) gives %s" % (p, lv)
                            break
                    r2 = wk.call(cmd="run", entry=entry)
                    if bad is None and (r2["error"] is not None or r2["value"] != want or [x for x in r2["log"] if x in kept]):
                        bad = "after the working directory changed the re-evaluation gives error %s / value %r / re-executes %s" % (r2["error"], r2["value"], r2["log"])
            finally:
                wk.close()
            os.makedirs(cwd1, exist_ok=True)
            if bad is None:
                wk2 = pipeline.WorkerProc("real", cwd=cwd1)
                try:
                    wk2.call(cmd="store_api", internal_dir=internal, data_dir=data, cache_objects=None)
                    for p, v in want_paths.items():
                        lv = wk2.call(cmd="load", path=p)
                        if lv["error"] is not None or lv["value"] != v:
                            bad = "another process (same working directory, same configuration) loads %s as %s" % (p, lv)
                            break
                finally:
                    wk2.close()
            if bad:
                res.violations.append({"what": bad, "input": case, "kf": None})
            # model: absolute directories
            for spelled in (internal, data):
                reqs.append({"op": "abspath", "cwd": cwd1, "path": spelled})
                meta.append((spelled, os.path.abspath(os.path.join(cwd1, spelled))))
            if ci == 0:
                res.sample({"configuration": case, "value": want, "paths": want_paths})
        # ---- the same configuration given twice in one process ----
        # (a) the directories were deleted in between: the store is set up again; (b) relative directories after a change of the
        # working directory denote other directories: what is kept afterwards is found by a process started there
        for ri in range(4 if thorough else 2):
            root = os.path.join(base, "r%d" % ri)
            cwd1, cwd2 = os.path.join(root, "cwd1"), os.path.join(root, "cwd2")
            os.makedirs(cwd1)
            os.makedirs(cwd2)
            cache = [None, True][ri % 2]
            wk = pipeline.WorkerProc("real", cwd=cwd1)
            bad = None
            try:
                wk.call(cmd="world", dir=ws, module="c16w", extmod="c16e")
                ai, ad = os.path.join(root, "again_i"), os.path.join(root, "again_d")
                wk.call(cmd="store_api", internal_dir=ai, data_dir=ad, cache_objects=cache)
                r1 = wk.call(cmd="run", entry=entry)
                shutil.rmtree(ai, ignore_errors=True)
                shutil.rmtree(ad, ignore_errors=True)
                wk.call(cmd="store_api", internal_dir=ai, data_dir=ad, cache_objects=cache)
                r2 = wk.call(cmd="run", entry=entry)
                res.evaluations += 2
                res.nontrivial("same configuration twice, wiped %d" % ri)
                if r1["error"] or r2["error"] or r2["value"] != want:
                    bad = "the same directories configured again after they were deleted: %s / %s" % (r1["error"], r2["error"] or r2["value"])
                else:
                    for p, v in want_paths.items():
                        lv = wk.call(cmd="load", path=p)
                        if lv["error"] is not None or lv["value"] != v:
                            bad = "after re-configuring deleted directories load(%s) gives %s" % (p, lv)
                            break
                if bad is None:
                    wk2 = pipeline.WorkerProc("real", cwd=cwd1)
                    try:
                        wk2.call(cmd="store_api", internal_dir=ai, data_dir=ad, cache_objects=None)
                        for p, v in want_paths.items():
                            lv = wk2.call(cmd="load", path=p)
                            if lv["error"] is not None or lv["value"] != v:
                                bad = "after re-configuring deleted directories another process loads %s as %s" % (p, lv)
                                break
                    finally:
                        wk2.close()
                if bad is None:
                    wk.call(cmd="store_api", internal_dir="rel_i", data_dir="rel_d", cache_objects=cache)
                    ra = wk.call(cmd="run", entry=entry)
                    wk.call(cmd="cwd", dir=cwd2)
                    wk.call(cmd="store_api", internal_dir="rel_i", data_dir="rel_d", cache_objects=cache)
                    rb = wk.call(cmd="run", entry=entry)
                    res.evaluations += 2
                    if ra["error"] or rb["error"] or rb["value"] != want:
                        bad = "relative directories configured again after a change of directory: %s / %s" % (ra["error"], rb["error"] or rb["value"])
                    else:
                        wk3 = pipeline.WorkerProc("real", cwd=cwd2)
                        try:
                            wk3.call(cmd="store_api", internal_dir="rel_i", data_dir="rel_d", cache_objects=None)
                            for p, v in want_paths.items():
                                lv = wk3.call(cmd="load", path=p)
                                if lv["error"] is not None or lv["value"] != v:
                                    bad = "a process started in the new working directory with the same relative configuration loads %s as %s" % (p, lv)
                                    break
                        finally:
                            wk3.close()
            except RuntimeError as e:
                bad = "configuring the same store again fails: " + str(e).strip().splitlines()[-1][:300]
            finally:
                wk.close()
            if bad:
                res.violations.append({"what": bad, "input": {"configuration": "same arguments twice in one process", "cache_objects": cache}, "kf": None})
        # ---- two views on one internal directory ----
        for vi in range(8 if thorough else 4):
            root = os.path.join(base, "v%d" % vi)
            os.makedirs(root)
            wk = pipeline.WorkerProc("real", cwd=root)
            try:
                wk.call(cmd="world", dir=ws, module="c16w", extmod="c16e")
                # (every second time with directory names that are string prefixes of one another)
                nint, na, nb = ("/int", "/dataA", "/dataB") if vi % 2 else ("/pipeline_cache", "/pipeline", "/pipeline_staging")
                # (every view is used through dds.eval and through a top-level dds.keep of the same function)
                ventry = entry if vi % 4 < 2 else {"kind": "keep", "fun": entry["fun"], "path": "/views/top"}
                try:
                    wk.call(cmd="store_api", internal_dir=root + nint, data_dir=root + na, cache_objects=None)
                    ra = wk.call(cmd="run", entry=ventry)
                    wk.call(cmd="store_api", internal_dir=root + nint, data_dir=root + nb, cache_objects=None)
                except RuntimeError as e:
                    res.violations.append({"what": "a data view cannot be configured: " + str(e).strip().splitlines()[-1][:300],
                                           "input": {"views": [nint, na, nb]}, "kf": None})
                    continue
                missing = [p for p in want_paths if wk.call(cmd="load", path=p)["error"] is None]
                rb = wk.call(cmd="run", entry=ventry)
                res.evaluations += 2
                res.nontrivial("views %d" % vi)
                bad = None
                if ra["error"] or rb["error"] or ra["value"] != want or rb["value"] != want:
                    bad = "evaluation through a view fails: %s / %s" % (ra["error"], rb["error"])
                elif missing:
                    bad = "paths %s committed through view A are visible through view B before B evaluated anything" % missing
                elif [x for x in rb["log"] if x in kept]:
                    bad = "view B recomputed %s although the blobs are shared through the internal directory" % [x for x in rb["log"] if x in kept]
                else:
                    for p, v in want_paths.items():
                        if wk.call(cmd="load", path=p)["value"] != v:
                            bad = "view B does not serve %s after evaluating" % p
                    wk.call(cmd="store_api", internal_dir=root + nint, data_dir=root + na, cache_objects=None)
                    for p, v in want_paths.items():
                        if wk.call(cmd="load", path=p)["value"] != v:
                            bad = "view A lost %s after view B was used" % p
                if bad:
                    res.violations.append({"what": bad, "input": {"views": [nint, na, nb], "source": progs.render_world(w, "c16e")}, "kf": None})
            finally:
                wk.close()
        if ctx["driver_ok"]:
            for rq, (spelled, want_abs), a in zip(reqs, meta, common.drv_batch(reqs)):
                if a.get("ok") != want_abs:
                    res.disagreements.append({"what": "absolute form of a configured directory differs from the model", "request": rq,
                                              "impl": want_abs, "model": a})
    finally:
        pipeline.close_ref()
        shutil.rmtree(base, ignore_errors=True)
        try:
            if shm:
                shutil.rmtree(shm, ignore_errors=True)
        except NameError:
            pass
    # directories that exist already and have never been used (freshly mounted volumes), with and without the permission to
    # create directories: a usable store either way (create_dirs=False refuses only directories that do not exist)
    from collections import OrderedDict
    from dds.store import LocalFileStore
    from dds.structures import DDSException
    for create in (True, False):
        tmpc = tempfile.mkdtemp(prefix="ddsverif_c16c_")
        try:
            os.makedirs(os.path.join(tmpc, "internal"))
            os.makedirs(os.path.join(tmpc, "data"))
            res.evaluations += 1
            res.nontrivial("existing empty directories create_dirs=%s" % create)
            res.count("existing_empty_directories")
            try:
                st = LocalFileStore(os.path.join(tmpc, "internal"), os.path.join(tmpc, "data"), create_dirs=create)
                st.store_blob("kc", "value", None)
                st.sync_paths(OrderedDict([("/c/p", "kc")]))
                got = (st.has_blob("kc"), st.fetch_blob("kc"), dict(st.fetch_paths(["/c/p"])))
            except BaseException as e:
                got = "EXC:%s:%s" % (type(e).__name__, str(e)[:120])
            if got != (True, "value", {"/c/p": "kc"}):
                res.violations.append({"what": "LocalFileStore(existing empty internal directory, existing empty data directory, create_dirs=%s) is not a usable store: %s" % (create, got),
                                       "input": {"create_dirs": create}, "kf": None})
            try:
                LocalFileStore(os.path.join(tmpc, "missing_i"), os.path.join(tmpc, "missing_d"), create_dirs=False)
                refused = False
            except DDSException:
                refused = True
            except BaseException:
                refused = False
            if not refused or os.path.exists(os.path.join(tmpc, "missing_i")):
                res.violations.append({"what": "LocalFileStore(create_dirs=False) on directories that do not exist is not refused with a DDS error (or created them)",
                                       "input": {"create_dirs": False}, "kf": None})
        finally:
            shutil.rmtree(tmpc, ignore_errors=True)
    res.rule = ("configurations: internal_dir x data_dir spelled {absolute, relative, trailing slash, nested non-existing, symlinked parent, "
                "relative with ..} x cache_objects {None, False, True, 0, -1, 3} (quick: 21 sampled combinations), each with chdir and a "
                "second process; plus two data views on one internal directory; one case = one configuration")
    uniq = {}
    for v in res.violations:
        uniq.setdefault(v["what"][:50], v)
    res.violations = list(uniq.values())[:6]
    return res
