"""C17 - results are read back with the codec that wrote them, text and bytes verbatim.

Correspondence: `CodecRegistry` (fresh instance + a sequence of add_codec / add_file_codec) answers
`get_codec` like the Lean `Registry`; the type -> codec and reference -> codec tables of the default and
DBFS registries are regenerated into Generated/Facts.lean and re-proved (default_registry, reference_kinds).
Property oracle (implementation only): every storable result type round-trips through the local store -
same process, after codec registrations, and in a fresh process; the codec named in the metadata is the
one that wrote; str / bytes blobs (and the file under the data directory) are verbatim.
"""
import json
import os
import pickle
import shutil
import subprocess
import sys
import tempfile

from . import common

DESIGN_REF = "DESIGN.md §5 C17"
ASSUMPTIONS = ["pickle and parquet are trusted to be faithful encodings (exercised, not modelled)",
               "a user codec must be registered again in a process that wants to read what it wrote"]


class MyType(object):
    def __init__(self, x):
        self.x = x

    def __eq__(self, o):
        return isinstance(o, MyType) and o.x == self.x

    def __hash__(self):
        return hash(self.x)


class Shards(object):
    """a result that its codec writes as a directory (one file per part), like a partitioned table"""
    def __init__(self, parts):
        self.parts = list(parts)

    def __eq__(self, o):
        return isinstance(o, Shards) and o.parts == self.parts

    def __hash__(self):
        return hash(tuple(self.parts))


FLAKY = {"fail": False}


class Flaky(object):
    """a value that cannot be read back while FLAKY['fail'] is set (a class that is not importable yet, a library that is
    missing in this process): the stored blob is intact"""
    def __init__(self, x):
        self.x = x

    def __eq__(self, o):
        return isinstance(o, Flaky) and o.x == self.x

    def __hash__(self):
        return hash(self.x)

    def __setstate__(self, st):
        if FLAKY["fail"]:
            raise ImportError("cannot rebuild a Flaky here")
        self.__dict__.update(st)


class TaggedStr(str):
    """a subclass of str that carries an attribute: not a text result, must come back as itself"""
    def __new__(cls, s, tag=None):
        o = super().__new__(cls, s)
        o.tag = tag
        return o

    def __reduce__(self):
        return (TaggedStr, (str(self), self.tag))


class Digest(bytes):
    """a subclass of bytes"""
    pass


import enum as _enum


class Color(str, _enum.Enum):
    RED = "red"
    BLUE = "blue"


def user_codecs():
    from dds.structures import CodecProtocol, FileCodecProtocol, ProtocolRef, SupportedType
    from dds.structures_utils import SupportedTypeUtils as STU

    import enum

    class Refs(str, enum.Enum):
        # the references of the user's codecs kept in one place, as members of a str-valued enumeration: a member is a str
        # equal to its value (and hashes like it), while str(member) is 'Refs.MYTYPE'
        MYTYPE = "user.mytype_file"

    class MyFileCodec(FileCodecProtocol):
        def ref(self):
            return Refs.MYTYPE

        def handled_types(self):
            return [STU.from_type(MyType)]

        def serialize_into(self, blob, loc):
            with open(str(loc), "wb") as f:
                f.write(("MYTYPE:" + repr(blob.x)).encode("utf-8"))

        def deserialize_from(self, loc):
            with open(str(loc), "rb") as f:
                return MyType(eval(f.read().decode("utf-8")[len("MYTYPE:"):]))

    class ShadowStrCodec(FileCodecProtocol):
        """a later-registered file codec that also claims `str`: must not take over existing blobs"""
        def ref(self):
            return ProtocolRef("user.shadow_str")

        def handled_types(self):
            return [STU.from_type(str)]

        def serialize_into(self, blob, loc):
            with open(str(loc), "wb") as f:
                f.write(b"SHADOW" + blob.encode("utf-8"))

        def deserialize_from(self, loc):
            with open(str(loc), "rb") as f:
                return f.read()[6:].decode("utf-8")
    return MyFileCodec(), ShadowStrCodec()


def dir_codec():
    """a user codec of the generic kind (it receives a location, not a local file) that writes its blob as a directory"""
    from dds.structures import CodecProtocol, ProtocolRef
    from dds.structures_utils import SupportedTypeUtils as STU

    class ShardsCodec(CodecProtocol):
        def ref(self):
            return ProtocolRef("user.shards_dir")

        def handled_types(self):
            return [STU.from_type(Shards)]

        def serialize_into(self, blob, loc):
            os.makedirs(str(loc))
            for i, part in enumerate(blob.parts):
                with open(os.path.join(str(loc), "part-%05d" % i), "w") as f:
                    f.write(repr(part))

        def deserialize_from(self, loc):
            return Shards([eval(open(os.path.join(str(loc), n)).read()) for n in sorted(os.listdir(str(loc)))])
    return ShardsCodec()


CHILD = r"""
import sys, json, pickle
sys.path.insert(0, %r); sys.path.insert(0, %r)
from harness import c17
import dds
from dds.store import LocalFileStore
from dds.codec import codec_registry
a, b = c17.user_codecs()
codec_registry().add_file_codec(b)
codec_registry().add_file_codec(a)
codec_registry().add_codec(c17.dir_codec())
st = LocalFileStore(sys.argv[1], sys.argv[2])
keys = json.loads(sys.argv[3])
out = {}
for k in keys:
    try:
        v = st.fetch_blob(k)
        out[k] = pickle.dumps(c17.canon_value(v)).hex()
    except BaseException as e:
        out[k] = "EXC:" + type(e).__name__ + ":" + str(e)[:80]
print(json.dumps(out))
"""


def canon_value(v):
    try:
        import pandas
        if isinstance(v, pandas.DataFrame):
            # everything that makes two frames equal: columns, their types, the row labels and their name(s), the cells
            return ("df", [str(c) for c in v.columns], [str(t) for t in v.dtypes], [repr(x) for x in v.index.tolist()],
                    [None if n is None else str(n) for n in v.index.names], v.to_dict(orient="list"))
    except ImportError:
        pass
    if isinstance(v, MyType):
        return ("mytype", v.x)
    if isinstance(v, Shards):
        return ("shards", list(v.parts))
    if type(v) is TaggedStr:
        return ("TaggedStr", str(v), v.tag)
    if type(v) is Digest:
        return ("Digest", bytes(v))
    if type(v) is Color:
        return ("Color", v.name)
    return v


def _straddling_text():
    """a text of ~17 MB whose multi-byte characters sit across the byte offsets 2**16, 2**20 and 2**24 (and 3 * 2**22): whatever
    block size a reader uses, some character is cut in two"""
    parts, nbytes = [], 0
    for boundary in (2 ** 16, 2 ** 20, 3 * 2 ** 22, 2 ** 24):
        fill = boundary - 1 - nbytes
        parts.append("x" * fill)
        parts.append("\u00e9")          # 2 bytes: one before, one after the boundary
        nbytes += fill + 2
    parts.append("tail \u20ac")
    return "".join(parts)


def values(rng):
    vs = [("str_empty", ""), ("str_ascii", "hello"), ("str_unicode", "héllo ∀x — 中文"), ("str_big", "x" * 1000000),
          ("str_big_unicode", _straddling_text()),
          ("str_crlf", "dos\r\nlines\r\n"), ("str_cr", "a\rb"), ("str_ws", " \t\n trailing \n"), ("str_nul", "a\x00b"),
          ("bytes_empty", b""), ("bytes", b"\x00\xff\x10abc"), ("bytes_big", bytes(range(256)) * 4000), ("none", None),
          ("int", 12345678901234567890), ("list", [1, "a", None]), ("dict", {"k": [1, 2]}), ("object", {"s": {1, 2}}),
          ("mytype", MyType(("a", 1))),
          ("shards", Shards([("a", 1), ("b", 2), ("c", 3)])),
          # instances of SUBCLASSES of the types that have a dedicated codec: they are objects, not text / bytes
          ("str_subclass", TaggedStr("grüß", tag=7)), ("bytes_subclass", Digest(b"\x00\x01\xff")), ("str_enum", Color.BLUE)]
    try:
        import pandas
        df = pandas.DataFrame({"a": [1, 2, 3, 4, 5, 6], "b": ["x", "y", "z", "u", "v", "w"], "c": [0.5, 1.5, 2.5, 3.5, 4.5, 5.5]})
        vs.append(("pandas", pandas.DataFrame({"a": [1, 2, 3], "b": ["x", "y", "z"]})))
        # row labels that are not 0..n-1: a filtered frame, string labels, a named index, a sorted frame
        vs.append(("pandas_filtered", df[df["a"] > 3]))
        vs.append(("pandas_labels", pandas.DataFrame({"v": [1.0, 2.0]}, index=["first", "second"])))
        vs.append(("pandas_named_index", df.set_index("b")))
        vs.append(("pandas_sorted", df.sort_values("c", ascending=False)))
    except ImportError:
        pass
    return vs


def run(ctx):
    res = common.Result()
    rng = ctx["rng"]
    common.import_dds()
    from dds.store import LocalFileStore
    from dds.codec import CodecRegistry, codec_registry
    import dds.codec as codec_mod
    from dds.structures import DDSException
    thorough = ctx["tier"] == "thorough"
    # ---------- registry correspondence ----------
    from dds.structures import FileCodecProtocol, CodecProtocol, ProtocolRef, SupportedType

    def mk(kind, ref, types, impl):
        base = FileCodecProtocol if kind == "file" else CodecProtocol
        return type(impl, (base,), {"ref": lambda self: ProtocolRef(ref), "handled_types": lambda self: [SupportedType(t) for t in types]})()
    reqs, expect = [], []
    TYPES = ["str", "bytes", "object", "t1", "t2"]
    REFS = ["r.a", "r.b", "r.c", "r.d"]
    for i in range(400 if thorough else 80):
        reg = CodecRegistry([], [])
        ops = []
        for j in range(rng.randint(0, 6)):
            kind = rng.choice(["file", "file", "codec"])
            ref = rng.choice(REFS)
            types = rng.sample(TYPES, rng.randint(0, 3))
            impl = "C%d_%d" % (i, j)
            c = mk(kind, ref, types, impl)
            if kind == "file":
                reg.add_file_codec(c)
                ops.append(["add_file_codec", {"ref": ref, "impl": impl, "types": types}])
            else:
                reg.add_codec(c)
                ops.append(["add_codec", {"ref": ref, "impl": impl, "types": types}])
        queries = [[t, None] for t in TYPES + ["unknown"]] + [[None, r] for r in REFS] + [[rng.choice(TYPES), rng.choice(REFS)]] + [[None, None]]
        outs = []
        for (t, r) in queries:
            try:
                outs.append(type(reg.get_codec(SupportedType(t) if t else None, ProtocolRef(r) if r else None)).__name__)
            except DDSException as e:
                outs.append("ERR:" + (e.error_code.name if e.error_code is not None else "NO_CODE"))
        reqs.append({"op": "registry", "ops": ops, "queries": queries})
        expect.append(outs)
        res.evaluations += 1
        res.nontrivial(json.dumps(ops))
    if ctx["driver_ok"]:
        for rq, e, a in zip(reqs, expect, common.drv_batch(reqs)):
            if a.get("ok") != e:
                res.disagreements.append({"what": "CodecRegistry differs from the model", "request": rq, "impl": e, "model": a})
    # ---------- end to end ----------
    tmp = tempfile.mkdtemp(prefix="ddsverif_c17_")
    saved_registry = codec_mod._registry
    try:
        codec_mod._registry = None           # a fresh default registry for this run
        internal, data = tmp + "/internal", tmp + "/data"
        st = LocalFileStore(internal, data)
        mycodec, shadow = user_codecs()
        codec_registry().add_file_codec(mycodec)
        codec_registry().add_codec(dir_codec())
        vs = values(rng)
        written = {}
        from collections import OrderedDict
        for (name, v) in vs:
            key = "key_" + name
            try:
                st.store_blob(key, v, None)
                st.sync_paths(OrderedDict([("/out/" + name, key)]))
            except BaseException as e:
                res.violations.append({"what": "a storable value of kind %s cannot be stored: %s: %s" % (name, type(e).__name__, str(e)[:120]),
                                       "input": {"value": name}, "kf": None})
                continue
            meta = json.load(open(os.path.join(internal, "blobs", key + ".meta")))
            raw = open(os.path.join(internal, "blobs", key), "rb").read() if os.path.isfile(os.path.join(internal, "blobs", key)) else None
            written[key] = (name, v, meta["protocol"], raw)
            res.evaluations += 1
            res.nontrivial("value " + name)
            if name == "mytype" and meta["protocol"] != "user.mytype_file":
                res.violations.append({"what": "a value of the user type is written with %s although a codec for that type was registered (user.mytype_file)" % meta["protocol"],
                                       "input": {"value": name, "registered": "codec_registry().add_file_codec(...) after the store was created"}, "kf": None})
            if type(v) is str and raw != v.encode("utf-8"):
                res.violations.append({"what": "text result %s is not stored verbatim (UTF-8)" % name, "input": {"value": name, "stored_prefix": repr(raw[:40])}, "kf": None})
            if type(v) in (bytes, bytearray) and raw != bytes(v):
                res.violations.append({"what": "bytes result %s is not stored verbatim" % name, "input": {"value": name, "stored_prefix": repr(raw[:40])}, "kf": None})
            if type(v) in (str, bytes):
                via_data = open(os.path.join(data, "out", name), "rb").read()
                if via_data != (v.encode("utf-8") if isinstance(v, str) else v):
                    res.violations.append({"what": "the file under the data directory for %s is not the verbatim result" % name, "input": {"value": name}, "kf": None})

        def read_all(stage):
            for key, (name, v, proto, raw) in written.items():
                try:
                    got = st.fetch_blob(key)
                    okv = canon_value(got) == canon_value(v) and type(got) is type(v)
                except BaseException as e:
                    got, okv = "EXC:%s:%s" % (type(e).__name__, str(e)[:80]), False
                res.evaluations += 1
                if not okv:
                    res.violations.append({"what": "%s: result of kind %s written with %s is read back as %s" % (stage, name, proto, repr(got)[:80]),
                                           "input": {"value": name, "protocol": proto, "stage": stage}, "kf": None})
        read_all("same process")
        # a fetch that fails (the value cannot be rebuilt in this process at this moment) leaves the blob where it is: it is still
        # reported present, and it is read back once the obstacle is gone - also through a second handle and through the cache
        from dds._lru_store import LRUCacheStore as _LRU0
        for hname, handle in (("the store", st), ("a second store object", LocalFileStore(internal, data)),
                              ("the cache wrapper", _LRU0(LocalFileStore(internal, data), num_elem=3))):
            kf = "key_flaky_" + hname.split()[-1]
            handle.store_blob(kf, Flaky(("f", 1)), None)
            FLAKY["fail"] = True
            try:
                handle.fetch_blob(kf)
                first = "returned"
            except BaseException as e:
                first = type(e).__name__
            finally:
                FLAKY["fail"] = False
            res.evaluations += 1
            try:
                present = handle.has_blob(kf)
                again = handle.fetch_blob(kf)
            except BaseException as e:
                present, again = None, "EXC:%s:%s" % (type(e).__name__, str(e)[:80])
            if first != "ImportError" or present is not True or again != Flaky(("f", 1)):
                res.violations.append({"what": "a fetch through %s that fails (%s) must leave the blob as it is: afterwards has_blob answers %s and fetch_blob %r" % (
                    hname, first, present, again), "input": {"value": "an object whose reconstruction fails once", "handle": hname}, "kf": None})
        # a second store object on the same directories, in the same process (set_store called again): same registry, same answers
        st_first = st
        st = LocalFileStore(internal, data)
        read_all("second store object on the same directories")
        try:
            st.store_blob("key_mytype_2", MyType(("b", 2)), None)
            meta2 = json.load(open(os.path.join(internal, "blobs", "key_mytype_2.meta")))
            if meta2["protocol"] != "user.mytype_file":
                res.violations.append({"what": "a second store object on the same directories writes the user type with %s, not with the registered codec" % meta2["protocol"],
                                       "input": {"value": "mytype", "store": "second LocalFileStore object in the process"}, "kf": None})
        except BaseException as e:
            res.violations.append({"what": "a second store object on the same directories cannot store the user type: %s: %s" % (type(e).__name__, str(e)[:120]),
                                   "input": {"value": "mytype"}, "kf": None})
        st = st_first
        # registrations in between: a later file codec claiming str, a codec put on top for str, the user codec again
        codec_registry().add_file_codec(shadow)
        read_all("after add_file_codec of a codec that also claims str")

        class TopStr(CodecProtocol):
            def ref(self):
                return ProtocolRef("user.top_str")

            def handled_types(self):
                from dds.structures_utils import SupportedTypeUtils as STU
                return [STU.from_type(str)]

            def serialize_into(self, blob, loc):
                open(str(loc), "wb").write(b"TOP" + blob.encode("utf-8"))

            def deserialize_from(self, loc):
                return open(str(loc), "rb").read()[3:].decode("utf-8")
        codec_registry().add_codec(TopStr())
        read_all("after add_codec of a codec that takes over str")
        # a new str value is now written with the top codec and must be read with it
        st.store_blob("key_str_new", "new text", None)
        written["key_str_new"] = ("str_new", "new text", json.load(open(os.path.join(internal, "blobs", "key_str_new.meta")))["protocol"], None)
        read_all("after writing with the re-prioritised registry")
        # another process (fresh registry + the user codecs registered in another order)
        keys = [k for k in written if k not in ("key_str_new", "key_str_big_unicode")]
        p = subprocess.run([sys.executable, "-B", "-c", CHILD % (common.REPO, common.ROOT), internal, data, json.dumps(keys)],
                           capture_output=True, text=True, cwd="/", timeout=300)
        if p.returncode != 0:
            raise common.Infra("child process failed: " + p.stderr[-400:])
        there = json.loads(p.stdout.strip().split("\n")[-1])
        for k in keys:
            name, v, proto, raw = written[k]
            want = pickle.dumps(canon_value(v)).hex()
            res.evaluations += 1
            if there.get(k) != want:
                res.violations.append({"what": "another process reads the result of kind %s (written with %s) differently: %s" % (name, proto, str(there.get(k))[:80]),
                                       "input": {"value": name, "protocol": proto}, "kf": None})
        res.sample({"values": [n for (n, _) in vs], "protocols": dict((written[k][0], written[k][2]) for k in written)})
        # through the object cache (set_store(cache_objects=...)): what is read back in the writing process is what the codec
        # wrote - the same as a second, uncached handle on the same directories reads - also when the caller goes on modifying
        # the object it has just stored
        import copy
        from dds._lru_store import LRUCacheStore
        ci, cd = os.path.join(tmp, "ci"), os.path.join(tmp, "cd")
        cached = LRUCacheStore(LocalFileStore(ci, cd), num_elem=100)
        plain = LocalFileStore(ci, cd)
        muts = [(n, v) for (n, v) in vs if n in ("list", "dict", "object", "mytype", "str_ascii", "bytes", "none") or n.startswith("pandas")]
        muts += [("bytearray", bytearray(b"\x00abc")), ("list_nested", [[1], [2]])]
        for name, v in muts:
            key = "ckey_" + name
            try:
                cached.store_blob(key, v, None)
                # the caller keeps working on its object
                if isinstance(v, list):
                    v.append("later")
                elif isinstance(v, dict):
                    v["later"] = 1
                elif isinstance(v, bytearray):
                    v.extend(b"later")
                elif isinstance(v, MyType):
                    v.x = ("later",)
                elif type(v).__name__ == "DataFrame":
                    v["later"] = 1
                got = cached.fetch_blob(key)
                want = plain.fetch_blob(key)
                ok = canon_value(got) == canon_value(want) and type(got) is type(want)
            except BaseException as e:
                got, want, ok = "EXC:%s:%s" % (type(e).__name__, str(e)[:80]), None, False
            res.evaluations += 1
            res.nontrivial("cached " + name)
            if not ok:
                res.violations.append({"what": "through the object cache the result of kind %s is read back as %s in the writing process; "
                                               "the store holds %s" % (name, repr(got)[:80], repr(want)[:80]),
                                       "input": {"value": name, "store": "LRUCacheStore(LocalFileStore)", "modified_after_store": True}, "kf": None})
        # a blob written by a user codec is refused where that codec is not registered (a fresh registry: another process
        # that has not registered it) - whatever the name of its reference (user.bytes, zlib.string look like the built-in ones) -
        # and is not decoded by another codec
        from dds.structures import FileCodecProtocol as _FCP, ProtocolRef as _PR, DDSException as _DE
        from dds.structures_utils import SupportedTypeUtils as _STU

        def _named_codec(refname):
            class C(_FCP):
                def ref(self):
                    return _PR(refname)

                def handled_types(self):
                    return [_STU.from_type(MyType)]

                def serialize_into(self, blob, loc):
                    with open(str(loc), "wb") as f:
                        f.write(("Z" + repr(blob.x)[::-1]).encode("utf-8"))

                def deserialize_from(self, loc):
                    with open(str(loc), "rb") as f:
                        return MyType(eval(f.read().decode("utf-8")[1:][::-1]))
            return C()
        for refname in ("zlib.bytes", "money.string", "mine.pickle", "other.codec"):
            codec_mod._registry = None
            ui, ud = os.path.join(tmp, "ui_" + refname), os.path.join(tmp, "ud_" + refname)
            stu = LocalFileStore(ui, ud)
            codec_registry().add_file_codec(_named_codec(refname))
            # the user type goes to the user codec only if no earlier codec claims it: register it on top
            codec_registry()._handled_types[_STU.from_type(MyType)] = codec_registry()._protocols[_PR(refname)]
            stu.store_blob("ku", MyType(("u", 7)), None)
            wrote = json.load(open(os.path.join(ui, "blobs", "ku.meta")))["protocol"]
            codec_mod._registry = None          # a registry that has never heard of the user codec
            try:
                got = LocalFileStore(ui, ud).fetch_blob("ku")
                outcome = ("returned", repr(got)[:60])
            except _DE as e:
                outcome = ("dds_error", e.error_code.name if e.error_code is not None else None)
            except BaseException as e:
                outcome = ("exc", type(e).__name__)
            res.evaluations += 1
            res.nontrivial("unregistered " + refname)
            if wrote != refname or outcome != ("dds_error", "PROTOCOL_NOT_FOUND"):
                res.violations.append({"what": "a blob written with the user codec %r (metadata: %r) is read where the codec is not registered: %s "
                                               "(expected: refused with PROTOCOL_NOT_FOUND)" % (refname, wrote, outcome),
                                       "input": {"reference": refname}, "kf": None})
    finally:
        codec_mod._registry = saved_registry
        shutil.rmtree(tmp, ignore_errors=True)
    # a pipeline run as a script: its result types (a frozen dataclass, an enum, a class with __eq__) are defined in
    # the script itself, that is in __main__. The script is run twice on one local store: the second process is served the stored
    # results, which are equal to what the functions build and are instances of the script's own classes
    SCRIPT = ("import sys\nsys.path.insert(0, %(repo)r)\nimport collections, dataclasses, enum, json\nimport dds\n\n"
              "@dataclasses.dataclass(frozen=True)\nclass Point:\n    x: int\n    y: float\n\n"
              "class Color(enum.Enum):\n    RED = 1\n    GREEN = 2\n\n"
              "class Label(object):\n    def __init__(self, text):\n        self.text = text\n    def __eq__(self, other):\n        return type(other) is type(self) and other.text == self.text\n"
              "    def __hash__(self):\n        return hash(self.text)\n\n"
              "def expected():\n    return {'points': [Point(1, 2.5), Point(-3, float('inf'))], 'color': Color.GREEN, 'label': Label('caf\\u00e9'), 'pair': (1, (2, 3))}\n\n"
              "def build():\n    sys.stderr.write('RAN build\\n')\n    return expected()\n\n"
              "@dds.data_function('/script/direct')\ndef direct():\n    sys.stderr.write('RAN direct\\n')\n    return [Color.RED, Point(0, 0.0)]\n\n"
              "dds.set_store('local', internal_dir=%(si)r, data_dir=%(sd)r)\n"
              "got = dds.keep('/script/built', build)\nd = direct()\nloaded = dds.load('/script/built')\n"
              "def ok(v):\n    return (v == expected() and type(v['points'][0]) is Point and v['color'] is Color.GREEN and type(v['label']) is Label and type(v['pair']) is tuple)\n"
              "print('RESULT ' + json.dumps({'kept_ok': ok(got), 'loaded_ok': ok(loaded), 'direct_ok': d == [Color.RED, Point(0, 0.0)] and d[0] is Color.RED and type(d[1]) is Point}))\n")
    tmps = tempfile.mkdtemp(prefix="ddsverif_c17s_")
    try:
        with open(os.path.join(tmps, "pipeline.py"), "w") as fh:
            fh.write(SCRIPT % {"repo": common.REPO, "si": os.path.join(tmps, "si"), "sd": os.path.join(tmps, "sd")})
        outs = []
        for run_i in (1, 2, 3):
            cp = subprocess.run([sys.executable, "-B", os.path.join(tmps, "pipeline.py")], capture_output=True, text=True, cwd=tmps, timeout=300)
            lines = [l for l in cp.stdout.splitlines() if l.startswith("RESULT ")]
            outs.append(dict(json.loads(lines[-1][7:]), ran=[l[4:] for l in cp.stderr.splitlines() if l.startswith("RAN ")]) if lines
                        else {"error": (cp.stderr.strip().splitlines() or ["no output"])[-1][:300]})
            res.evaluations += 1
            res.count("script_runs")
            res.nontrivial("script run %d" % run_i)
        want = [{"ran": ["build", "direct"], "kept_ok": True, "loaded_ok": True, "direct_ok": True}] + [{"ran": [], "kept_ok": True, "loaded_ok": True, "direct_ok": True}] * 2
        if outs != want:
            res.violations.append({"what": "a pipeline script whose result types are defined in the script (__main__) is run three times on one local store: the results "
                                           "served are not equal to what the functions build / not instances of the script's classes: %s" % (outs,),
                                   "input": {"script": SCRIPT % {"repo": "<repo>", "si": "<internal>", "sd": "<data>"}}, "kf": None})
    finally:
        shutil.rmtree(tmps, ignore_errors=True)
    res.rule = ("registry: %d seeded registration sequences (0..6 of add_codec / add_file_codec over 4 references x 5 types) each with 12 "
                "get_codec queries; end to end: %d values (empty / non-ASCII / 1 MB text and bytes, None, objects, pandas frame, user type) x "
                "{same process, after add_file_codec, after add_codec on top, fresh process}; one case = one sequence / one value" % (len(reqs), len(values(rng))))
    uniq = {}
    for v in res.violations:
        uniq.setdefault(v["what"][:60], v)
    res.violations = list(uniq.values())[:6]
    return res
