"""C18 - graph export is faithful and does not perturb the evaluation.

Correspondence: nodes, solid and dashed edges of `_plotting._structure` (and of the exported DOT file,
parsed back) equal the Lean specification `graphOf` of the same interaction tree; result, signatures,
stored and committed keys are equal with and without export.
Property oracle (implementation only, recomputed from the abstract program): the exported graph is
acyclic, contains every kept path, its solid / dashed edges are exactly those the property describes,
every other edge is dotted and points into a keep with run-time arguments from a head of an earlier
sibling; export succeeds for every pipeline that evaluates.
"""
import json
import os
import re
import tempfile

from . import common, hist, pipeline, progs

DESIGN_REF = "DESIGN.md §5 C18"
ASSUMPTIONS = ["kept nodes of the generated pipelines have pairwise different signatures (two paths kept with one signature collapse "
               "into one node in the code: DESIGN §6 #18)"]


def spec_graph(world, entry):
    """the graph the property describes, from the abstract program (independent of Lean and of dds)"""
    byname = dict((f["name"], f) for f in world["funs"])
    nodes, solid, dashed = [], set(), set()

    def heads(fname, via_path):
        """kept nodes visible from a call of fname (kept at via_path or by its own data path)"""
        f = byname[fname]
        p = via_path or f.get("store_path")
        if p:
            return [p]
        out = []
        for it in f["items"]:
            out += item_heads(it)
        return out

    def item_heads(it):
        if it["k"] in ("call", "ref"):
            return heads(it["f"], None)
        if it["k"] == "keep":
            return [it["path"]]
        return []

    def walk(fname, via_path, seen):
        f = byname[fname]
        p = via_path or f.get("store_path")
        for it in f["items"]:
            if "f" in it and it["k"] != "eval":
                walk(it["f"], it["path"] if it["k"] == "keep" else None, seen)
        if p:
            if p not in nodes:
                nodes.append(p)
            for it in f["items"]:
                for u in item_heads(it):
                    solid.add((u, p))
                if it["k"] == "load":
                    dashed.add((it["path"], p))
                    if it["path"] not in nodes:
                        nodes.append(it["path"])
    root_path = entry.get("path") if entry["kind"] == "keep" else None
    walk(entry["fun"], root_path, set())
    return set(nodes), solid, dashed


def parse_dot(txt):
    nodes = set(re.findall(r'^\s*"([^"]+)"\s*\[', txt, flags=re.M))
    edges = []
    for m in re.finditer(r'^\s*"([^"]+)"\s*->\s*"([^"]+)"\s*\[([^\]]*)\]', txt, flags=re.M):
        st = re.search(r'style=(\w+)', m.group(3))
        edges.append((m.group(1), m.group(2), st.group(1) if st else "solid"))
    return nodes, edges


def acyclic(edges):
    adj = {}
    for (a, b) in edges:
        adj.setdefault(a, set()).add(b)
    state = {}

    def dfs(n):
        if state.get(n) == 1:
            return False
        if state.get(n) == 2:
            return True
        state[n] = 1
        for m in adj.get(n, ()):
            if not dfs(m):
                return False
        state[n] = 2
        return True
    return all(dfs(n) for n in list(adj))


def run(ctx):
    res = common.Result()
    rng = ctx["rng"]
    thorough = ctx["tier"] == "thorough"
    common.import_dds()
    from dds import _plotting
    nworlds = 150 if thorough else 30
    # the whole matrix of load shapes (where the load sits x who produces the path x when), each under both entry
    # styles, then random pipelines (every 5th with loads)
    cases = []
    for placement in ("root", "helper", "kept", "datafn", "feeds_keep"):
        for producer in ("datafn", "keep"):
            for order in ("before", "earlier"):
                for ek in ("eval", "keep"):
                    w, _ = progs.gen_load_world(rng, placement=placement, producer=producer, order=order)
                    cases.append((w, True, ek))
    for wi in range(nworlds):
        if wi % 5 == 4:
            w, _ = progs.gen_load_world(rng, order=rng.choice(["before", "earlier"]))
            cases.append((w, True, None))
        else:
            cases.append((progs.gen_world(rng), False, None))
    # kept nodes shared by several kept parents, next to different siblings in different orders
    for _ in range(40 if thorough else 12):
        cases.append((progs.gen_shared_keeps_world(rng), False, None))
    # names that are words of the DOT language, or need quoting there: all kept paths under one directory, so that whatever
    # label is derived from them (full path, last segment, path relative to the common directory) may be such a word
    KW = ["graph", "node", "edge", "digraph", "subgraph", "strict", "Graph", "NODE", "a b", "x.y", "n-1", "0", "label"]
    for ki in range(12 if thorough else 4):
        w = progs.gen_world(rng)
        mapping = {}

        def ren(p_):
            if p_ not in mapping:
                mapping[p_] = "/kw/" + (KW[(len(mapping) + ki) % len(KW)] if len(mapping) < len(KW) else "p%d" % len(mapping))
            return mapping[p_]
        for f in w["funs"]:
            if f.get("store_path"):
                f["store_path"] = ren(f["store_path"])
            for it in f["items"]:
                if it.get("path"):
                    it["path"] = ren(it["path"])
        cases.append((w, False, "eval"))
    import dds._config as cfg
    for wi, (w, with_loads, ek) in enumerate(cases):
        ek = ek or ("eval" if rng.random() < 0.6 else "keep")
        # the documented option extra_debug (on by default) switched off for every third pipeline: the export is requested the same way
        nodebug = wi % 3 == 1
        cfg.set_option("extra_debug", not nodebug)
        res.count("extra_debug_" + ("off" if nodebug else "on"))
        entry = {"kind": "eval", "fun": "f0"} if ek == "eval" else {"kind": "keep", "fun": "f0", "path": "/top"}
        with pipeline.Session("memory", tag="c18") as s:
            s.set_world(w)
            msteps = [{"set_store": "dict"}, {"world": progs.model_world(w, s.extmod)}]
            if with_loads:
                pe = {"kind": "direct", "fun": "fp"} if any(f["name"] == "fp" and f.get("store_path") for f in w["funs"]) else {"kind": "keep", "fun": "fp", "path": "/prod"}
                s.run(pe)
                msteps.append({"run": {"entry": pe}})
            out = os.path.join(s.dir, "graph.dot")
            # with export on a fresh store lineage, then without on an identical second lineage
            r, rr = s.run(entry, {"export_graph": out} if entry["kind"] == "eval" else None)
            msteps.append({"run": {"entry": entry}})
            res.evaluations += 1
            res.nontrivial(json.dumps(sorted((r["paths"] or {}).items())))
            case = {"entry": entry, "source": progs.render_world(w, "extmod"), "option_extra_debug": not nodebug}
            if r["error"] is not None:
                res.violations.append({"what": "evaluation with graph export fails: %s" % (r["error"],), "input": case, "kf": None})
                continue
            fis = s.real.captured_fis
            if entry["kind"] == "keep":
                fis = fis._replace(store_path=entry["path"])
            refs = {}
            if with_loads:
                # what draw_graph receives: the committed keys of the paths loaded but not produced by this evaluation
                committed = dict(getattr(s.real.store.inner, "_paths", {}))
                produced = set((r["paths"] or {}).keys())
                refs = dict((p, k) for (p, k) in committed.items() if p not in produced)
            try:
                g = _plotting._structure(fis, refs)
            except BaseException as e:
                res.violations.append({"what": "the graph of a pipeline that evaluates cannot be built: %s: %s" % (type(e).__name__, str(e)[:200]),
                                       "input": case, "kf": None})
                continue
            inodes = set(n.path for n in g.fnodes)
            isolid = set((e.from_path, e.to_path) for e in g.deps if e.edge_type == _plotting.DirectEdge)
            idashed = set((e.from_path, e.to_path) for e in g.deps if e.edge_type == _plotting.IndirectEdge)
            idotted = set((e.from_path, e.to_path) for e in g.deps if e.edge_type == _plotting.ImplicitEdge)
            wn, ws, wd = spec_graph(w, entry)
            bad = None
            # C18-KF1 (nodes keyed by signature): kept paths that share a signature are one node in the code. Such a
            # pipeline is compared modulo that identification: only a difference that remains is a new violation.
            raw_nodes, raw_edges = set(inodes), set(isolid | idashed | idotted)
            sig_of = dict(r["paths"] or {})
            if entry["kind"] == "keep":
                sig_of.setdefault(entry["path"], "<root>")
            classes = {}
            for p_, k_ in sig_of.items():
                classes.setdefault(k_, []).append(p_)
            shared = dict((p_, min(ps)) for ps in classes.values() if len(ps) > 1 for p_ in ps)
            kf = None
            if shared:
                q = lambda x: shared.get(x, x)
                qe = lambda es: set((q(a), q(b)) for (a, b) in es if q(a) != q(b))
                if (wn - inodes or isolid != ws or idashed != wd):
                    kf = "C18-KF1"
                wn, inodes_q = set(map(q, wn)), set(map(q, inodes))
                ws, wd = qe(ws), qe(wd)
                isolid, idashed, idotted = qe(isolid), qe(idashed), qe(idotted)
                inodes = inodes_q
            if not acyclic(list(isolid | idashed | idotted)):
                bad = "the graph has a cycle"
            elif not wn <= inodes:
                bad = "kept / loaded paths %s are missing from the nodes %s" % (sorted(wn - inodes), sorted(inodes))
            elif isolid != ws:
                bad = "solid edges differ from the property: extra %s, missing %s" % (sorted(isolid - ws), sorted(ws - isolid))
            elif idashed != wd:
                bad = "dashed edges differ from the property: extra %s, missing %s" % (sorted(idashed - wd), sorted(wd - idashed))
            else:
                # dotted edges: into a keep with run-time arguments (or a callee with parameters), from kept nodes
                for (a, b) in idotted:
                    if a not in inodes or b not in inodes or a == b:
                        bad = "dotted edge %s -> %s does not connect two nodes" % (a, b)
            if bad is None and entry["kind"] == "eval":
                try:
                    dn, de = parse_dot(open(out).read())
                    if dn != raw_nodes or set((a, b) for (a, b, _) in de) != raw_edges:
                        bad = "the exported file does not show the computed graph: nodes %s edges %s" % (sorted(dn), sorted(de))
                except BaseException as e:
                    bad = "the exported graph file cannot be read: %s" % e
            if bad is None and entry["kind"] == "eval":
                # the same evaluation again, on the store that now holds every result: the graph is a function of the code, not of
                # what the store happens to hold
                out2 = os.path.join(s.dir, "graph_warm.dot")
                rw, _ = s.run(entry, {"export_graph": out2})
                res.evaluations += 1
                res.count("exports_on_the_warm_store")
                if rw["error"] is not None:
                    bad = "the evaluation with graph export fails on the store that holds the results of the first one: %s" % (rw["error"],)
                else:
                    try:
                        dn2, de2 = parse_dot(open(out2).read())
                        if dn2 != dn or sorted(de2) != sorted(de):
                            bad = "the graph exported on the warm store differs from the one exported on the cold store: nodes %s edges %s (cold: nodes %s edges %s)" % (
                                sorted(dn2), sorted(de2), sorted(dn), sorted(de))
                    except BaseException as e:
                        bad = "the graph file exported on the warm store cannot be read: %s" % e
            if bad:
                res.violations.append({"what": bad, "input": case, "kf": None})
                continue
            if kf:
                res.count("kf1_two_paths_one_signature")
                res.violations.append({"what": "paths %s share a signature and appear as one node" % sorted(shared), "input": case, "kf": kf})
                continue
            # same evaluation without export on a fresh store: same result / signatures / stored keys
            with pipeline.Session("memory", tag="c18b") as s2:
                s2.modname, s2.extmod = s.modname, s.extmod
                s2.dir_saved = s2.dir
                s2.set_world(w)
                if with_loads:
                    s2.run(pe)
                r2, _ = s2.run(entry)
                if r2["value"] != r["value"] or r2["paths"] != r["paths"] or sorted(r2["stored"] or []) != sorted(r["stored"] or []) or r2["synced"] != r["synced"]:
                    res.violations.append({"what": "requesting the graph changed the evaluation: value %r vs %r, signatures equal: %s" % (r["value"], r2["value"], r2["paths"] == r["paths"]),
                                           "input": case, "kf": None})
            if ctx["driver_ok"]:
                ans = common.drv_batch([{"op": "history", "max": 10000, "steps": msteps}])[0]
                outs = ans.get("ok") or []
                mg = outs[-1].get("graph") if outs else None
                if not mg:
                    res.disagreements.append({"what": "no graph from the model", "detail": str(ans)[:300], "case": case})
                else:
                    # the line-by-line model of _structure (DdsModel/Structure.lean): every node and every edge, dotted ones included
                    ms = outs[-1].get("structure")
                    if not ms or "error" in ms:
                        res.disagreements.append({"what": "no graph from the line-by-line model of _structure", "detail": str(ms)[:300], "case": case})
                    else:
                        ty = {_plotting.DirectEdge: "solid", _plotting.IndirectEdge: "dashed", _plotting.ImplicitEdge: "dotted"}
                        impl_edges = sorted((e.from_path, e.to_path, ty[e.edge_type]) for e in g.deps)
                        model_edges = sorted(map(tuple, ms["edges"]))
                        if sorted(ms["nodes"]) != sorted(raw_nodes) or impl_edges != model_edges:
                            res.disagreements.append({"what": "_structure differs from its line-by-line Lean model (structureM)",
                                                      "impl": [sorted(raw_nodes), impl_edges], "model": [sorted(ms["nodes"]), model_edges], "case": case})
                        res.count("structure_graphs_compared_exactly")
                    mn, msol, mda = set(mg["nodes"]), set(map(tuple, mg["solid"])), set(map(tuple, mg["dashed"]))
                    if mn != inodes or msol != isolid or mda != idashed:
                        res.disagreements.append({"what": "_structure differs from the Lean specification graphOf",
                                                  "impl": [sorted(inodes), sorted(isolid), sorted(idashed)],
                                                  "model": [sorted(mn), sorted(msol), sorted(mda)], "case": case})
            if wi < 2:
                res.sample({"source": case["source"], "nodes": sorted(inodes), "solid": sorted(isolid), "dashed": sorted(idashed), "dotted": sorted(idotted)})
    cfg.reset_option("extra_debug")
    # keeps made inside methods of a class (own and inherited methods), and a later kept function that loads such a path: every path
    # the evaluation commits is a node of the exported graph, with the solid / dashed edges the property describes (outside the
    # model's syntax: the real graph against the expectation written next to the program)
    import shutil
    import sys
    real = pipeline.real_runner()
    for ci, inherit in enumerate([False, True]):
        base = tempfile.mkdtemp(prefix="ddsverif_c18c_")
        pkg = "c18c_%d_%d" % (os.getpid(), ci)
        try:
            real.reset_process_state()
            real.set_store("memory", os.path.join(base, "si"), os.path.join(base, "sd"))
            cls = ("class Base(object):\n    def fit(self):\n        return dds.keep('/cm/fit', fit_impl)\n\n"
                   "class Model(Base):\n    def features(self):\n        return dds.keep('/cm/features', feat_impl)\n\n") if inherit else (
                   "class Model(object):\n    def fit(self):\n        return dds.keep('/cm/fit', fit_impl)\n\n"
                   "    def features(self):\n        return dds.keep('/cm/features', feat_impl)\n\n")
            src = ("import dds\nfrom ddsverif_rt import log, term\n\n"
                   "def fit_impl():\n    log('fit')\n    return term('fit')\n\ndef feat_impl():\n    log('feat')\n    return term('feat')\n\n" + cls +
                   "def out():\n    m = Model()\n    return term('out', m.fit(), m.features())\n\n"
                   "def consumer():\n    return term('consumer', dds.load('/cm/fit'))\n\n"
                   "def f0():\n    a = dds.keep('/cm/out', out)\n    b = dds.keep('/cm/consumer', consumer)\n    return term('f0', a, b)\n")
            os.makedirs(os.path.join(base, pkg), exist_ok=True)
            open(os.path.join(base, pkg, "__init__.py"), "w").close()
            with open(os.path.join(base, pkg, "main.py"), "w") as fh:
                fh.write(src)
            real.load_world(base, pkg + ".main", None, accept=pkg)
            out = os.path.join(base, "g.dot")
            r0 = real.run({"kind": "eval", "fun": "f0"})
            res.evaluations += 1
            if r0["error"] is not None:
                # the pipeline does not evaluate (without any export): nothing is promised about its graph
                res.count("class_method_pipelines_not_evaluating")
                continue
            real.reset_process_state()
            real.set_store("memory", os.path.join(base, "si2"), os.path.join(base, "sd2"))
            r = real.run({"kind": "eval", "fun": "f0"}, {"export_graph": out})
            res.evaluations += 1
            res.count("class_method_pipelines")
            res.nontrivial("class methods %s" % inherit)
            bad = None
            if r["error"] is not None:
                bad = "evaluation with graph export fails: %s" % (r["error"],)
            else:
                try:
                    dn, de = parse_dot(open(out).read())
                except BaseException as e:
                    dn, de, bad = set(), [], "the exported graph file cannot be read: %s" % e
                want_nodes = set((r["paths"] or {}).keys())
                want_solid = {("/cm/fit", "/cm/out"), ("/cm/features", "/cm/out")}
                got_solid = set((a, b) for (a, b, st) in de if st == "solid")
                got_dashed = set((a, b) for (a, b, st) in de if st == "dashed")
                if bad is None and (r["value"] != r0["value"] or r["paths"] != r0["paths"]):
                    bad = "the export changes the evaluation: %r / %r without, %r / %r with" % (r0["value"], r0["paths"], r["value"], r["paths"])
                if bad is None and not want_nodes <= dn:
                    bad = "kept paths %s are missing from the nodes %s" % (sorted(want_nodes - dn), sorted(dn))
                elif bad is None and got_solid != want_solid:
                    bad = "solid edges differ from the property: extra %s, missing %s" % (sorted(got_solid - want_solid), sorted(want_solid - got_solid))
                elif bad is None and got_dashed != {("/cm/fit", "/cm/consumer")}:
                    bad = "dashed edges differ from the property: %s" % sorted(got_dashed)
            if bad:
                res.violations.append({"what": bad, "input": {"source": src, "entry": {"kind": "eval", "fun": "f0"}}, "kf": None})
        finally:
            shutil.rmtree(base, ignore_errors=True)
            for k in list(sys.modules):
                if k.split(".")[0] == pkg:
                    del sys.modules[k]
    # a kept function that loads the path of a keep with an argument, both kept under two kept parents in the two orders: the
    # call-order (dotted) edge must not close a cycle with the load (dashed) edge
    base = tempfile.mkdtemp(prefix="ddsverif_c18l_")
    pkg = "c18l_%d" % os.getpid()
    try:
        real.reset_process_state()
        real.set_store("memory", os.path.join(base, "si"), os.path.join(base, "sd"))
        src = ("import dds\nfrom ddsverif_rt import log, term\n\n"
               "def y(k):\n    return term('y', k)\n\ndef x():\n    return term('x', dds.load('/g/y'))\n\n"
               "def a():\n    r1 = dds.keep('/g/y', y, 1)\n    r2 = dds.keep('/g/x', x)\n    return term('a', r1, r2)\n\n"
               "def b():\n    r2 = dds.keep('/g/x', x)\n    r1 = dds.keep('/g/y', y, 1)\n    return term('b', r1, r2)\n\n"
               "def f0():\n    return term('f0', dds.keep('/g/a', a), dds.keep('/g/b', b))\n")
        os.makedirs(os.path.join(base, pkg), exist_ok=True)
        open(os.path.join(base, pkg, "__init__.py"), "w").close()
        with open(os.path.join(base, pkg, "main.py"), "w") as fh:
            fh.write(src)
        real.load_world(base, pkg + ".main", None, accept=pkg)
        out = os.path.join(base, "g.dot")
        r = real.run({"kind": "eval", "fun": "f0"}, {"export_graph": out})
        res.evaluations += 1
        res.count("load_edge_pipelines")
        res.nontrivial("load edge and call order")
        bad = None
        if r["error"] is not None:
            bad = "evaluation with graph export fails: %s" % (r["error"],)
        else:
            dn, de = parse_dot(open(out).read())
            edges = [(a_, b_) for (a_, b_, _) in de]
            if not acyclic(edges):
                bad = "the exported graph has a cycle: edges %s" % sorted(de)
            elif ("/g/y", "/g/x", "dashed") not in de:
                bad = "the dashed edge /g/y -> /g/x (x loads the path of y) is missing: edges %s" % sorted(de)
        if bad:
            res.violations.append({"what": bad, "input": {"source": src, "entry": {"kind": "eval", "fun": "f0"}}, "kf": None})
        # the format of the export is the extension of the file: every format that the installed graphviz renders is accepted
        import subprocess
        for fmt in ("svg", "plain", "json", "gv", "xdot", "canon", "dot", "eps", "plain-ext", "json0", "dot_json", "fig", "tk"):
            try:
                ok_fmt = subprocess.run(["dot", "-T" + fmt], input=b"digraph { a -> b }", capture_output=True, timeout=60).returncode == 0
            except Exception:
                ok_fmt = False
            if not ok_fmt:
                res.count("export_formats_not_rendered_by_graphviz")
                continue
            outf = os.path.join(base, "g_fmt." + fmt)
            rf = real.run({"kind": "eval", "fun": "f0"}, {"export_graph": outf})
            res.evaluations += 1
            res.count("export_formats")
            res.nontrivial("export format " + fmt)
            if rf["error"] is not None or not os.path.isfile(outf) or os.path.getsize(outf) == 0 or rf["value"] != r["value"]:
                res.violations.append({"what": "the export of the graph to a file with the extension .%s (a format graphviz renders) fails or changes the result: error %s, "
                                               "file written: %s" % (fmt, rf["error"], os.path.isfile(outf)),
                                       "input": {"source": src, "entry": {"kind": "eval", "fun": "f0"}, "export_file": "g_fmt." + fmt}, "kf": None})
    finally:
        shutil.rmtree(base, ignore_errors=True)
        for k in list(sys.modules):
            if k.split(".")[0] == pkg:
                del sys.modules[k]
    from . import kf_witnesses
    kf_witnesses.run_witness(res, "C18-KF1", kf_witnesses.c18_two_paths_one_signature,
                             "two paths kept with one signature appear as a single node of the graph")
    pipeline.close_ref()
    # the evaluated function is itself a data function (the usage of the tutorials): the graph is written at every evaluation that
    # asks for it - also when the result is in the store already, also into a file that holds the graph of another pipeline
    realr = pipeline.real_runner()
    for ri, store_kind in enumerate(["memory", "local", "local_lru"]):
        base = tempfile.mkdtemp(prefix="ddsverif_c18r_")
        pkg = "c18r_%d_%d" % (os.getpid(), ri)
        try:
            realr.reset_process_state()
            realr.set_store(store_kind, os.path.join(base, "si"), os.path.join(base, "sd"))
            src = ("import dds\nfrom ddsverif_rt import log, term\n\n"
                   "@dds.data_function('/c18/raw')\ndef raw():\n    return term('raw')\n\n"
                   "@dds.data_function('/c18/report')\ndef report():\n    return term('report', raw())\n\n"
                   "@dds.data_function('/c18/other')\ndef other():\n    return term('other', raw())\n")
            os.makedirs(os.path.join(base, pkg), exist_ok=True)
            open(os.path.join(base, pkg, "__init__.py"), "w").close()
            with open(os.path.join(base, pkg, "main.py"), "w") as fh:
                fh.write(src)
            realr.load_world(base, pkg + ".main", None, accept=pkg)
            graphs = []
            for step, (fun, fname) in enumerate([("report", "g1.dot"), ("report", "g2.dot"), ("other", "shared.dot"), ("report", "shared.dot"), ("report", "g1.dot")]):
                out = os.path.join(base, fname)
                r = realr.run({"kind": "eval", "fun": fun}, {"export_graph": out})
                res.evaluations += 1
                res.count("data_function_root_exports")
                res.nontrivial("data function root export %s %d" % (store_kind, step))
                bad = None
                want_nodes = {"/c18/raw", "/c18/" + fun}
                if r["error"] is not None:
                    bad = "the evaluation fails: %s" % (r["error"],)
                elif not os.path.exists(out):
                    bad = "the graph was requested but the file %s was not written" % fname
                else:
                    try:
                        dn, de = parse_dot(open(out).read())
                    except BaseException as e:
                        dn, de = None, str(e)
                    if dn != want_nodes:
                        bad = "the file %s shows the nodes %s, the evaluation of %s keeps %s" % (fname, sorted(dn) if dn is not None else de, fun, sorted(want_nodes))
                if bad:
                    res.violations.append({"what": "evaluation number %d (%s, a data function, graph exported to %s): %s" % (step + 1, fun, fname, bad),
                                           "input": {"source": src, "store": store_kind, "step": step}, "kf": None})
                    break
                if step in (1, 4):
                    os.remove(out)
        finally:
            shutil.rmtree(base, ignore_errors=True)
            for k in list(sys.modules):
                if k.split(".")[0] == pkg:
                    del sys.modules[k]
    res.rule = ("40 load shapes (placement x producer x order x entry) + %d generated pipelines (every 5th with loads) x entry {eval with DOT export, keep}; nesting depth <= 8, shared sub-nodes, run-time-"
                "argument keeps; one case = one pipeline, distinct by its signature map" % nworlds)
    res.violations = [v for v in res.violations if not v.get('kf')][:5] + [v for v in res.violations if v.get('kf')]
    return res
