"""C19 - the DBFS store honours its commit type and keeps legacy blobs readable.

Run against an in-process fake of the dbutils file-system API (harness/fakedbutils.py).
Correspondence: operation sequences on DBFSStore answer like the Lean `DbfsSt.step`, and the files left
under the data directory (copies, redirect records) are those of the model; accepted commit-type spellings
and the reference -> codec table are regenerated into Generated/Facts.lean and re-proved
(documented_names_accepted, legacy_alias_kind).
Property oracle (implementation only): every documented commit type is accepted by set_store; 'full'
leaves a byte-identical copy of each kept result plus a redirect record, 'links only' just the record,
'none' nothing; keep returns correct values under all three; load works whenever the record exists; blobs
whose metadata names a legacy reference decode to the value that was written.
"""
import json
import os
import shutil
import tempfile
from collections import OrderedDict

from . import common
from .c12 import Obj, apply_op
from .c08 import gen_paths, gen_ops

DESIGN_REF = "DESIGN.md §5 C19"
ASSUMPTIONS = ["the real DBFS is out of reach: the dbutils file-system API is faked over a local directory (cp, head, put, rm)",
               "a store keeps one commit type for its lifetime"]

DOCUMENTED = {"full": "FULL", "links_only": "LINK_ONLY", "none": "NO_COMMIT"}


def files_under(root):
    out = {}
    for r, _, fs in os.walk(root):
        for f in fs:
            p = os.path.join(r, f)
            out[os.path.relpath(p, root)] = open(p, "rb").read()
    return out


def run(ctx):
    res = common.Result()
    rng = ctx["rng"]
    dds = common.import_dds()
    import dds._api as api
    from dds.structures import DDSException
    from .fakedbutils import FakeDbutils, make_dbfs_store
    thorough = ctx["tier"] == "thorough"
    saved = api._store_var
    tmpdirs = []

    def mkd():
        d = tempfile.mkdtemp(prefix="ddsverif_c19_")
        tmpdirs.append(d)
        return d
    # the scratch directory of the process has a name with characters that a URI escapes (a space, '@', '+', a non-ASCII letter: the
    # '<workspace>@tmp' of a CI server): the store hands local files to dbutils by name, whatever the name
    odd_tmp = os.path.join(tempfile.mkdtemp(prefix="ddsverif_c19t_"), "nightly pipeline@tmp+\u00e9")
    os.makedirs(odd_tmp)
    saved_tmp = (tempfile.tempdir, os.environ.get("TMPDIR"))
    tempfile.tempdir = odd_tmp
    os.environ["TMPDIR"] = odd_tmp
    try:
        # ---- documented spellings, end to end through dds.keep / dds.load ----
        for spelling, member in DOCUMENTED.items():
            for variant in (spelling, spelling.upper(), None if member == "FULL" else spelling):
                d = mkd()
                case = {"commit_type": variant}
                res.evaluations += 1
                res.nontrivial("spelling %r" % (variant,))
                try:
                    api.set_store("dbfs", "dbfs:/dds_internal", "dbfs:/dds_data", FakeDbutils(d), variant, None)
                except BaseException as e:
                    res.violations.append({"what": "set_store('dbfs', commit_type=%r) is rejected (%s: %s) although the commit type '%s' is documented" % (
                        variant, type(e).__name__, str(e)[:60], spelling), "input": case, "kf": None})
                    continue
                got = api._store_var._commit_type.name
                if got != member:
                    res.violations.append({"what": "commit_type=%r gives %s, documented meaning is %s" % (variant, got, member), "input": case, "kf": None})
                    continue
                # keep three kinds of results
                vals = {"/a/text": "some text é", "/a/b/bytes": b"\x00\x01bytes", "/obj": {"k": [1, 2, 3]},
                        # a result that is None is a result like any other: its record and blob exist, it loads (as None)
                        "/a/none": None,
                        # larger than what one dbutils.fs.head call returns (65536 bytes), characters of 2 and 3 bytes
                        "/a/large_text": "h\u00e9\u20ac\n" * 30000, "/a/large_bytes": bytes(range(256)) * 400}
                ret = {}
                for i, (p, v) in enumerate(vals.items()):
                    def f(v=v):
                        return v
                    f.__module__ = "__main__"
                    try:
                        ret[p] = api._store_var  # placeholder to keep flake quiet
                        key = "sig%d" % i
                        api._store_var.store_blob(key, v, None)
                        api._store_var.sync_paths(OrderedDict([(p, key)]))
                        ret[p] = api._store_var.fetch_blob(key)
                    except BaseException as e:
                        ret[p] = "EXC:%s:%s" % (type(e).__name__, str(e)[:80])
                    if ret[p] != v or type(ret[p]) is not type(v):
                        res.violations.append({"what": "under commit type %s the blob for %s reads back as %.200r (%s)" % (member, p, ret[p], type(ret[p]).__name__), "input": case, "kf": None})
                # results whose type derives from str / bytes (a str-valued enum member, a subclass of bytes): they come back as themselves
                from .c17 import Color, Digest, TaggedStr
                for j, v2 in enumerate([Color.RED, Digest(b"\x01\x02"), TaggedStr("t", tag=3)]):
                    key2 = "sigsub%d" % j
                    try:
                        api._store_var.store_blob(key2, v2, None)
                        got2 = api._store_var.fetch_blob(key2)
                    except BaseException as e:
                        got2 = "EXC:%s:%s" % (type(e).__name__, str(e)[:80])
                    res.evaluations += 1
                    if type(got2) is not type(v2) or got2 != v2 or getattr(got2, "tag", None) != getattr(v2, "tag", None):
                        res.violations.append({"what": "under commit type %s a result of type %s (%r) reads back as %r (%s)" % (
                            member, type(v2).__name__, v2, got2, type(got2).__name__), "input": case, "kf": None})
                data = files_under(os.path.join(d, "dds_data")) if os.path.isdir(os.path.join(d, "dds_data")) else {}
                want = {}
                if member in ("FULL", "LINK_ONLY"):
                    for i, p in enumerate(vals):
                        want["_dds_meta" + p] = "record"
                if member == "FULL":
                    want["a/text"] = vals["/a/text"].encode("utf-8")
                    want["a/b/bytes"] = vals["/a/b/bytes"]
                    want["a/large_text"] = vals["/a/large_text"].encode("utf-8")
                    want["a/large_bytes"] = vals["/a/large_bytes"]
                    want["obj"] = "pickle"
                    want["a/none"] = "pickle"
                bad = None
                if set(data) != set(want):
                    bad = "files under the data directory: %s, expected %s" % (sorted(data), sorted(want))
                else:
                    for k, w in want.items():
                        if isinstance(w, bytes) and data[k] != w:
                            bad = "the copy %s is not byte-identical to the kept result" % k
                        if w == "record":
                            i = list(vals).index(k[len("_dds_meta"):])
                            if json.loads(data[k].decode("utf-8")).get("redirection_key") != "sig%d" % i:
                                bad = "redirect record %s does not name the key" % k
                if bad:
                    res.violations.append({"what": "commit type %s: %s" % (member, bad), "input": case, "kf": None})
                for i, (p, v) in enumerate(vals.items()):
                    api._store_var = api._store_var
                    try:
                        lv = dds.load(p)
                        ok = (lv == v)
                    except BaseException as e:
                        lv, ok = "EXC:" + type(e).__name__, False
                    should = member in ("FULL", "LINK_ONLY")
                    if ok != should:
                        res.violations.append({"what": "commit type %s: load(%s) gives %.200r (record exists: %s)" % (member, p, lv, should), "input": case, "kf": None})
        # ---- the store is configured again in the same process: same directories, same dbutils object, another commit
        # type (a notebook cell that is re-run with another setting): the latest setting decides ----
        for order in (["full", "links_only", "none"], ["none", "full", "links_only"], ["links_only", "none", "full"]):
            d = mkd()
            db = FakeDbutils(d)
            for ci, ct in enumerate(order):
                case = {"reconfigured": order[: ci + 1]}
                res.evaluations += 1
                res.nontrivial("reconfigure %s" % order[: ci + 1])
                try:
                    api.set_store("dbfs", "dbfs:/dds_internal", "dbfs:/dds_data", db, ct, None)
                    key, p, v = "rsig%d" % ci, "/r/p%d" % ci, "text %d" % ci
                    api._store_var.store_blob(key, v, None)
                    api._store_var.sync_paths(OrderedDict([(p, key)]))
                except BaseException as e:
                    res.violations.append({"what": "reconfiguring the dbfs store with commit_type=%r fails: %s: %s" % (ct, type(e).__name__, str(e)[:80]),
                                           "input": case, "kf": None})
                    break
                data = files_under(os.path.join(d, "dds_data")) if os.path.isdir(os.path.join(d, "dds_data")) else {}
                has_copy = ("r/p%d" % ci) in data
                has_record = ("_dds_meta/r/p%d" % ci) in data
                want_copy, want_record = (ct == "full"), (ct in ("full", "links_only"))
                if (has_copy, has_record) != (want_copy, want_record):
                    res.violations.append({"what": "after set_store(..., commit_type=%r) on directories already configured in this process, a keep "
                                                   "writes copy=%s record=%s (expected copy=%s record=%s)" % (ct, has_copy, has_record, want_copy, want_record),
                                           "input": case, "kf": None})
                # what the earlier settings recorded is still there for the current one: every path that has a redirect record
                # resolves to its key and loads, whatever the commit type of the store that reads it
                for cj in range(ci + 1):
                    if order[cj] == "none":
                        continue
                    pj, kj, vj = "/r/p%d" % cj, "rsig%d" % cj, "text %d" % cj
                    try:
                        got_k = dict(api._store_var.fetch_paths([pj])).get(pj)
                        got_v = dds.load(pj)
                    except BaseException as e:
                        got_k, got_v = "EXC:" + type(e).__name__, str(e)[:80]
                    res.evaluations += 1
                    if got_k != kj or got_v != vj:
                        res.violations.append({"what": "path %s was committed with commit type %r; under the store configured next with commit type %r it resolves to "
                                                       "%r / loads as %r (expected %r / %r)" % (pj, order[cj], ct, got_k, got_v, kj, vj), "input": case, "kf": None})
                        break
        # ---- directories given as URIs with an authority (a bucket, a container): everything the store writes and reads lies
        # under the two URIs as they were given, and what is kept there loads back ----
        for (iu, du) in (("s3://bkt-internal/team/dds/internal", "s3://bkt-published/dds/data"),
                         ("abfss://work@acme.dfs.core.windows.net/dds/internal", "abfss://pub@acme.dfs.core.windows.net/dds/data"),
                         ("dbfs:/mnt/a/internal/", "dbfs:///mnt/b/data")):
            d = mkd()
            db = FakeDbutils(d)
            case = {"internal_dir": iu, "data_dir": du}
            res.evaluations += 1
            res.nontrivial("uri %s" % iu)
            try:
                api.set_store("dbfs", iu, du, db, "full", None)
                api._store_var.store_blob("usig", "text under a uri", None)
                api._store_var.sync_paths(OrderedDict([("/u/p", "usig")]))
                back = (dict(api._store_var.fetch_paths(["/u/p"])).get("/u/p"), api._store_var.fetch_blob("usig"), dds.load("/u/p"))
            except BaseException as e:
                back = "EXC:%s:%s" % (type(e).__name__, str(e)[:100])
            touched = sorted(set(x for c_ in db.fs.calls for x in c_[1:] if not str(x).startswith("file:")))
            norm = lambda u: u.replace("dbfs:///", "dbfs:/").rstrip("/")
            outside = [x for x in touched if not (norm(x).startswith(norm(iu)) or norm(x).startswith(norm(du)))]
            if back != ("usig", "text under a uri", "text under a uri") or outside or not touched:
                res.violations.append({"what": "store directories given as %s / %s: keep and load give %r; locations touched outside the two directories: %s" % (iu, du, back, outside[:4]),
                                       "input": case, "kf": None})
        # ---- legacy references ----
        for legacy, v, minimal in [(l_, v_, m_) for (l_, v_) in (("dbfs.string", "texte é"), ("dbfs.bytes", b"\x00raw\xff"), ("dbfs.pickle", {"a": (1, 2)}))
                                   for m_ in (False, True)]:
            d = mkd()
            st = make_dbfs_store(d)
            try:
                st.store_blob("klegacy", v, None)
            except BaseException as e:
                res.violations.append({"what": "the DBFS store cannot store a result of type %s: %s: %s" % (type(v).__name__, type(e).__name__, str(e)[:160]),
                                       "input": {"value": repr(v), "temporary_directory": tempfile.gettempdir()}, "kf": None})
                continue
            mp = os.path.join(d, "dds_internal", "blobs", "klegacy.meta")
            meta = json.load(open(mp))
            current = meta["protocol"]
            meta["protocol"] = legacy
            if minimal:
                # the metadata as an old release left it: the reference only, none of the fields added since
                meta = {"protocol": legacy}
            json.dump(meta, open(mp, "w"))
            res.evaluations += 1
            res.nontrivial("legacy " + legacy + (" minimal" if minimal else ""))
            if not st.has_blob("klegacy"):
                res.violations.append({"what": "a blob recorded under the legacy reference %s (metadata: %s) is reported absent" % (legacy, json.dumps(meta)),
                                       "input": {"legacy_reference": legacy, "metadata": meta}, "kf": None})
            try:
                got = st.fetch_blob("klegacy")
            except BaseException as e:
                got = "EXC:%s:%s" % (type(e).__name__, str(e)[:80])
            if got != v or type(got) is not type(v):
                res.violations.append({"what": "a blob written by %s and recorded under the legacy reference %s is decoded as %r instead of %r" % (current, legacy, got, v),
                                       "input": {"legacy_reference": legacy, "value": repr(v)}, "kf": None})
            # a legacy blob is then kept at a path, under every commit type
            for ct in ("FULL", "LINK_ONLY", "NO_COMMIT"):
                st2 = make_dbfs_store(d, ct)
                res.evaluations += 1
                try:
                    st2.sync_paths(OrderedDict([("/legacy/" + ct.lower(), "klegacy")]))
                    ok = True
                    err = None
                except BaseException as e:
                    ok, err = False, "%s: %s" % (type(e).__name__, str(e)[:80])
                data = files_under(os.path.join(d, "dds_data")) if os.path.isdir(os.path.join(d, "dds_data")) else {}
                rec = "_dds_meta/legacy/" + ct.lower()
                cp = "legacy/" + ct.lower()
                want_rec, want_cp = ct != "NO_COMMIT", ct == "FULL"
                if not ok or (rec in data) != want_rec or (cp in data) != want_cp:
                    res.violations.append({"what": "committing a path to a blob recorded under the legacy reference %s with commit type %s: %s; record written %s, copy written %s" % (
                        legacy, ct, err or "no error", rec in data, cp in data), "input": {"legacy_reference": legacy, "commit": ct}, "kf": None})
        # ---- operation sequences vs the model ----
        reqs, meta_l = [], []
        for i in range(120 if thorough else 30):
            ct = ["FULL", "LINK_ONLY", "NO_COMMIT"][i % 3]
            paths = gen_paths(rng, rng.randint(1, 4))
            ops = [op for op in gen_ops(rng, paths, rng.randint(2, 14)) if op[0] != "reopen"]
            if i < 6:
                # (the first sequence of every commit type, twice, always carries the directed part below)
                while len(paths) < 2:
                    paths = gen_paths(rng, 3)
                ops = [["store", "k1", 1], ["store", "k2", 2]] + [op for op in ops if op[0] not in ("sync", "fetch_paths")]
            stored_keys = sorted({op[1] for op in ops if op[0] == "store"})
            if len(paths) >= 2 and len(stored_keys) >= 2 and (i % 2 == 0 or i < 6):
                # directed: one commit gives the same key to two paths, one of which pointed elsewhere before (an alias next to
                # a path that moves); then both are resolved
                pa, pb = ["/" + "/".join(x) for x in paths[:2]]
                ops += [["sync", [[pa, stored_keys[0]]]], ["sync", [[pa, stored_keys[1]], [pb, stored_keys[1]]]], ["fetch_paths", [pa]], ["fetch_paths", [pb]]]
                # ... and: a commit of two paths, another commit re-points the second one, the first commit again (unchanged
                # pipeline re-run after another pipeline moved a shared path)
                ops += [["sync", [[pa, stored_keys[0]], [pb, stored_keys[1]]]], ["sync", [[pb, stored_keys[0]]]],
                        ["sync", [[pa, stored_keys[0]], [pb, stored_keys[1]]]], ["fetch_paths", [pb]], ["fetch_paths", [pa]]]
            d = mkd()
            st = make_dbfs_store(d, ct)
            outs = []
            for op in ops:
                o = apply_op(st, op, DDSException)
                if op[0] == "fetch_paths" and o == "EXC:FileNotFoundError":
                    o = "err"
                if isinstance(o, dict) and "closed" in o:
                    # (the flag of resource-like values is the business of C12)
                    o = dict((k_, v_) for (k_, v_) in o.items() if k_ != "closed")
                outs.append(o)
            data_root = os.path.join(d, "dds_data")
            data = files_under(data_root) if os.path.isdir(data_root) else {}
            copies = sorted("/" + k for k in data if not k.startswith("_dds_meta/"))
            records = sorted(["/" + k[len("_dds_meta/"):], json.loads(v.decode("utf-8"))["redirection_key"]] for k, v in data.items() if k.startswith("_dds_meta/"))
            reqs.append({"op": "storeops", "kind": "dbfs", "commit": ct, "ops": ops})
            meta_l.append((ct, ops, outs, copies, records))
            res.evaluations += 1
            res.count("commit_" + ct)
            res.nontrivial(ct + json.dumps(ops))
            # oracle: with a redirect record per committed path the store answers like a dictionary
            if ct in ("FULL", "LINK_ONLY"):
                from .c08 import dict_model
                want = dict_model(ops)
                for j, (o, wnt) in enumerate(zip(outs, want)):
                    if ops[j][0] in ("sync", "fetch_paths") and o != wnt:
                        res.violations.append({"what": "commit type %s: operation %d %s answers %s, a dictionary answers %s" % (ct, j, ops[j], o, wnt),
                                               "input": {"commit": ct, "ops": ops[: j + 1]}, "kf": None})
                        break
            # oracle on the files
            if ct == "NO_COMMIT" and data:
                res.violations.append({"what": "commit type none wrote under the data directory: %s" % sorted(data), "input": {"commit": ct, "ops": ops}, "kf": None})
            if ct == "FULL" and copies != sorted(p_ for (p_, _) in records):
                res.violations.append({"what": "commit type full: the paths with a redirect record are %s, the copies under the data directory are at %s (a copy per kept "
                                               "path, at the path, is expected)" % (sorted(p_ for (p_, _) in records), copies), "input": {"commit": ct, "ops": ops}, "kf": None})
            if ct == "LINK_ONLY" and copies:
                res.violations.append({"what": "commit type links_only copied data: %s" % copies, "input": {"commit": ct, "ops": ops}, "kf": None})
        if ctx["driver_ok"]:
            for rq, (ct, ops, outs, copies, records), a in zip(reqs, meta_l, common.drv_batch(reqs)):
                if a.get("ok") != outs or sorted(a.get("data", [])) != copies or sorted(a.get("redirect", [])) != records:
                    res.disagreements.append({"what": "DBFSStore (%s) differs from the model" % ct, "ops": ops, "impl": [outs, copies, records],
                                              "model": [a.get("ok"), sorted(a.get("data", [])), sorted(a.get("redirect", []))]})
        res.sample({"commit": meta_l[0][0], "ops": meta_l[0][1][:8], "answers": meta_l[0][2][:8], "copies": meta_l[0][3], "records": meta_l[0][4]})
    finally:
        api._store_var = saved
        tempfile.tempdir = saved_tmp[0]
        if saved_tmp[1] is None:
            os.environ.pop("TMPDIR", None)
        else:
            os.environ["TMPDIR"] = saved_tmp[1]
        shutil.rmtree(os.path.dirname(odd_tmp), ignore_errors=True)
        for d in tmpdirs:
            shutil.rmtree(d, ignore_errors=True)
    res.rule = ("documented commit-type spellings (lower/upper/default) with str / bytes / object results; legacy references dbfs.string, "
                "dbfs.bytes, dbfs.pickle; %d seeded operation sequences x commit types {FULL, LINK_ONLY, NO_COMMIT} against the fake dbutils; one "
                "case = one spelling / legacy reference / (commit type, sequence)" % len(reqs))
    uniq = {}
    for v in res.violations:
        uniq.setdefault(v["what"][:70], v)
    res.violations = list(uniq.values())[:8]
    return res
