"""Shared machinery of every check: Lean build + audit, driver access, verdict, evidence, replays.

Run with /venv/bin/python (the interpreter the repository's own test-suite uses). `dds` is always
imported from /repo's working tree (asserted in `import_dds`).
"""
import fcntl
import hashlib
import json
import os
import random
import re
import shutil
import subprocess
import sys
import tempfile
import time
import traceback

ROOT = os.path.dirname(os.path.dirname(os.path.abspath(__file__)))
LEAN_DIR = os.path.join(ROOT, "lean")
REPO = os.environ.get("DDS_REPO", "/repo")
DRV = os.path.join(LEAN_DIR, ".lake", "build", "bin", "ddsdrv")
ALLOWED_AXIOMS = {"propext", "Classical.choice", "Quot.sound"}
FORBIDDEN = re.compile(r"\b(sorry|admit|native_decide|bv_decide|implemented_by|unsafe)\b|^\s*axiom\s|maxHeartbeats\s+0\b", re.M)

TRUSTED_BASE = [
    "Lean 4.33 kernel; axioms of every property theorem audited to be within {propext, Classical.choice, Quot.sound}",
    "cryptographic idealisation: distinct symbolic digests (Sg terms) have distinct SHA-256/XOR bytes; a user string never spells a digest",
    "the hand-written Lean model is tied to /repo only by the correspondence check (sampled, model-directed) and by Generated/Facts.lean (regenerated from the imported code on every run)",
    "Python ast/inspect/name resolution, struct.pack, repr/str of dates and paths, pickle/parquet, POSIX file-system semantics are modelled or passed in, not verified",
]


class Infra(Exception):
    """infrastructure failure -> exit 2, never a VIOLATION"""


def seed():
    try:
        return int(os.environ.get("VERIF_SEED", "0"))
    except ValueError:
        return 0


def import_dds():
    """import dds from /repo's working tree, whatever is installed in the venv"""
    if sys.path[0] != REPO:
        sys.path.insert(0, REPO)
    os.environ.setdefault("DDS_PY_VERIF", "1")
    import logging
    logging.getLogger("dds").setLevel(logging.ERROR)
    import dds  # noqa

    assert os.path.realpath(dds.__file__).startswith(os.path.realpath(REPO) + os.sep), dds.__file__
    return dds


# ----------------------------------------------------------------------------------------------
# Lean: facts, build, audit
# ----------------------------------------------------------------------------------------------

class _Lock(object):
    def __init__(self):
        d = os.path.join(LEAN_DIR, ".lake")
        os.makedirs(d, exist_ok=True)
        self.path = os.path.join(d, "verif.lock")

    def __enter__(self):
        self.f = open(self.path, "w")
        fcntl.flock(self.f, fcntl.LOCK_EX)
        return self

    def __exit__(self, *a):
        fcntl.flock(self.f, fcntl.LOCK_UN)
        self.f.close()


def regenerate_facts():
    """Tie B: rewrite lean/Generated/Facts.lean from the code imported from /repo (only if it changed)."""
    p = subprocess.run(
        ["/venv/bin/python", "-B", os.path.join(ROOT, "harness", "extract_facts.py")],
        capture_output=True, text=True, timeout=120, cwd=ROOT,
    )
    if p.returncode != 0:
        return False, p.stdout + p.stderr
    new = p.stdout
    path = os.path.join(LEAN_DIR, "Generated", "Facts.lean")
    old = open(path).read() if os.path.exists(path) else None
    if old != new:
        with open(path, "w") as f:
            f.write(new)
    return True, ""


def lake_build(targets):
    """returns (ok, log). Serialised across concurrently running checks."""
    with _Lock():
        okf, logf = regenerate_facts()
        if not okf:
            return False, "extract_facts failed (the code no longer exposes a table the model reads):\n" + logf
        try:
            p = subprocess.run(["lake", "build"] + list(targets), cwd=LEAN_DIR, capture_output=True,
                               text=True, timeout=1500)
        except subprocess.TimeoutExpired:
            raise Infra("lake build timed out")
        except FileNotFoundError:
            raise Infra("lake not found")
        return p.returncode == 0, p.stdout + p.stderr


def strip_comments(src):
    # nested block comments are rare in our sources; handle one level + line comments
    src = re.sub(r"/-.*?-/", "", src, flags=re.S)
    src = re.sub(r"--[^\n]*", "", src)
    return src


def source_audit():
    bad = []
    for d in ("DdsModel", "DdsProofs", "Generated"):
        for r, _, fs in os.walk(os.path.join(LEAN_DIR, d)):
            for f in fs:
                if f.endswith(".lean"):
                    s = strip_comments(open(os.path.join(r, f)).read())
                    for m in FORBIDDEN.finditer(s):
                        bad.append("%s: %s" % (os.path.join(d, f), m.group(0).strip()))
    return bad


def property_theorems(pid):
    """names of the theorems in DdsProofs/Props/<pid>.lean (the property theorems and nothing else)"""
    path = os.path.join(LEAN_DIR, "DdsProofs", "Props", pid + ".lean")
    src = strip_comments(open(path).read())
    ns = re.findall(r"^namespace\s+(\S+)", src, flags=re.M)
    prefix = (ns[0] + ".") if ns else ""
    names = re.findall(r"^(?:protected\s+)?theorem\s+(\S+)", src, flags=re.M)
    return [prefix + n for n in names], path


def axioms_audit(pid):
    """`#print axioms` for every property theorem. returns (n_theorems, n_ok, problems)"""
    names, _ = property_theorems(pid)
    if not names:
        return 0, 0, ["no theorem found for " + pid]
    body = "import DdsProofs.Props.%s\n" % pid + "".join("#print axioms %s\n" % n for n in names)
    with tempfile.NamedTemporaryFile("w", suffix=".lean", delete=False, dir=tempfile.gettempdir()) as f:
        f.write(body)
        tmp = f.name
    try:
        with _Lock():
            p = subprocess.run(["lake", "env", "lean", tmp], cwd=LEAN_DIR, capture_output=True, text=True, timeout=600)
    finally:
        os.unlink(tmp)
    out = p.stdout + p.stderr
    problems = []
    ok = 0
    for n in names:
        m = re.search(r"'%s' depends on axioms: \[([^\]]*)\]" % re.escape(n), out.replace("\n", " "))
        m2 = re.search(r"'%s' does not depend on any axioms" % re.escape(n), out)
        if m2:
            ok += 1
        elif m:
            ax = {a.strip() for a in m.group(1).split(",") if a.strip()}
            extra = ax - ALLOWED_AXIOMS
            if extra:
                problems.append("%s uses axioms %s" % (n, sorted(extra)))
            else:
                ok += 1
        else:
            problems.append("%s: no #print axioms output (%s)" % (n, out.strip()[:300]))
    return len(names), ok, problems


# ----------------------------------------------------------------------------------------------
# driver
# ----------------------------------------------------------------------------------------------

def drv_batch(requests, timeout=900):
    """send a list of JSON-able requests to the model driver, return the list of answers"""
    if not requests:
        return []
    if not os.path.exists(DRV):
        raise DriverUnavailable("driver not built")
    data = "\n".join(json.dumps(r, ensure_ascii=True) for r in requests) + "\n"
    try:
        p = subprocess.run([DRV], input=data, capture_output=True, text=True, timeout=timeout)
    except subprocess.TimeoutExpired:
        raise Infra("driver timed out")
    lines = [l for l in p.stdout.split("\n") if l.strip()]
    if p.returncode != 0 or len(lines) != len(requests):
        raise DriverUnavailable("driver answered %d lines for %d requests (rc=%s): %s" % (
            len(lines), len(requests), p.returncode, p.stderr[-500:]))
    return [json.loads(l) for l in lines]


class DriverUnavailable(Exception):
    pass


# ----------------------------------------------------------------------------------------------
# results, verdict, evidence
# ----------------------------------------------------------------------------------------------

class Result(object):
    """What a property harness reports.

    disagreements : model vs implementation differences (correspondence broken) - list of dicts
    violations    : concrete failures of the PROPERTY on the real code - list of dicts with at least
                    {"what": str, "input": json-able, "kf": known-finding id or None}
    """

    def __init__(self):
        self.evaluations = 0
        self.distinct = set()
        self.samples = []
        self.disagreements = []
        self.violations = []
        self.stats = {}
        self.rule = ""
        self.traces_validated = 0
        self.kf_replayed = {}   # kf id -> bool (still reproduces on the real code)
        self.notes = []
        self.exhaustive = False

    def count(self, key, n=1):
        self.stats[key] = self.stats.get(key, 0) + n

    def nontrivial(self, key):
        self.distinct.add(key if isinstance(key, str) else json.dumps(key, sort_keys=True, default=str))

    def sample(self, s, limit=6):
        if len(self.samples) < limit:
            self.samples.append(s)


def load_known_findings():
    p = os.path.join(ROOT, "known_findings.json")
    if not os.path.exists(p):
        return {"findings": [], "fixed": []}
    return json.load(open(p))


def write_replay(pid, name, payload):
    d = os.path.join(ROOT, "replays", pid)
    os.makedirs(d, exist_ok=True)
    path = os.path.join(d, name + ".json")
    with open(path, "w") as f:
        json.dump(payload, f, indent=1, sort_keys=True, default=str)
    return path


def validate_evidence(path):
    schema = "/root/.vp/EVIDENCE.schema.json"
    if not os.path.exists(schema) or not shutil.which("python3-vt"):
        # minimal structural validation
        ev = json.load(open(path))
        for k in ("property_id", "tier", "seed", "level", "coverage", "wall_s"):
            if k not in ev:
                return "missing key " + k
        return None
    code = ("import json,sys,jsonschema\n"
            "jsonschema.validate(json.load(open(sys.argv[1])), json.load(open(sys.argv[2])))\n")
    p = subprocess.run(["python3-vt", "-c", code, path, schema], capture_output=True, text=True)
    return None if p.returncode == 0 else (p.stderr.strip().split("\n")[-1])


def run_check(pid, tier, harness_run, design_ref, extra_assumptions=(), lean_targets=None, replay=None):
    """The verdict rule of DESIGN §2.2. `harness_run(ctx) -> Result`."""
    t0 = time.time()
    sd = seed()
    out_lines = []
    ctx = {"pid": pid, "tier": tier, "seed": sd, "rng": random.Random(sd * 1000003 + int(pid[1:])),
           "replay": replay, "driver_ok": True, "proof_ok": True}
    proof_problems = []
    try:
        # 1. build (theorems of this property + driver)
        targets = lean_targets or ["ddsdrv", "DdsProofs.Props." + pid]
        ok, log = lake_build(targets)
        if not ok:
            errs = [l for l in log.split("\n") if "error" in l.lower()][:12]
            proof_problems.append("lake build failed: " + " | ".join(errs)[:1500])
            # the driver may still be buildable on its own
            ok2, _ = lake_build(["ddsdrv"])
            ctx["driver_ok"] = ok2 and os.path.exists(DRV)
        # 2. audit
        n_thm = n_ok = 0
        if ok:
            bad = source_audit()
            if bad:
                proof_problems.append("forbidden construct in Lean sources: " + "; ".join(bad[:5]))
            n_thm, n_ok, probs = axioms_audit(pid)
            proof_problems += probs
        else:
            try:
                n_thm = len(property_theorems(pid)[0])
            except Exception:
                n_thm = 0
        ctx["proof_ok"] = not proof_problems
        # 3. correspondence + property oracle on the real code
        try:
            res = harness_run(ctx)
        except DriverUnavailable as e:
            raise Infra("driver unavailable: %s" % e)
    except Infra as e:
        print("INFRASTRUCTURE FAILURE (%s): %s" % (pid, e))
        return 2
    except Exception:
        traceback.print_exc()
        print("INFRASTRUCTURE FAILURE (%s): harness crashed" % pid)
        return 2

    kf = load_known_findings()
    kf_ids = {f["id"]: f for f in kf.get("findings", []) if f.get("property") == pid}
    new_viol = [v for v in res.violations if not (v.get("kf") and v["kf"] in kf_ids)]
    known_hit = {}
    for v in res.violations:
        if v.get("kf") and v["kf"] in kf_ids:
            known_hit.setdefault(v["kf"], v)
    for fid, f in sorted(kf_ids.items()):
        rep = res.kf_replayed.get(fid)
        if rep is False:
            out_lines.append("NOTE: known finding %s no longer reproduces on the real code (stale entry)" % fid)
        else:
            out_lines.append("KNOWN-FINDING: property=%s %s: %s" % (pid, fid, f["what"]))

    exit_code = 0
    replay_path = None
    if new_viol:
        v = new_viol[0]
        replay_path = write_replay(pid, "violation_seed%d" % sd, {
            "property": pid, "seed": sd, "tier": tier, "kind": "failing-input", "violation": v,
            "other_violations": new_viol[1:6], "proof_problems": proof_problems,
            "disagreements": res.disagreements[:5]})
        out_lines.append("VIOLATION property=%s replay=%s" % (pid, replay_path))
        exit_code = 1
    elif proof_problems or res.disagreements:
        replay_path = write_replay(pid, "unproved_seed%d" % sd, {
            "property": pid, "seed": sd, "tier": tier, "kind": "no-failing-input-found",
            "no_longer_checks": proof_problems, "correspondence_broken": res.disagreements[:10],
            "note": "the property is no longer shown to hold: the named theorem(s)/correspondence do not check; "
                    "the failing-input search on the real code found nothing"})
        out_lines.append("VIOLATION property=%s replay=%s no-failing-input-found" % (pid, replay_path))
        exit_code = 1

    wall = time.time() - t0
    ev = {
        "property_id": pid, "tier": tier, "seed": sd, "level": "proof",
        "coverage": {
            "obligations": max(n_thm, 1), "discharged": n_ok if not proof_problems else min(n_ok, max(n_thm - 1, 0)),
            "checker_cmd": "cd lean && lake build %s && lake env lean <#print axioms of every theorem in DdsProofs/Props/%s.lean>" % (" ".join(targets), pid),
            "trusted_base": TRUSTED_BASE + list(extra_assumptions),
            "evaluations": res.evaluations, "distinct_nontrivial": len(res.distinct),
            "rule": res.rule, "samples": res.samples or ["(none)"],
            "traces_validated_against_impl": res.traces_validated or res.evaluations,
            "distribution": res.stats, "exhaustive": res.exhaustive,
            "theorems": property_theorems(pid)[0] if n_thm else [],
            "proof_problems": proof_problems,
            "correspondence_disagreements": len(res.disagreements),
            "known_findings_replayed": res.kf_replayed,
            "notes": res.notes,
            "design_ref": design_ref,
        },
        "assumptions": TRUSTED_BASE + list(extra_assumptions),
        "wall_s": round(wall, 2),
        "violations": len(new_viol) + (1 if (exit_code == 1 and not new_viol) else 0),
    }
    if ev["coverage"]["discharged"] < 1:
        # nothing was discharged (the proof does not build): the proof-level keys would not validate; the
        # generic keys (evaluations, distinct_nontrivial, samples) carry the evidence of this failing run
        ev["coverage"]["discharged_count"] = ev["coverage"].pop("discharged")
    os.makedirs(os.path.join(ROOT, "evidence"), exist_ok=True)
    evp = os.path.join(ROOT, "evidence", pid + ".json")
    with open(evp, "w") as f:
        json.dump(ev, f, indent=1, sort_keys=True, default=str)
    verr = validate_evidence(evp)
    if verr and exit_code == 0:
        print("INFRASTRUCTURE FAILURE (%s): evidence does not validate: %s" % (pid, verr))
        return 2
    for l in out_lines:
        print(l)
    print("%s %s seed=%d: theorems %d/%d, evaluations %d, distinct non-trivial %d, disagreements %d, "
          "violations %d new / %d known, %.1fs" % (
              pid, tier, sd, ev["coverage"].get("discharged", 0), n_thm, res.evaluations, len(res.distinct),
              len(res.disagreements), len(new_viol), len(known_hit), wall))
    return exit_code
