"""Execution log used by generated programs. It lives in a NON-accepted module on purpose: a
module-level list inside an accepted module would itself be a tracked variable of every function
that mentions it and would perturb the signatures."""
LOG = []


def log(name):
    LOG.append(name)
    return name


def clear():
    del LOG[:]


def snapshot():
    return list(LOG)
