"""Tie B: print lean/Generated/Facts.lean, obtained by reflection on the code imported from /repo.

Every table is read from the *imported* implementation (enum members, registries of freshly built
objects, option defaults, probing small pure functions on a fixed list of inputs) - never from a copy.
"""
import os
import sys

REPO = os.environ.get("DDS_REPO", "/repo")
sys.path.insert(0, REPO)


def lean_str(s):
    out = ['"']
    for ch in s:
        if ch == '"':
            out.append('\\"')
        elif ch == "\\":
            out.append("\\\\")
        elif ch == "\n":
            out.append("\\n")
        elif ch == "\r":
            out.append("\\r")
        elif ch == "\t":
            out.append("\\t")
        elif ord(ch) < 32 or ord(ch) == 127:
            out.append("\\x%02x" % ord(ch))
        else:
            out.append(ch)
    out.append('"')
    return "".join(out)


def lean_list(xs):
    return "[" + ", ".join(xs) + "]"


def main():
    import dds  # noqa
    assert os.path.realpath(dds.__file__).startswith(os.path.realpath(REPO) + os.sep)
    lines = ["/-! GENERATED on every run by harness/extract_facts.py from the code imported from /repo. Do not edit. -/",
             "namespace Dds.Facts", ""]
    sections = []
    here = os.path.dirname(os.path.abspath(__file__))
    sys.path.insert(0, here)
    import facts_sections
    for fn in facts_sections.SECTIONS:
        sections += fn(lean_str, lean_list)
        sections.append("")
    lines += sections
    lines.append("end Dds.Facts")
    sys.stdout.write("\n".join(lines) + "\n")


if __name__ == "__main__":
    main()
