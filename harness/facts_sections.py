"""The tables extracted from the imported code (one function per table; each returns Lean lines)."""


def hash_options(lean_str, lean_list):
    from dds._config import get_option
    return ["/-- default of the option `hash.max_sequence_size` -/",
            "def maxSequenceSizeDefault : Nat := %d" % int(get_option("hash.max_sequence_size"))]


def stages(lean_str, lean_list):
    from dds.structures import ProcessingStage
    names = [s.name for s in ProcessingStage.all_phases()]
    values = [s.value for s in ProcessingStage.all_phases()]
    members = [s.name for s in ProcessingStage]
    return ["/-- `ProcessingStage.all_phases()`: names, in order -/",
            "def stageOrder : List String := " + lean_list([lean_str(n) for n in names]),
            "/-- the enum values, in the same order -/",
            "def stageValues : List String := " + lean_list([lean_str(n) for n in values]),
            "/-- all members of the enum -/",
            "def stageMembers : List String := " + lean_list([lean_str(n) for n in members])]


def error_codes(lean_str, lean_list):
    from dds.structures import DDSErrorCode
    return ["/-- `DDSErrorCode`: (name, value) -/",
            "def errorCodes : List (String × Nat) := " + lean_list(["(%s, %d)" % (lean_str(c.name), int(c)) for c in DDSErrorCode])]


def _registry_tables(reg, lean_str, lean_list, prefix):
    from dds.structures_utils import SupportedTypeUtils as STU
    import collections
    probe = [("str", str), ("bytes", bytes), ("bytearray", bytearray), ("NoneType", type(None)), ("int", int),
             ("dict", dict), ("list", list), ("object", object), ("OrderedDict", collections.OrderedDict)]
    try:
        import pandas
        probe.append(("pandas.DataFrame", pandas.DataFrame))
    except Exception:
        pass
    rows = []
    for (nm, t) in probe:
        try:
            c = reg.get_codec(STU.from_type(t), None)
            rows.append("(%s, %s)" % (lean_str(nm), lean_str(c.ref())))
        except BaseException as e:
            rows.append("(%s, %s)" % (lean_str(nm), lean_str("ERROR:" + type(e).__name__)))
    refs = ["(%s, %s)" % (lean_str(r), lean_str(type(c).__name__)) for (r, c) in sorted(reg._protocols.items())]
    return ["/-- %s registry: python type ↦ reference of the codec that writes it -/" % prefix,
            "def %sTypeCodec : List (String × String) := %s" % (prefix, lean_list(rows)),
            "/-- %s registry: protocol reference ↦ class of the codec that reads it -/" % prefix,
            "def %sRefCodec : List (String × String) := %s" % (prefix, lean_list(refs))]


def codec_tables(lean_str, lean_list):
    import dds.codec as codec
    reg = codec._build_default_registry()
    out = _registry_tables(reg, lean_str, lean_list, "local")
    import os, sys, tempfile, shutil
    sys.path.insert(0, os.path.dirname(os.path.abspath(__file__)))
    from fakedbutils import make_dbfs_store
    d = tempfile.mkdtemp(prefix="ddsverif_facts_")
    try:
        st = make_dbfs_store(d)
        out += _registry_tables(st.codec_registry(), lean_str, lean_list, "dbfs")
    finally:
        shutil.rmtree(d, ignore_errors=True)
    return out


def commit_types(lean_str, lean_list):
    """which spellings set_store(commit_type=...) accepts, and the commit type each gives"""
    import os, sys, tempfile, shutil
    import dds._api as api
    sys.path.insert(0, os.path.dirname(os.path.abspath(__file__)))
    from fakedbutils import FakeDbutils
    from dds.codecs.databricks import CommitType
    rows = []
    d = tempfile.mkdtemp(prefix="ddsverif_facts_")
    saved = api._store_var
    try:
        for sp in ["full", "links_only", "none", "FULL", "LINK_ONLY", "NO_COMMIT", "link_only", "no_commit", "Links_Only", "bogus"]:
            try:
                api.set_store("dbfs", "dbfs:/i", "dbfs:/d", FakeDbutils(d), sp, None)
                rows.append("(%s, some %s)" % (lean_str(sp), lean_str(api._store_var._commit_type.name)))
            except BaseException as e:
                rows.append("(%s, none)" % lean_str(sp))
        try:
            api.set_store("dbfs", "dbfs:/i", "dbfs:/d", FakeDbutils(d), None, None)
            default = api._store_var._commit_type.name
        except BaseException:
            default = "ERROR"
    finally:
        api._store_var = saved
        shutil.rmtree(d, ignore_errors=True)
    return ["/-- `set_store('dbfs', commit_type=s)`: spelling ↦ resulting `CommitType` member (none: rejected) -/",
            "def commitTypeSpellings : List (String × Option String) := " + lean_list(rows),
            "def commitTypeDefault : String := " + lean_str(default),
            "def commitTypeMembers : List String := " + lean_list([lean_str(c.name) for c in CommitType])]


def signature_keys(lean_str, lean_list):
    """the vocabulary of signature keys: every `HK(...)` expression in the source of dds/introspect.py (for an f-string:
    its literal prefix), sorted; plus the sentinels of dds_hash. `buildReturnSig_inj` splits a
    signature by these prefixes: a new kind of key in the code must show up here."""
    import ast
    import inspect
    import dds.introspect as di
    import dds.fun_args as fa
    tree = ast.parse(inspect.getsource(di))
    keys = []
    for node in ast.walk(tree):
        if isinstance(node, ast.Call) and isinstance(node.func, ast.Name) and node.func.id == "HK" and node.args:
            a = node.args[0]
            if isinstance(a, ast.Constant) and isinstance(a.value, str):
                k = a.value
            elif isinstance(a, ast.JoinedStr) and a.values and isinstance(a.values[0], ast.Constant):
                k = a.values[0].value + "*"
            else:
                k = "<dynamic>"
            keys.append((node.lineno, node.col_offset, k))
    ordered = sorted(set(k for (_, _, k) in keys))      # a set: where and how often a key is built does not matter
    out = ["/-- every key (or key prefix, marked `*`) of a signature pair in dds/introspect.py -/",
           "def sigKeys : List String := " + lean_list([lean_str(k) for k in ordered])]
    src = inspect.getsource(fa)
    sentinels = sorted(set(ast.literal_eval(m) for m in __import__("re").findall(r'"__DDS_[A-Z_]+__"', src)))
    out += ["/-- the sentinel strings of dds_hash -/", "def hashSentinels : List String := " + lean_list([lean_str(k) for k in sentinels])]
    return out


SECTIONS = [hash_options, stages, error_codes, codec_tables, commit_types, signature_keys]
