"""The tables extracted from the imported code (one function per table; each returns Lean lines)."""


def hash_options(lean_str, lean_list):
    from dds._config import get_option
    return ["/-- default of the option `hash.max_sequence_size` -/",
            "def maxSequenceSizeDefault : Nat := %d" % int(get_option("hash.max_sequence_size"))]


def stages(lean_str, lean_list):
    from dds.structures import ProcessingStage
    names = [s.name for s in ProcessingStage.all_phases()]
    values = [s.value for s in ProcessingStage.all_phases()]
    members = [s.name for s in ProcessingStage]
    return ["/-- `ProcessingStage.all_phases()`: names, in order -/",
            "def stageOrder : List String := " + lean_list([lean_str(n) for n in names]),
            "/-- the enum values, in the same order -/",
            "def stageValues : List String := " + lean_list([lean_str(n) for n in values]),
            "/-- all members of the enum -/",
            "def stageMembers : List String := " + lean_list([lean_str(n) for n in members])]


def error_codes(lean_str, lean_list):
    from dds.structures import DDSErrorCode
    return ["/-- `DDSErrorCode`: (name, value) -/",
            "def errorCodes : List (String × Nat) := " + lean_list(["(%s, %d)" % (lean_str(c.name), int(c)) for c in DDSErrorCode])]


SECTIONS = [hash_options, stages, error_codes]
