"""The tables extracted from the imported code (one function per table; each returns Lean lines)."""


def hash_options(lean_str, lean_list):
    from dds._config import get_option
    return ["/-- default of the option `hash.max_sequence_size` -/",
            "def maxSequenceSizeDefault : Nat := %d" % int(get_option("hash.max_sequence_size"))]


SECTIONS = [hash_options]
