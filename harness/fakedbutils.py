"""An in-process fake of the dbutils file-system API used by dds.codecs.databricks.DBFSStore
(`fs.cp`, `fs.head`, `fs.put`, `fs.rm`), backed by a local directory. `file://` URIs are local files,
everything else lives under `root`."""
import os
import shutil


class FakeFS(object):
    def __init__(self, root):
        self.root = root
        os.makedirs(root, exist_ok=True)
        self.calls = []

    def _local(self, uri):
        uri = str(uri)
        if uri.startswith("file://"):
            return uri[len("file://"):]
        for pre in ("dbfs:", "dbfs://"):
            if uri.startswith(pre):
                uri = uri[len(pre):]
        return os.path.join(self.root, uri.lstrip("/"))

    def cp(self, src, dst, recurse=False):
        self.calls.append(("cp", str(src), str(dst)))
        s, d = self._local(src), self._local(dst)
        if not os.path.exists(s):
            raise FileNotFoundError("java.io.FileNotFoundException: " + str(src))
        os.makedirs(os.path.dirname(d) or ".", exist_ok=True)
        if os.path.isdir(s):
            if os.path.exists(d):
                shutil.rmtree(d)
            shutil.copytree(s, d)
        else:
            shutil.copyfile(s, d)
        return True

    def head(self, path, maxBytes=65536):
        """like dbutils.fs.head: at most the first maxBytes bytes of the file, as text"""
        self.calls.append(("head", str(path)))
        p = self._local(path)
        if not os.path.isfile(p):
            raise FileNotFoundError("java.io.FileNotFoundException: " + str(path))
        with open(p, "rb") as f:
            return f.read(maxBytes).decode("utf-8", errors="replace")

    def put(self, path, contents, overwrite=False):
        self.calls.append(("put", str(path)))
        p = self._local(path)
        if os.path.exists(p) and not overwrite:
            raise FileExistsError(str(path))
        os.makedirs(os.path.dirname(p) or ".", exist_ok=True)
        with open(p, "wb") as f:
            f.write(contents.encode("utf-8"))
        return True

    def rm(self, path, recurse=False):
        self.calls.append(("rm", str(path)))
        p = self._local(path)
        if os.path.isdir(p):
            shutil.rmtree(p)
        elif os.path.exists(p):
            os.remove(p)
        return True


class FakeDbutils(object):
    def __init__(self, root):
        self.fs = FakeFS(root)


def make_dbfs_store(root, commit_type="FULL"):
    from dds.codecs.databricks import DBFSStore, DBFSURI, CommitType
    db = FakeDbutils(root)
    ct = commit_type if not isinstance(commit_type, str) else CommitType[commit_type]
    st = DBFSStore(DBFSURI.parse("dbfs:/dds_internal"), DBFSURI.parse("dbfs:/dds_data"), db, ct)
    st._verif_dbutils = db
    return st
