"""Observation / control of the file-system operations of LocalFileStore from outside (no hook in /repo):
`os.*` and `builtins.open` are wrapped in the worker process. Every operation on a path below `base`
calls `tick(op, args)`; the controller can kill the process (os._exit) at operation number k
(completed operations are durable, the one in flight is not started), or block before each operation
until the scheduler grants a step (pipe protocol), which gives deterministic interleavings of real
processes at file-system-operation granularity, torn writes included (a write is split in two halves, and it happens when the
file is flushed or closed, not when `write` is called: small writes stay in the buffer of the file object).
"""
import builtins
import os
import sys

TRACE = []
STATE = {"kill_at": None, "base": None, "sched_r": None, "sched_w": None, "enabled": False}
_real = {}


def tick(op, *a):
    if not STATE["enabled"]:
        return
    n = len(TRACE)
    if STATE["kill_at"] is not None and n >= STATE["kill_at"]:
        os._exit(17)
    if STATE["sched_r"] is not None:
        # ask the scheduler for permission to perform operation n
        _real["write"](STATE["sched_w"], ("%d %s %s\n" % (n, op, str(a[0]).replace("\n", " ") if a else "")).encode())
        b = _real["read"](STATE["sched_r"], 1)
        if not b or b == b"K":
            os._exit(17)
    TRACE.append((op,) + tuple(str(x) for x in a))


def rel(p):
    try:
        p = os.fspath(p)
    except TypeError:
        return str(p)
    base = STATE["base"]
    if isinstance(p, bytes):
        p = p.decode()
    return p.replace(base, "$B") if base and isinstance(p, str) else p


def _inside(p):
    try:
        p = os.fspath(p)
    except TypeError:
        return False
    if isinstance(p, bytes):
        p = p.decode()
    base = STATE["base"]
    return bool(base) and isinstance(p, str) and (p.startswith(base) or not os.path.isabs(p))


def install(base):
    """wrap the primitives (idempotent)"""
    STATE["base"] = base
    if _real:
        return
    for n in ("makedirs", "mkdir", "remove", "unlink", "symlink", "replace", "rename", "readlink"):
        _real[n] = getattr(os, n)
    _real["exists"], _real["isdir"], _real["lexists"], _real["realpath"] = os.path.exists, os.path.isdir, os.path.lexists, os.path.realpath
    _real["open"] = builtins.open
    _real["write"], _real["read"] = os.write, os.read

    def wrap(n):
        def f(*a, **k):
            if a and _inside(a[-1] if n in ("symlink", "replace", "rename") else a[0]):
                tick(n, *[rel(x) for x in a])
            return _real[n](*a, **k)
        return f
    for n in ("makedirs", "mkdir", "remove", "unlink", "symlink", "replace", "rename"):
        setattr(os, n, wrap(n))

    def exists(p):
        if _inside(p):
            tick("exists", rel(p))
        return _real["exists"](p)

    def lexists(p):
        if _inside(p):
            tick("lexists", rel(p))
        return _real["lexists"](p)

    def isdir(p):
        if _inside(p):
            tick("isdir", rel(p))
        return _real["isdir"](p)

    def realpath(p, *a, **k):
        if _inside(p):
            tick("realpath", rel(p))
        return _real["realpath"](p, *a, **k)
    os.path.exists, os.path.lexists, os.path.isdir, os.path.realpath = exists, lexists, isdir, realpath

    # listing a directory and asking about the entries one by one are separate operations: an entry may be gone when it is asked
    # about (another process renamed its temporary file in between)
    _real["scandir"], _real["listdir"] = os.scandir, os.listdir
    _real["getsize"], _real["isfile"], _real["islink"] = os.path.getsize, os.path.isfile, os.path.islink

    class Entry(object):
        """an entry of a directory listing: its kind was read with the listing (no further question to the file system, as with
        os.DirEntry on the usual file systems); its size and times are asked for later, when the file may be gone"""
        def __init__(self, e):
            self._e, self.name, self.path = e, e.name, e.path
            self._kind = (e.is_file(follow_symlinks=False), e.is_dir(follow_symlinks=False), e.is_symlink())

        def stat(self, **k):
            tick("stat", rel(self.path))
            return os.stat(self.path, **k)

        def is_file(self, follow_symlinks=True):
            if self._kind[2] and follow_symlinks:
                tick("stat", rel(self.path))
                return _real["isfile"](self.path)
            return self._kind[0]

        def is_dir(self, follow_symlinks=True):
            if self._kind[2] and follow_symlinks:
                tick("stat", rel(self.path))
                return _real["isdir"](self.path)
            return self._kind[1]

        def is_symlink(self):
            return self._kind[2]

        def __fspath__(self):
            return self.path

    class Listing(object):
        def __init__(self, entries):
            self._entries = entries

        def __iter__(self):
            return iter(self._entries)

        def __enter__(self):
            return self

        def __exit__(self, *e):
            return False

        def close(self):
            pass

    def scandir(p="."):
        if _inside(p):
            tick("listdir", rel(p))
            with _real["scandir"](p) as it:
                return Listing([Entry(e) for e in it])
        return _real["scandir"](p)

    def listdir(p="."):
        if _inside(p):
            tick("listdir", rel(p))
        return _real["listdir"](p)

    def getsize(p):
        if _inside(p):
            tick("stat", rel(p))
        return _real["getsize"](p)

    def isfile(p):
        if _inside(p):
            tick("stat", rel(p))
        return _real["isfile"](p)
    os.scandir, os.listdir, os.path.getsize, os.path.isfile = scandir, listdir, getsize, isfile

    class F(object):
        """a file opened for writing: what is written stays in the buffer of the file object (as it does in Python for anything
        smaller than the buffer) and reaches the file - in two halves - when the file is flushed or closed. A rename made before
        the close therefore publishes the file without its content."""
        def __init__(self, f, name):
            self.f, self.name = f, name
            self.pending = []

        def write(self, b):
            self.pending.append(bytes(b) if not isinstance(b, str) else b)
            return len(b)

        def _drain(self):
            for b in self.pending:
                h = len(b) // 2
                tick("write1", self.name, h)
                self.f.write(b[:h])
                self.f.flush()
                tick("write2", self.name, len(b) - h)
                self.f.write(b[h:])
                self.f.flush()
            del self.pending[:]

        def flush(self):
            self._drain()
            self.f.flush()

        def __enter__(self):
            return self

        def __exit__(self, *e):
            self._drain()
            tick("close", self.name)
            self.f.close()

        def close(self):
            self._drain()
            tick("close", self.name)
            self.f.close()

        def __getattr__(self, n):
            return getattr(self.f, n)

    def myopen(p, mode="r", *a, **k):
        if _inside(p) and not isinstance(p, int):
            tick("open", rel(p), mode)
            f = _real["open"](p, mode, *a, **k)
            return F(f, rel(p)) if ("w" in mode or "a" in mode or "x" in mode) else f
        return _real["open"](p, mode, *a, **k)
    builtins.open = myopen


def enable(kill_at=None, sched=None):
    del TRACE[:]
    STATE["kill_at"] = kill_at
    STATE["sched_r"], STATE["sched_w"] = sched if sched else (None, None)
    STATE["enabled"] = True


def disable():
    STATE["enabled"] = False
    STATE["kill_at"] = None
    STATE["sched_r"] = STATE["sched_w"] = None
