"""History generation and the step-by-step comparison implementation / dds-free reference / Lean model.

`run_histories` is shared by the checks of C01, C02, C04 (and reused by C10, C15): each check reads the
records it needs (`focus`) and applies its own oracle.
"""
import copy
import json
import os

from . import progs, pipeline, common

NO_RECOMPUTE_EDITS = ("none", "unrelated_fun", "unrelated_var", "reorder", "ext", "revert", "restart", "copy", "entry_switch")


def kept_functions(world):
    return {fn for (_, fn) in progs.kept_paths(world)}


def reach(world, name):
    byname = dict((f["name"], f) for f in world["funs"])
    seen = set()

    def go(n):
        if n in seen or n not in byname:
            return
        seen.add(n)
        for it in byname[n]["items"]:
            if "f" in it:
                go(it["f"])
    go(name)
    return seen


def context_free_nodes(world):
    """kept nodes whose signature cannot depend on their callers: data functions without parameters and keeps
    whose arguments are all literals - computed on the abstract program, independently of the model"""
    out = {}
    for f in world["funs"]:
        if f.get("store_path"):
            out[f["store_path"]] = f["name"]
        for it in f["items"]:
            if it["k"] == "keep":
                allc = all("c" in a for a in list(it.get("args", [])) + [x for (_, x) in it.get("kwargs", [])])
                if allc:
                    out[it["path"]] = it["f"]
    return out


def may_observe(world, fname, edit):
    """can function `fname` (with everything it reaches) observe the edit?  (conservative: True if unsure)"""
    r = reach(world, fname)
    byname = dict((f["name"], f) for f in world["funs"])
    if edit["kind"] == "body":
        return edit["fun"] in r
    if edit["kind"] == "var":
        return any(edit["var"] in byname[n].get("reads", []) for n in r)
    if edit["kind"] == "const_arg":
        # the edited keep's own node sees its arguments; everything that contains the edited line sees its text
        kept_here = [it["f"] for it in byname.get(edit["fun"], {"items": []})["items"] if it["k"] == "keep" and it["path"] == edit["path"]]
        if edit["path"].startswith("(plain call"):
            return True
        return edit["fun"] in r or fname in kept_here
    return True


class Rec(object):
    """one evaluation step of one history, as seen by the three parties"""
    __slots__ = ("hist", "step", "edit", "entry", "opts", "world", "prev_world", "real", "ref", "model", "store_kind",
                 "loads", "ref_paths", "completed_before", "extra")

    def brief(self):
        return {"history": self.hist, "step": self.step, "edit": self.edit, "entry": self.entry, "store": self.store_kind}


def gen_history(rng, nsteps, allow_entries=("eval", "keep", "direct"), edit_kinds=None):
    """a list of abstract steps; worlds are produced lazily by the runner because edits depend on the current world"""
    steps = [("eval", "first")]
    for _ in range(nsteps):
        if edit_kinds:
            steps.append(("eval", rng.choice(edit_kinds)))
            continue
        r = rng.random()
        if r < 0.12:
            steps.append(("eval", "none"))
        elif r < 0.2:
            steps.append(("eval", "restart"))
        elif r < 0.27:
            steps.append(("eval", "revert"))
        elif r < 0.33:
            steps.append(("eval", "copy"))
        elif r < 0.38:
            steps.append(("eval", "entry_switch"))
        else:
            steps.append(("eval", rng.choice(["body", "body", "var", "var", "const_arg", "unrelated_fun", "unrelated_var", "reorder", "ext", "delete_call", "whitespace", "rt_arg", "multiline", "wrap_lit", "wrap_lit", "inplace_var", "inplace_var"])))
    return steps


def replay_file(rec_list):
    return [r.brief() for r in rec_list]


def run_histories(ctx, res, n_hist, max_steps, store_kinds=("memory",), nfun=None, allow=("call", "ref", "keep", "datafn", "shadow"),
                  on_record=None, world_filter=None, extra_steps=None, edit_kinds=None, at_step=None, entry_kind=None):
    """runs `n_hist` histories; calls on_record(rec, session) after every evaluation step; returns all records"""
    rng = ctx["rng"]
    records = []
    maxlen = 10000
    for h in range(n_hist):
        store_kind = store_kinds[h % len(store_kinds)]
        if allow == "chain":
            w = progs.gen_chain_world(rng)
        elif allow == "shared":
            w = progs.gen_shared_keeps_world(rng, aliases=True)
        elif allow == "multi":
            w = progs.gen_site_mix_world(rng) if h % 2 else progs.gen_world(rng, nfun=nfun, multi=True)
        else:
            w = progs.gen_world(rng, nfun=nfun, allow=allow)
        if world_filter and not world_filter(w):
            continue
        steps = gen_history(rng, rng.randint(2, max_steps), edit_kinds=edit_kinds)
        with pipeline.Session(store_kind, tag=ctx["pid"].lower()) as s:
            msteps = []
            recs = []
            worlds = [w]
            s.set_world(w)
            msteps.append({"set_store": "noop" if store_kind == "noop" else "dict"})
            msteps.append({"world": progs.model_world(w, s.extmod)})
            entry0 = {"kind": "eval", "fun": "f0"}
            if rng.random() < 0.3 or entry_kind == "keep":
                entry0 = {"kind": "keep", "fun": "f0", "path": "/top"}
            entry = entry0
            for si, (_, edit_kind) in enumerate(steps):
                prev = s.world
                desc = {"kind": edit_kind}
                order = None
                if edit_kind in ("none", "first"):
                    pass
                elif edit_kind == "restart":
                    if store_kind == "memory":
                        desc = {"kind": "none"}
                    else:
                        s.restart()
                elif edit_kind == "revert":
                    if len(worlds) < 2:
                        desc = {"kind": "none"}
                    else:
                        # go to an edited version, evaluate, come back: the come-back step is the one recorded as revert
                        target = worlds[-2]
                        s.set_world(copy.deepcopy(target))
                        msteps.append({"world": progs.model_world(target, s.extmod)})
                        worlds.append(copy.deepcopy(target))
                elif edit_kind == "copy":
                    # the same code under another (accepted) module name, same store
                    s.modname = s.modname + "c"
                    s.set_world(s.world)
                    msteps.append({"world": progs.model_world(s.world, s.extmod)})
                elif edit_kind == "entry_switch":
                    dfs = [f for f in s.world["funs"] if f.get("store_path")]
                    if dfs and entry["kind"] != "direct":
                        f = rng.choice(dfs)
                        # first through dds.eval, then directly: the second must not execute the body
                        e1 = {"kind": "eval", "fun": f["name"]}
                        r1, rr1 = s.run(e1)
                        msteps.append({"run": {"entry": e1}})
                        rec = _mk(h, si, {"kind": "entry_eval"}, e1, None, s, prev, r1, rr1, store_kind)
                        if at_step:
                            at_step(rec, s)
                        recs.append(rec)
                        entry = {"kind": "direct", "fun": f["name"]}
                    else:
                        desc = {"kind": "none"}
                        entry = entry0
                else:
                    e = progs.apply_edit(rng, s.world, edit_kind)
                    if e is None:
                        desc = {"kind": "none"}
                    else:
                        w2, desc = e
                        order = desc.get("order")
                        if desc.get("inplace"):
                            s.mutate_in_place(w2, desc["inplace"])
                        else:
                            s.set_world(w2, order)
                        msteps.append({"world": progs.model_world(w2, s.extmod)})
                        worlds.append(copy.deepcopy(w2))
                r, rr = s.run(entry)
                msteps.append({"run": {"entry": entry}})
                rec = _mk(h, si, desc, entry, None, s, prev, r, rr, store_kind)
                if at_step:
                    at_step(rec, s)
                recs.append(rec)
                if entry["kind"] == "direct":
                    entry = entry0
            # the model's view of the same history
            if ctx["driver_ok"]:
                ans = common.drv_batch([{"op": "history", "max": maxlen, "steps": msteps}])[0]
                outs = ans.get("ok")
                if outs is None or len(outs) != len(recs):
                    res.disagreements.append({"what": "driver rejected the history", "detail": ans, "history": h})
                else:
                    for rec, m in zip(recs, outs):
                        rec.model = m
            for rec in recs:
                if on_record:
                    on_record(rec, s)
            records += recs
    return records


def _mk(h, si, desc, entry, opts, s, prev, r, rr, store_kind):
    rec = Rec()
    rec.hist, rec.step, rec.edit, rec.entry, rec.opts = h, si, desc, dict(entry), opts
    rec.world, rec.prev_world = copy.deepcopy(s.world), prev
    rec.real, rec.ref, rec.model, rec.store_kind = r, rr, None, store_kind
    rec.ref_paths = dict(s.ref_paths)
    rec.loads = {}
    rec.extra = {}
    if r["error"] is None:
        for p in s.ref_paths:
            rec.loads[p] = s.load(p)
    return rec


def compare_with_model(rec, res, what=("value", "log", "paths", "plain")):
    """correspondence of one step; returns True when the model agrees with the implementation"""
    m = rec.model
    if m is None:
        return True
    r, rr = rec.real, rec.ref
    diffs = []
    if "value" in what and r["value"] != m["value"]:
        diffs.append(("value", r["value"], m["value"]))
    merr = m["error"]
    rerr = r["error"]
    if "value" in what:
        a = None if rerr is None else (rerr["kind"], rerr.get("code") if rerr["kind"] == "dds" else rerr.get("cls"))
        b = None if merr is None else (merr["kind"], merr.get("code") if merr["kind"] == "dds" else merr.get("cls"))
        if a != b:
            diffs.append(("error", a, b))
    if "log" in what and r["log"] != m["log"]:
        diffs.append(("executed", r["log"], m["log"]))
    if "paths" in what and r["paths"] is not None and r["paths"] != dict((p, s) for (p, s) in m["paths"]):
        diffs.append(("signatures", r["paths"], m["paths"]))
    if "plain" in what and rr["error"] is None and (rr["value"] != m["plain"] or rr["log"] != m["plain_log"]):
        diffs.append(("plain execution", rr["value"], m["plain"]))
    if diffs:
        res.disagreements.append({"what": "implementation differs from the model at " + ", ".join(d[0] for d in diffs),
                                  "step": rec.brief(), "diffs": [list(map(str, d))[:3] for d in diffs][:3],
                                  "source": progs.render_world(rec.world, "extmod")})
        return False
    return True
