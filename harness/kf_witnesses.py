"""Replay of the recorded known findings on the real code (run by the check of their property on every run).
Each function returns True when the finding still reproduces."""
import importlib
import linecache
import os
import sys

from . import ws, common


def c02_from_import_object():
    """C02-KF1: a function reading a non-accepted OBJECT imported with `from m import obj` is recomputed when its
    file is copied to another accepted module (the object's canonical path is <importing module>/obj)."""
    dds = common.import_dds()
    store = ws.recording_store()
    dds.set_store(store)
    with ws.Workspace("kf_c02") as w:
        ext = w.unique("kfobj")
        w.write_module(ext, "class _L(object):\n    def __init__(self):\n        self.n = 0\n    def rec(self):\n        self.n += 1\n        return self.n\nL = _L()\n", accept=False)
        src = "import dds\nfrom %s import L\n\ndef f():\n    L.rec()\n    return 'v'\n" % ext
        a = w.write_module(w.unique("kfa"), src)
        b = w.write_module(w.unique("kfb"), src)
        L = sys.modules[ext].L
        dds.keep("/kf", a.f)
        n1 = L.n
        sig_a = store.synced[-1]["/kf"]
        dds.keep("/kf", b.f)
        sig_b = store.synced[-1]["/kf"]
        return {"reproduces": (L.n > n1) and sig_a != sig_b,
                "detail": "same source in two accepted modules: signatures %s.. vs %s.., body executed %d times" % (sig_a[:8], sig_b[:8], L.n)}


def c18_two_paths_one_signature():
    """C18-KF1: two paths kept with one signature give one graph node (nodes are keyed by signature)."""
    dds = common.import_dds()
    from dds import _plotting
    import dds._api as api
    store = ws.recording_store()
    dds.set_store(store)
    captured = {}
    orig = api.FunctionInteractionsUtils.all_store_paths

    with ws.Workspace("kf_c18") as w:
        m = w.write_module(w.unique("kfg"), "import dds\n\ndef g():\n    return 'g'\n\ndef top():\n    a = dds.keep('/one', g)\n    b = dds.keep('/two', g)\n    return a + b\n")
        from dds.introspect import introspect
        from dds._eval_ctx import EvalMainContext
        from dds.introspect import _accepted_packages
        from dds.fun_args import get_arg_ctx
        from collections import OrderedDict
        ctx = EvalMainContext(m.top.__module__, whitelisted_packages=_accepted_packages, start_globals={}, resolved_references=OrderedDict())
        fis = introspect(m.top, ctx, get_arg_ctx(m.top, (), {}))
        g = _plotting._structure(fis, {})
        nodes = sorted(n.path for n in g.fnodes)
        return {"reproduces": nodes != ["/one", "/two"], "detail": "kept paths /one and /two, graph nodes %s" % nodes}


def run_witness(res, fid, fn, what):
    """adds the known violation (tagged with its id) when it reproduces"""
    try:
        out = fn()
    except BaseException as e:
        out = {"reproduces": False, "detail": "witness crashed: %s: %s" % (type(e).__name__, str(e)[:120])}
        try:
            ws.reset_dds_state()
        except Exception:
            pass
    res.kf_replayed[fid] = bool(out["reproduces"])
    if out["reproduces"]:
        res.violations.append({"what": what + " - " + out["detail"], "input": {"witness": fid}, "kf": fid})
    res.notes.append("%s: %s" % (fid, out["detail"]))
