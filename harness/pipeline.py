"""Histories of evaluations over generated pipelines: the shared machinery of C01-C04, C09, C10, C15, C18."""
import json
import os
import re
import shutil
import subprocess
import sys
import tempfile

from . import progs
from .worker import Runner

HERE = os.path.dirname(os.path.abspath(__file__))
_counter = [0]


class WorkerProc(object):
    """a worker subprocess (mode real|ref) speaking JSON lines"""

    def __init__(self, mode, env=None, cwd=None):
        e = dict(os.environ)
        e["PYTHONDONTWRITEBYTECODE"] = "1"
        if env:
            e.update(env)
        self.p = subprocess.Popen([sys.executable, "-B", os.path.join(HERE, "worker.py"), mode], stdin=subprocess.PIPE,
                                  stdout=subprocess.PIPE, stderr=subprocess.PIPE, text=True, env=e, cwd=cwd or "/")

    def call(self, **rq):
        self.p.stdin.write(json.dumps(rq) + "\n")
        self.p.stdin.flush()
        line = self.p.stdout.readline()
        if not line:
            raise RuntimeError("worker died: " + self.p.stderr.read()[-800:])
        out = json.loads(line)
        if "worker_error" in out:
            raise RuntimeError("worker error: " + out["worker_error"])
        return out

    def close(self):
        try:
            self.p.stdin.write('{"cmd":"quit"}\n')
            self.p.stdin.flush()
            self.p.wait(timeout=5)
        except Exception:
            self.p.kill()


_ref = [None]


def ref_worker():
    if _ref[0] is None or _ref[0].p.poll() is not None:
        _ref[0] = WorkerProc("ref")
    return _ref[0]


def close_ref():
    if _ref[0] is not None:
        _ref[0].close()
        _ref[0] = None


_real = [None]


def real_runner():
    if _real[0] is None:
        _real[0] = Runner("real")
    return _real[0]


def norm_ext(v):
    """values that mention the non-accepted companion module are compared modulo its version"""
    if isinstance(v, str):
        return re.sub(r"ext\d+", "ext*", v)
    return v


class Session(object):
    """one history: a workspace directory, one store lineage, the real dds in-process, the reference in a subprocess"""

    def __init__(self, store_kind="memory", tag="pl"):
        _counter[0] += 1
        self.dir = tempfile.mkdtemp(prefix="ddsverif_%s_" % tag)
        self.modname = "pw_%d_%d" % (os.getpid(), _counter[0])
        self.extmod = "pe_%d_%d" % (os.getpid(), _counter[0])
        self.real = real_runner()
        self.ref = ref_worker()
        self.store_kind = store_kind
        self.internal_dir = os.path.join(self.dir, "store_internal")
        self.data_dir = os.path.join(self.dir, "store_data")
        self.real.reset_process_state()
        self.real.set_store(store_kind, self.internal_dir, self.data_dir)
        self.ref.call(cmd="refpaths", paths={})
        self.ref_paths = {}
        self.world = None

    def set_world(self, world, order=None):
        self.world = world
        self.order = order
        with open(os.path.join(self.dir, self.modname + ".py"), "w") as f:
            f.write(progs.render_world(world, self.extmod, order))
        with open(os.path.join(self.dir, self.extmod + ".py"), "w") as f:
            f.write(progs.render_ext(world))
        self.real.load_world(self.dir, self.modname, self.extmod)
        self.ref.call(cmd="world", dir=self.dir, module=self.modname, extmod=self.extmod)

    def mutate_in_place(self, world, stmt):
        """a tracked variable is updated in place in the running processes (no reload); the file on disk follows, so
        that a later restart reads the same state"""
        self.world = world
        with open(os.path.join(self.dir, self.modname + ".py"), "w") as f:
            f.write(progs.render_world(world, self.extmod, getattr(self, "order", None)))   # same layout: only the literal changes
        self.real.exec_stmt(stmt)
        self.ref.call(cmd="exec", stmt=stmt)

    def restart(self):
        """fresh interpreter state on the same store lineage (memory stores do not survive a real restart)"""
        self.real.reset_process_state()
        if self.store_kind in ("local", "local_lru", "dbfs"):
            self.real.set_store(self.store_kind, self.internal_dir, self.data_dir)
        self.real.load_world(self.dir, self.modname, self.extmod)

    def switch_store(self, kind):
        self.store_kind = kind
        self.real.set_store(kind, self.internal_dir, self.data_dir)

    def run(self, entry, opts=None):
        self.ref.call(cmd="refpaths", paths=self.ref_paths)
        rr = self.ref.call(cmd="run", entry=entry)
        r = self.real.run(entry, opts)
        completed = r["error"] is None and (not opts or not opts.get("stages"))
        if rr["error"] is None and completed:
            self.ref_paths = rr["refpaths"]
        return r, rr

    def load(self, path):
        return self.real.load_path(path)

    def close(self):
        shutil.rmtree(self.dir, ignore_errors=True)
        for m in (self.modname, self.extmod):
            sys.modules.pop(m, None)
        try:
            from dds.introspect import _accepted_packages
            _accepted_packages.discard(self.modname)
        except Exception:
            pass

    def __enter__(self):
        return self

    def __exit__(self, *a):
        self.close()
