"""Abstract pipelines: generator, edits, renderer (DESIGN §4, §7).

A *world* is one version of the code:
  {"vars": [[name, valjson]...], "funs": [Fn...], "ext_version": int, "extra": [unrelated definitions]}
  Fn   = {"name", "params": [[name, default valjson | None]], "store_path": str|None, "tag": str,
          "reads": [var names], "items": [Item...], "fails": None | exception kind, "uses_ext": bool}
  Item = {"k": "call"|"ref", "f": name}
       | {"k": "keep", "path": str, "f": name, "args": [Arg...], "kwargs": [[name, Arg]...]}
       | {"k": "load", "path": str}
       | {"k": "eval", "f": name}
  Arg  = {"c": valjson}                      literal constant in source
       | {"r": [result indices], "p": [parameter names]}   run-time expression rt(...)
Functions are listed callee-last: funs[0] is the root. One item per source line, in visit order.
"""
import copy
import json

from .c05 import jv, dec, sint

RT_MODULE = "ddsverif_rt"


# ---------------------------------------------------------------------------------------------
# rendering
# ---------------------------------------------------------------------------------------------

def lit(valjson):
    return repr(dec(valjson))


def render_arg(a):
    if "c" in a:
        return lit(a["c"])
    parts = ["r%d" % i for i in a.get("r", [])] + list(a.get("p", [])) + [repr(x) for x in a.get("l", [])]
    return "rt(%s)" % ", ".join(parts)


def render_fun(fn):
    """returns (source text of the function, item line numbers (1-based, as ast sees them))"""
    lines = []
    if fn.get("store_path"):
        lines.append("@dds.data_function(%r)" % fn["store_path"])
    ps = ", ".join(n if d is None else "%s=%s" % (n, lit(d)) for (n, d) in fn["params"])
    lines.append("def %s(%s):" % (fn["name"], ps))
    lines.append("    log(%r)" % fn["name"] + (("  # " + fn["comment"]) if fn.get("comment") else ""))
    item_lines = []
    for i, it in enumerate(fn["items"]):
        k = it["k"]
        if k == "call":
            cargs = [render_arg(a) for a in it.get("args", [])] + ["%s=%s" % (n, render_arg(a)) for (n, a) in it.get("kwargs", [])]
            e = "%s(%s)" % (it["f"], ", ".join(cargs))
        elif k == "ref":
            e = "hof(%s)" % it["f"]
        elif k == "keep":
            args = [render_arg(a) for a in it.get("args", [])] + ["%s=%s" % (n, render_arg(a)) for (n, a) in it.get("kwargs", [])]
            e = "dds.keep(%s)" % ", ".join([repr(it["path"]), it["f"]] + args)
        elif k == "load":
            e = "dds.load(%r)" % it["path"]
        elif k == "eval":
            e = "dds.eval(%s)" % it["f"]
        else:
            raise ValueError(k)
        if it.get("multiline"):
            # continuation-line stratum: the call is spread over several lines
            head, rest = e.split("(", 1)
            parts = rest[:-1].split(", ")
            lines.append("    r%d = %s(" % (i, head))
            for p in parts:
                lines.append("        %s," % p)
            lines.append("    )")
            item_lines.append(len(lines))      # the line where the call ENDS (what the analysis hashes up to)
        elif it.get("wrap"):
            # the dds call is the first argument of a (non-accepted) library call that goes on for several lines:
            # the lines after the end of the dds call are not part of its call-site context
            lines.append("    r%d = first(%s," % (i, e))
            item_lines.append(len(lines))      # the dds call ends on this line
            for j, wl in enumerate(it["wrap"]):
                lines.append("        %r%s" % (wl, ")" if j == len(it["wrap"]) - 1 else ","))
        else:
            lines.append("    r%d = %s" % (i, e))
            item_lines.append(len(lines))
    if fn.get("fails"):
        lines.append("    boom(%r, %r)" % (fn["fails"], fn["name"]))
    parts = [repr(fn["tag"])] + [n for (n, _) in fn["params"]] + list(fn.get("reads", []))
    if fn.get("uses_ext"):
        parts.append("extmod.extf()")
    parts += ["r%d" % i for i in range(len(fn["items"]))]
    if fn.get("shadow"):
        # a local name that hides a module variable of the same name (which this function therefore cannot observe)
        sv, sk = fn["shadow"]
        lines.append({"listcomp": "    sh = [%s for %s in ('p', 'q')]", "genexp": "    sh = list(%s for %s in ('p', 'q'))",
                      "dictcomp": "    sh = {%s: 1 for %s in ('p', 'q')}", "lambda": "    sh = (lambda %s: %s)('p')",
                      "setcomp": "    sh = {%s for %s in ('p', 'q')}"}[sk] % ((sv, sv)))
    if fn.get("ws") is not None:
        # a statement whose meaning depends on its indentation only (an edit of leading whitespace changes the value)
        lines += ["    w = 'a'", "    if False:", "        pass", ("        w = 'b'" if fn["ws"] else "    w = 'b'")]
        parts.append("w")
    lines.append("    return term(%s)" % ", ".join(parts))
    return "\n".join(lines) + "\n", item_lines


def ext_names(fn):
    names = {"log", "term"}
    if any(it["k"] == "ref" for it in fn["items"]):
        names.add("hof")
    if fn.get("fails"):
        names.add("boom")
    if any(it.get("wrap") and not it.get("multiline") for it in fn["items"]):
        names.add("first")
    for it in fn["items"]:
        if it["k"] in ("keep", "call"):
            for a in list(it.get("args", [])) + [a for (_, a) in it.get("kwargs", [])]:
                if "c" not in a:
                    names.add("rt")
    return sorted(names)


def render_world(world, extmod=None, order=None):
    """module source; `extmod`: name of the world's non-accepted companion module"""
    out = ["import dds", "from %s import log, term, rt, hof, boom, first" % RT_MODULE]
    if extmod:
        out.append("import %s as extmod" % extmod)
    out.append("")
    for (n, v) in world["vars"]:
        out.append("%s = %s" % (n, lit(v)))
    out.append("")
    for x in world.get("extra", []):
        out.append(x)
        out.append("")
    funs = list(world["funs"])
    idx = list(range(len(funs)))[::-1]          # callees first by default
    if order is not None:
        idx = order
    for i in idx:
        src, _ = render_fun(funs[i])
        out.append(src)
    return "\n".join(out) + "\n"


def render_ext(world):
    return "def extf():\n    return 'ext%d'\n" % world.get("ext_version", 0)


def model_world(world, extmod=None):
    """the JSON the Lean driver receives: what the analysis can see of the world"""
    var_map = dict((n, v) for (n, v) in world["vars"])
    funs = []
    for fn in world["funs"]:
        src, item_lines = render_fun(fn)
        lines = src.split("\n")
        exts = [[n, "%s/%s" % (RT_MODULE, n)] for n in ext_names(fn)]
        if fn.get("uses_ext") and extmod:
            exts.append(["extmod", extmod])
        items = []
        for it, ln in zip(fn["items"], item_lines):
            d = {"k": it["k"], "line": ln}
            if "f" in it:
                d["f"] = it["f"]
            if "path" in it:
                d["path"] = it["path"]
            if it["k"] == "keep" or (it["k"] == "call" and (it.get("args") or it.get("kwargs"))):
                d["args"] = [({"t": "other"} if "c" not in a else a["c"]) for a in it.get("args", [])]
                d["kwargs"] = [[n, ({"t": "other"} if "c" not in a else a["c"])] for (n, a) in it.get("kwargs", [])]
                d["rt"] = [({"r": a.get("r", []), "p": a.get("p", []), "l": a.get("l", [])} if "c" not in a else None) for a in it.get("args", [])]
                d["rtkw"] = [[n, ({"r": a.get("r", []), "p": a.get("p", []), "l": a.get("l", [])} if "c" not in a else None)] for (n, a) in it.get("kwargs", [])]
            items.append(d)
        funs.append({
            "name": fn["name"], "lines": lines, "tag": fn["tag"],
            "params": [{"name": n, "kind": "POSITIONAL_OR_KEYWORD", "default": d} for (n, d) in fn["params"]],
            "store_path": fn.get("store_path"),
            "vars": [[n, var_map[n]] for n in fn.get("reads", [])],
            "exts": sorted(exts),
            "items": items, "fails": fn.get("fails"), "uses_ext": bool(fn.get("uses_ext")), "ws": fn.get("ws"),
        })
    return {"funs": funs, "ext_version": world.get("ext_version", 0)}


# ---------------------------------------------------------------------------------------------
# generation
# ---------------------------------------------------------------------------------------------

VAR_VALUES = [jv("int", "0"), jv("int", "5"), jv("str", "a"), jv("str", ""), jv("int", "-3"), jv("str", "l1\r\nl2\rl3\n"),
              jv("list", [jv("int", "1"), jv("str", "x")]), jv("dict", [[jv("str", "k"), jv("int", "1")]]),
              jv("list", [jv("int", "2")]), jv("bool", True), jv("none"), jv("tuple", [jv("int", "7"), jv("str", "y")]),
              jv("tuple", [jv("list", [jv("int", "3")]), jv("str", "z")])]
# NB: both pools are injective for dds_hash (no two members in one C05 collision class: no True next to 1,
# no [] next to ''), so that a C05 identification never shows up as a C01 staleness.
BUILTIN_LIKE_NAMES = ["max", "format", "filter", "type", "id", "min", "input", "hash", "vars", "dir"]
SHADOW_KINDS = ["listcomp", "genexp", "dictcomp", "setcomp"]
CONSTS = [jv("int", "1"), jv("int", "2"), jv("str", "s"), jv("none"), jv("bool", False), jv("str", "")]


def gen_call_args(rng, callee_params, n_prev_items, own_params, allow_runtime=True):
    """a legal spelling for a keep of a callee: positional prefix, then keywords, defaults possibly omitted"""
    args, kwargs = [], []
    positional = True
    runtime = False
    for (pn, pd) in callee_params:
        r = rng.random()
        if pd is not None and r < 0.3:
            positional = False
            continue
        can_rt = allow_runtime and (n_prev_items > 0 or own_params)
        if rng.random() < 0.6 or not can_rt:
            a = {"c": rng.choice(CONSTS)}
        else:
            rs = [x for x in range(n_prev_items) if rng.random() < 0.6]
            ps = [p for (p, _) in own_params if rng.random() < 0.5]
            if not rs and not ps:
                if n_prev_items:
                    rs = [n_prev_items - 1]
                else:
                    ps = [own_params[0][0]]
            a = {"r": rs, "p": ps}
            runtime = True
        if positional and rng.random() < 0.6:
            args.append(a)
        else:
            positional = False
            kwargs.append([pn, a])
    if rng.random() < 0.3:
        kwargs.reverse()
    return args, kwargs, runtime


def gen_world(rng, nfun=None, allow=("call", "ref", "keep", "datafn", "shadow"), max_tries=200, multi=False):
    """a random well-formed world (DESIGN §4 predicates hold by construction / by rejection).
    multi=True: functions may be invoked from several sites with different arguments (a path may then be
    kept twice in one evaluation: dds must either reject the evaluation or get every value right)"""
    for _ in range(max_tries):
        w = _gen_world(rng, nfun, allow)
        if w is not None and (sites_ok(w) != multi) and kept_paths(w):
            return w
    raise RuntimeError("generator could not produce a well-formed world")


def _gen_world(rng, nfun, allow):
    n = nfun or rng.randint(2, 8)
    nv = rng.randint(1, 3)
    vars_ = [["V%d" % i, rng.choice(VAR_VALUES)] for i in range(nv)]
    if "plainnames" not in allow:
        # some module variables are named like Python built-ins (they hide them in the module, and are tracked like any other)
        for pair, nm in zip(vars_, rng.sample(BUILTIN_LIKE_NAMES, len(vars_))):
            if rng.random() < 0.3:
                pair[0] = nm
    pathc = [0]

    def newpath():
        pathc[0] += 1
        return rng.choice(["/p%d", "/d/q%d", "/d/e/r%d"]) % pathc[0]
    specs = []
    for i in range(n):
        params = []
        if i > 0:
            for k in range(rng.choice([0, 0, 1, 1, 2])):
                params.append(["abc"[k], rng.choice([None, rng.choice(CONSTS)])])
            params.sort(key=lambda p: p[1] is not None)
        specs.append(params)
    datafn = [False] * n
    for i in range(1, n):
        if not specs[i] and "datafn" in allow and rng.random() < 0.25:
            datafn[i] = True
    funs = []
    for i in range(n):
        params = specs[i]
        items = []
        cands = list(range(i + 1, n))
        for _ in range(rng.randint(1, 4) if i == 0 else rng.randint(0, 3)):
            if not cands:
                break
            j = rng.choice(cands)
            no_arg_ok = all(d is not None for (_, d) in specs[j])
            kinds = [k for k in allow if k in ("call", "ref", "keep")]
            k = rng.choice(kinds)
            if k in ("call", "ref") and not no_arg_ok:
                if "keep" not in allow:
                    continue
                k = "keep"
            if k == "keep" and datafn[j]:
                k = "call"
            if k == "call" and specs[j] and not datafn[j] and rng.random() < 0.5:
                args, kwargs, _ = gen_call_args(rng, specs[j], len(items), params)
                items.append({"k": "call", "f": "f%d" % j, "args": args, "kwargs": kwargs})
            elif k in ("call", "ref"):
                items.append({"k": k, "f": "f%d" % j})
                if "load" in allow and k == "call" and datafn[j] and rng.random() < 0.4:
                    # the value the data function has just kept, read back in the same evaluation
                    items.append({"k": "load", "path": "/df%d" % j})
            else:
                args, kwargs, _ = gen_call_args(rng, specs[j], len(items), params)
                items.append({"k": "keep", "path": newpath(), "f": "f%d" % j, "args": args, "kwargs": kwargs})
                if rng.random() < 0.2:
                    items[-1]["wrap"] = ["w0", "w1"]
                if "load" in allow and rng.random() < 0.4:
                    # a load of the path just kept (its result can feed later run-time arguments)
                    items.append({"k": "load", "path": items[-1]["path"]})
        reads = [v for (v, _) in vars_ if rng.random() < 0.5]
        funs.append({"name": "f%d" % i, "params": params, "store_path": ("/df%d" % i) if datafn[i] else None,
                     "tag": "f%d#0" % i, "reads": reads, "items": items, "fails": None, "uses_ext": rng.random() < 0.2,
                     "ws": rng.choice([None, None, True, False])})
        unread = [v for (v, _) in vars_ if v not in reads]
        if unread and "shadow" in allow and rng.random() < 0.4:
            funs[-1]["shadow"] = [rng.choice(unread), rng.choice(SHADOW_KINDS)]
    w = {"vars": vars_, "funs": funs, "ext_version": 0, "extra": []}
    return prune(w)


def gen_shared_keeps_world(rng, aliases=False):
    """several kept parents, each keeping - in its own order - some of a common pool of (path, function, literal argument)
    triples: the same node is reached from several parents, next to different siblings (every site of a path has the same
    signature, so the evaluation is accepted)"""
    nleaf = rng.randint(3, 4)
    npar = rng.randint(2, 4)
    funs = []
    pool = []
    for i in range(nleaf):
        name = "f%d" % (10 + i)
        pool.append({"k": "keep", "path": "/s%d" % i, "f": name, "args": [{"c": jv("int", str(i + 1))}], "kwargs": []})
        funs.append({"name": name, "params": [["a", None]], "store_path": None, "tag": "%s#0" % name, "reads": [], "items": [],
                     "fails": None, "uses_ext": False, "ws": None})
    parents = []
    for j in range(npar):
        name = "f%d" % (1 + j)
        its = [copy.deepcopy(x) for x in rng.sample(pool, rng.randint(2, min(3, nleaf)))]
        if aliases and j > 0:
            # the same call kept under a second path (an alias): two paths, one signature
            for x in its[:1]:
                x["path"] = x["path"] + "_alias%d" % j
        parents.append({"name": name, "params": [], "store_path": None, "tag": "%s#0" % name, "reads": [], "items": its,
                        "fails": None, "uses_ext": False, "ws": None})
    root = {"name": "f0", "params": [], "store_path": None, "tag": "f0#0", "reads": [],
            "items": [{"k": "keep", "path": "/par%d" % j, "f": "f%d" % (1 + j), "args": [], "kwargs": []} for j in range(npar)],
            "fails": None, "uses_ext": False, "ws": None}
    return prune({"vars": [["V0", jv("int", "0")]], "funs": [root] + parents + funs, "ext_version": 0, "extra": []})


def sites_ok(world):
    """a function that is the target of a keep has that keep as its only invocation site; other functions
    are only invoked by plain calls / references, i.e. always with the same (default) argument context -
    so no path is analysed under two different signatures (the PathsKeptOnce predicate of DESIGN §4)"""
    sites = {}
    for f in world["funs"]:
        for it in f["items"]:
            if "f" in it:
                sites.setdefault(it["f"], []).append("keep" if (it["k"] == "call" and (it.get("args") or it.get("kwargs"))) else it["k"])
    for j, ks in sites.items():
        if "keep" in ks and len(ks) > 1:
            return False
    # a path may appear at one keep site only
    ps = [it["path"] for f in world["funs"] for it in f["items"] if it["k"] == "keep"]
    return len(ps) == len(set(ps))


def gen_site_mix_world(rng):
    """directed stratum of `multi`: one function f1 (with a parameter and a keep whose argument is a run-time
    expression of it) is invoked from two or three sites of f0 in different styles - keep with a literal, call
    with a literal, plain call, bare reference (invoked with its defaults) - in every order. The analysis
    must see every site: either the inner path gets one signature per distinct context (rejected as kept
    twice) or all contexts are equal and every value is right."""
    default = rng.choice(CONSTS)
    styles = rng.sample(["keep", "keep2", "callargs", "call", "ref"], rng.choice([2, 2, 3]))
    items = []
    for st in styles:
        c = rng.choice([default, rng.choice(CONSTS)])
        if st in ("keep", "keep2"):
            it = {"k": "keep", "path": "/k_%s" % st, "f": "f1", "args": [], "kwargs": []}
            if rng.random() < 0.5:
                it["args"] = [{"c": c}]
            elif rng.random() < 0.7:
                it["kwargs"] = [["a", {"c": c}]]
            items.append(it)
        elif st == "callargs":
            items.append({"k": "call", "f": "f1", "args": [{"c": c}], "kwargs": []})
        else:
            items.append({"k": st, "f": "f1"})
    inner = rng.choice(["keep_rt", "keep_rt", "keep_const", "datafn"])
    if rng.random() < 0.5:
        # the sharpest shape: an invocation with a non-default literal, then a bare reference (default context)
        other = rng.choice([c for c in CONSTS if c != default])
        first = rng.choice([{"k": "keep", "path": "/k_keep", "f": "f1", "args": [{"c": other}], "kwargs": []},
                            {"k": "keep", "path": "/k_keep", "f": "f1", "args": [], "kwargs": [["a", {"c": other}]]},
                            {"k": "call", "f": "f1", "args": [{"c": other}], "kwargs": []}])
        items = [first, {"k": "ref", "f": "f1"}]
        if rng.random() < 0.3:
            items.reverse()
        inner = "keep_rt"
    f1_items = []
    if inner == "keep_rt":
        f1_items.append({"k": "keep", "path": "/inner", "f": "f2", "args": [{"r": [], "p": ["a"]}], "kwargs": []})
    elif inner == "keep_const":
        f1_items.append({"k": "keep", "path": "/inner", "f": "f2", "args": [{"c": rng.choice(CONSTS)}], "kwargs": []})
    else:
        f1_items.append({"k": "call", "f": "f3"})
    funs = [
        {"name": "f0", "params": [], "store_path": None, "tag": "f0#0", "reads": [], "items": items, "fails": None, "uses_ext": False, "ws": None},
        {"name": "f1", "params": [["a", default]], "store_path": None, "tag": "f1#0", "reads": ["V0"], "items": f1_items, "fails": None, "uses_ext": False, "ws": None},
        {"name": "f2", "params": [["a", rng.choice(CONSTS)]], "store_path": None, "tag": "f2#0", "reads": [], "items": [], "fails": None, "uses_ext": False, "ws": None},
        {"name": "f3", "params": [], "store_path": "/df3", "tag": "f3#0", "reads": ["V0"], "items": [], "fails": None, "uses_ext": False, "ws": None},
    ]
    return prune({"vars": [["V0", rng.choice(VAR_VALUES)]], "funs": funs, "ext_version": 0, "extra": []})


def gen_chain_world(rng):
    """directed stratum: a literal argument flows down a chain of keeps through run-time expressions
    (the case split of `sig_sound`: a callee's context must carry the caller's inputs)"""
    n = rng.randint(3, 5)
    vars_ = [["V0", rng.choice(VAR_VALUES)]]
    funs = []
    for i in range(n):
        params = [] if i == 0 else [["a", rng.choice([None, rng.choice(CONSTS)])]]
        items = []
        if i < n - 1:
            if i == 0:
                arg = {"c": rng.choice(CONSTS)}
            else:
                arg = {"r": [], "p": ["a"]}
            if rng.random() < 0.3 and i > 0:
                items.append({"k": "call", "f": "f%d" % (n - 1)}) if i < n - 2 else None
                items = [x for x in items if x]
                if items and "r" in arg:
                    arg = {"r": [0], "p": ["a"]}
            it = {"k": "keep", "path": "/c%d" % i, "f": "f%d" % (i + 1), "args": [], "kwargs": []}
            if rng.random() < 0.5:
                it["args"] = [arg]
            else:
                it["kwargs"] = [["a", arg]]
            items.append(it)
        funs.append({"name": "f%d" % i, "params": params, "store_path": None, "tag": "f%d#0" % i,
                     "reads": ["V0"] if rng.random() < 0.4 else [], "items": items, "fails": None, "uses_ext": False})
    # the last function must be callable without arguments when it is also called plainly
    if any(it["k"] == "call" for f in funs for it in f["items"]):
        if funs[-1]["params"] and funs[-1]["params"][0][1] is None:
            funs[-1]["params"][0][1] = rng.choice(CONSTS)
    w = {"vars": vars_, "funs": funs, "ext_version": 0, "extra": []}
    return w if sites_ok(w) else gen_chain_world(rng)


def gen_load_world(rng, placement=None, producer=None, order=None, reuse=None, nloads=1):
    """directed stratum for C09: one producer of /prod, one reader that loads it.
    placement: where the load sits (root | helper | kept | datafn); producer: datafn | keep;
    order: before | after | earlier | never (relative to the reader, in program order)"""
    placement = placement or rng.choice(["root", "helper", "kept", "datafn"])
    producer = producer or rng.choice(["datafn", "keep"])
    order = order or rng.choice(["before", "before", "earlier", "earlier", "after", "never"])
    vars_ = [["V0", rng.choice(VAR_VALUES)], ["V1", rng.choice(VAR_VALUES)]]
    fp = {"name": "fp", "params": [], "store_path": "/prod" if producer == "datafn" else None, "tag": "fp#0",
          "reads": ["V0"], "items": [], "fails": None, "uses_ext": False}
    noise = {"name": "fn", "params": [], "store_path": None, "tag": "fn#0", "reads": ["V1"], "items": [], "fails": None, "uses_ext": False}
    load_item = {"k": "load", "path": "/prod"}
    prod_item = {"k": "call", "f": "fp"} if producer == "datafn" else {"k": "keep", "path": "/prod", "f": "fp", "args": [], "kwargs": []}
    funs = []
    root_items = []
    reader = None
    fq = None
    if placement == "feeds_keep":
        # the loaded value is passed on, as a run-time argument, to another kept call of the same function
        fq = {"name": "fq", "params": [["a", None]], "store_path": None, "tag": "fq#0", "reads": [], "items": [], "fails": None, "uses_ext": False}
        reader = {"name": "fr", "params": [], "store_path": None, "tag": "fr#0", "reads": [],
                  "items": [load_item, {"k": "keep", "path": "/fed", "f": "fq", "args": [{"r": [0], "p": []}], "kwargs": []}],
                  "fails": None, "uses_ext": False}
        reader_item = {"k": "call", "f": "fr"}
    elif placement == "root":
        reader_item = load_item
    elif placement == "helper":
        reader = {"name": "fr", "params": [], "store_path": None, "tag": "fr#0", "reads": [], "items": [load_item], "fails": None, "uses_ext": False}
        reader_item = {"k": "call", "f": "fr"}
    elif placement == "kept":
        reader = {"name": "fr", "params": [], "store_path": None, "tag": "fr#0", "reads": [], "items": [load_item], "fails": None, "uses_ext": False}
        reader_item = {"k": "keep", "path": "/reader", "f": "fr", "args": [], "kwargs": []}
    else:
        reader = {"name": "fr", "params": [], "store_path": "/reader", "tag": "fr#0", "reads": [], "items": [load_item], "fails": None, "uses_ext": False}
        reader_item = {"k": "call", "f": "fr"}
    if nloads > 1:
        # the same path is loaded several times in the reader's body (one dependency, however often it is read)
        extra = [dict(load_item) for _ in range(nloads - 1)]
        if reader is not None:
            reader["items"] = reader["items"][:1] + extra + reader["items"][1:]
            for it in reader["items"]:
                if it["k"] == "keep":
                    for a in it.get("args", []):
                        if "r" in a:
                            a["r"] = [0]
    reader_seq = [reader_item] + ([dict(load_item) for _ in range(nloads - 1)] if reader is None else [])
    if rng.random() < 0.5:
        root_items.append({"k": "call", "f": "fn"})
    # the producing function may already have appeared in the evaluation (called, or kept at another path)
    reuse = reuse if reuse is not None else rng.choice(["none", "none", "called_before", "kept_before"])
    if producer == "keep" and order in ("before", "after"):
        if reuse == "called_before":
            root_items.append({"k": "call", "f": "fp"})
        elif reuse == "kept_before":
            root_items.append({"k": "keep", "path": "/other", "f": "fp", "args": [], "kwargs": []})
    if order == "before":
        root_items += [prod_item] + reader_seq
    elif order == "after":
        root_items += reader_seq + [prod_item]
    else:
        root_items += reader_seq
    if rng.random() < 0.5:
        root_items.append({"k": "call", "f": "fn"})
    f0 = {"name": "f0", "params": [], "store_path": None, "tag": "f0#0", "reads": [], "items": root_items, "fails": None, "uses_ext": False}
    funs = [f0] + ([reader] if reader else []) + ([fq] if fq else []) + [fp, noise]
    w = {"vars": vars_, "funs": funs, "ext_version": 0, "extra": []}
    meta = {"placement": placement, "producer": producer, "order": order, "reuse": reuse, "nloads": nloads}
    return w, meta


def reachable(world):
    byname = dict((f["name"], f) for f in world["funs"])
    seen = []

    def go(n):
        if n in seen:
            return
        seen.append(n)
        for it in byname[n]["items"]:
            if "f" in it:
                go(it["f"])
    go(world["funs"][0]["name"])
    return seen


def prune(world):
    """drop unreachable functions (they would be 'unrelated definitions')"""
    r = set(reachable(world))
    world["funs"] = [f for f in world["funs"] if f["name"] in r]
    return world


def kept_paths(world):
    """all paths a full evaluation of the root keeps, with the function kept there"""
    byname = dict((f["name"], f) for f in world["funs"])
    out = []

    def go(n, seen):
        f = byname[n]
        if f.get("store_path"):
            out.append((f["store_path"], n))
        for it in f["items"]:
            if it["k"] == "keep":
                out.append((it["path"], it["f"]))
            if "f" in it:
                go(it["f"], seen)
    go(world["funs"][0]["name"], set())
    return out


# ---------------------------------------------------------------------------------------------
# edits
# ---------------------------------------------------------------------------------------------

def same_hash_class(a, b):
    """True when dds_hash cannot tell the two values apart: documented identifications (bool = int, list = tuple)
    or the C05 known-finding collision families - such an edit is invisible to dds by C05, not by C01"""
    from . import c05
    rules = tuple(r for r in c05.RULES if r != "digesttext")
    return c05.canon(a, rules) == c05.canon(b, rules)


EDIT_KINDS = ["body", "var", "const_arg", "unrelated_fun", "unrelated_var", "reorder", "ext", "revert", "delete_call", "whitespace", "rt_arg", "multiline", "wrap_lit", "inplace_var"]


def bump_tag(tag):
    a, b = tag.split("#")
    return "%s#%d" % (a, int(b) + 1)


def apply_edit(rng, world, kind):
    """returns (new world, description dict) or None when the edit does not apply"""
    w = copy.deepcopy(world)
    if kind == "body":
        f = rng.choice(w["funs"])
        f["tag"] = bump_tag(f["tag"])
        return w, {"kind": kind, "fun": f["name"], "in_cone_of": "callers"}
    if kind == "var":
        used = sorted({v for f in w["funs"] for v in f.get("reads", [])})
        if not used:
            return None
        v = rng.choice(used)
        for pair in w["vars"]:
            if pair[0] == v:
                old = pair[1]
                new = rng.choice([x for x in VAR_VALUES if not same_hash_class(x, old)])
                pair[1] = new
        return w, {"kind": kind, "var": v}
    if kind == "inplace_var":
        # a tracked variable is updated IN PLACE (no rebinding, no reload of the module): a list grows, a dict gets a key,
        # a list inside a tuple grows
        used = sorted({v for f in w["funs"] for v in f.get("reads", [])})
        cands = []
        for pair in w["vars"]:
            if pair[0] not in used:
                continue
            pair[1] = copy.deepcopy(pair[1])      # two variables may have been given the same pool object
            val = pair[1]
            if val["t"] == "list":
                cands.append((pair, "%s.append(%%d)" % pair[0], val["v"]))
            elif val["t"] == "dict":
                cands.append((pair, None, None))
            elif val["t"] == "tuple" and val["v"] and val["v"][0]["t"] == "list":
                cands.append((pair, "%s[0].append(%%d)" % pair[0], val["v"][0]["v"]))
        if not cands:
            return None
        pair, tmpl, target = rng.choice(cands)
        n = 10 + rng.randint(0, 89)
        if tmpl is None:
            have = {k_.get("v") for (k_, _) in pair[1]["v"] if k_.get("t") == "str"}
            while "k%d" % n in have:
                n += 100          # (a key that the dict holds already would be an update of its value, not a new entry)
            key = "k%d" % n
            pair[1]["v"].append([jv("str", key), jv("int", str(n))])
            stmt = "%s[%r] = %d" % (pair[0], key, n)
        else:
            target.append(jv("int", str(n)))
            stmt = tmpl % n
        return w, {"kind": "var", "var": pair[0], "inplace": stmt}
    if kind == "const_arg":
        sites = [(f, it, a) for f in w["funs"] for it in f["items"] if it["k"] in ("keep", "call")
                 for a in list(it.get("args", [])) + [x for (_, x) in it.get("kwargs", [])] if "c" in a]
        if not sites:
            return None
        f, it, a = rng.choice(sites)
        a["c"] = rng.choice([x for x in CONSTS if not same_hash_class(x, a["c"])])
        return w, {"kind": kind, "fun": f["name"], "path": it.get("path", "(plain call of %s)" % it["f"])}
    if kind == "unrelated_fun":
        k = len(w.get("extra", []))
        w.setdefault("extra", []).append("def unrelated_%d():\n    return %d\n" % (k, rng.randint(0, 99)))
        return w, {"kind": kind}
    if kind == "unrelated_var":
        k = len(w.get("extra", []))
        w.setdefault("extra", []).append("UNRELATED_%d = %d" % (k, rng.randint(0, 99)))
        return w, {"kind": kind}
    if kind == "reorder":
        return w, {"kind": kind, "order": rng.sample(range(len(w["funs"])), len(w["funs"]))}
    if kind == "ext":
        w["ext_version"] = w.get("ext_version", 0) + 1
        return w, {"kind": kind}
    if kind == "rt_arg":
        sites = [(f, it, a) for f in w["funs"] for it in f["items"] if it["k"] == "keep"
                 for a in list(it.get("args", [])) + [x for (_, x) in it.get("kwargs", [])] if "c" not in a]
        if not sites:
            return None
        f, it, a = rng.choice(sites)
        a["l"] = list(a.get("l", [])) + ["x%d" % len(a.get("l", []))]
        return w, {"kind": "body", "fun": f["name"], "runtime_argument_of": it["path"]}
    if kind == "multiline":
        sites = [(f, it) for f in w["funs"] for it in f["items"] if it["k"] == "keep" and (it.get("args") or it.get("kwargs"))]
        if not sites:
            return None
        f, it = rng.choice(sites)
        it["multiline"] = not it.get("multiline")
        return w, {"kind": "body", "fun": f["name"], "layout_of": it["path"]}
    if kind == "wrap_lit":
        # an edit on a line of the caller strictly after the end of a kept call (a later argument of the library
        # call wrapped around it): the caller's body changes, the call-site context of the kept call does not
        sites = [(f, it) for f in w["funs"] for it in f["items"] if it.get("wrap") and not it.get("multiline")]
        if not sites:
            return None
        f, it = rng.choice(sites)
        it["wrap"] = list(it["wrap"][:-1]) + [it["wrap"][-1] + "x"]
        return w, {"kind": "body", "fun": f["name"], "after_call_of": it["f"], "after_path": it["path"]}
    if kind == "whitespace":
        f = rng.choice(w["funs"])
        f["ws"] = (not f["ws"]) if f.get("ws") is not None else True
        return w, {"kind": "body", "fun": f["name"], "whitespace_only": True}
    if kind == "delete_call":
        sites = [(f, i) for f in w["funs"] for i, it in enumerate(f["items"]) if it["k"] in ("call", "ref")]
        if not sites:
            return None
        f, i = rng.choice(sites)
        del f["items"][i]
        # run-time arguments refer to results by index: shift them
        for it in f["items"]:
            if it["k"] in ("keep", "call"):
                for a in list(it.get("args", [])) + [x for (_, x) in it.get("kwargs", [])]:
                    if "r" in a:
                        a["r"] = [x if x < i else x - 1 for x in a["r"] if x != i]
        prune(w)
        if not kept_paths(w):
            return None
        return w, {"kind": "body", "fun": f["name"], "deleted_call": True}
    return None


# ---------------------------------------------------------------------------------------------
# the hypotheses of the Lean theorems C01.sig_sound / memo_correct / history_correct (structure `Universe`
# in lean/DdsProofs/SigSound.lean), checked on every function version that a run generates
# ---------------------------------------------------------------------------------------------

class UniverseCheck(object):
    """faithful / prefixFaithful / sorted / lineBound / paramNames / noCtxParam / varsInj on the generated versions;
    `keeps_on_data_functions` counts the generated keeps outside `World.keepsPlain`"""

    def __init__(self):
        self.by_lines = {}
        self.by_prefix = {}
        self.values = {}
        self.problems = []
        self.functions = 0
        # outside `World.keepsPlain` (hypothesis of the theorems with loads): an explicit keep applied to a data function
        self.keeps_on_data_functions = 0

    @staticmethod
    def _code(f):
        return json.dumps([f["name"], f["params"], f["store_path"], f["tag"], f["items"], f["fails"], f["uses_ext"], f.get("ws"),
                           [n for (n, _) in f["vars"]]], sort_keys=True)

    def add_world(self, mworld, hash_fn=None):
        by_name = dict((f["name"], f) for f in mworld["funs"])
        for f in mworld["funs"]:
            self.functions += 1
            for it in f["items"]:
                if it["k"] == "keep" and by_name.get(it.get("f"), {}).get("store_path") is not None:
                    self.keeps_on_data_functions += 1
            key = tuple(f["lines"])
            code = self._code(f)
            if self.by_lines.setdefault(key, code) != code:
                self.problems.append("faithful: two versions with the same source lines differ as programs: %s" % f["name"])
            lines = [it["line"] for it in f["items"]]
            if any(b <= a for a, b in zip(lines, lines[1:])):
                self.problems.append("sorted: items of %s are not in strictly increasing line order" % f["name"])
            if any(l >= len(f["lines"]) for l in lines):
                self.problems.append("lineBound: an item of %s ends outside its source" % f["name"])
            names = [p["name"] for p in f["params"]]
            if len(set(names)) != len(names) or "context" in names:
                self.problems.append("paramNames / noCtxParam: %s has parameters %s" % (f["name"], names))
            if any(p["kind"] != "POSITIONAL_OR_KEYWORD" for p in f["params"]):
                self.problems.append("plainParams: %s" % f["name"])
            for n in [0] + lines:
                pk = tuple(f["lines"][: n + 1])
                pv = json.dumps([f["params"], [it for it in f["items"] if it["line"] <= n]], sort_keys=True)
                if self.by_prefix.setdefault(pk, pv) != pv:
                    self.problems.append("prefixFaithful: the same text up to line %d of %s gives different calls" % (n, f["name"]))
            if hash_fn is not None:
                # two separate sets (Universe.vals / Universe.avals): a variable is never compared with an argument
                avals = [p["default"] for p in f["params"] if p["default"] is not None]
                for it in f["items"]:
                    avals += [a for a in it.get("args", []) if a.get("t") != "other"]
                    avals += [a for (_, a) in it.get("kwargs", []) if a.get("t") != "other"]
                for kind, vals in (("vars", [v for (_, v) in f["vars"]]), ("args", avals)):
                    seen = self.values.setdefault(kind, {})
                    for v in vals:
                        js = json.dumps(v, sort_keys=True)
                        if js in seen:
                            continue
                        h = hash_fn(v)
                        seen[js] = h
                        for js2, h2 in seen.items():
                            if js2 != js and h2 == h:
                                self.problems.append("%sInj: two %s values of the generated programs have the same dds_hash: %s %s" % (kind, kind, js, js2))
