"""Run-time helpers imported by generated programs. This module is NOT accepted by dds on purpose:
its functions are tracked by name only, and the execution log is not a tracked variable."""
import collections
import dataclasses

LOG = []


def log(name):
    LOG.append(name)


Pair = collections.namedtuple('Pair', ['a', 'b'])


def frame_text(df):
    """a data frame as text: the names and the values of its row labels, its columns, its cells"""
    return repr((list(df.index.names), [repr(i) for i in df.index.tolist()], [str(c) for c in df.columns], df.values.tolist()))


def show(x):
    return x if isinstance(x, str) else repr(x)


def term(tag, *parts):
    """the Herbrand term of a function application, as a string"""
    return tag + "(" + ",".join(show(p) for p in parts) + ")"


def rt(*parts):
    """a value computed at run time from earlier results / parameters"""
    return "rt(" + ",".join(show(p) for p in parts) + ")"


def first(x, *rest):
    """a library call wrapped around a dds call, possibly spread over several lines (returns its first argument)"""
    return x


def hof(f):
    """higher-order use of a function that is only *referenced* in the caller's source"""
    return f()


class Boom(Exception):
    pass


class BoomBase(BaseException):
    pass


@dataclasses.dataclass(frozen=True)
class BoomFrozen(Exception):
    """an exception whose instances refuse attribute assignment (a frozen dataclass)"""
    token: str


RAISED = []
COUNTS = {}


def boom(kind, token):
    if kind == "Boom":
        e = Boom(token)
    elif kind == "KeyboardInterrupt":
        e = KeyboardInterrupt(token)
    elif kind == "SystemExit":
        e = SystemExit(token)
    elif kind == "GeneratorExit":
        e = GeneratorExit(token)
    elif kind == "BoomBase":
        e = BoomBase(token)
    elif kind == "BoomFrozen":
        e = BoomFrozen(token)
    elif ":errno" in kind:
        # an OSError as the operating system raises it: with an error number (open() on a missing file, a directory
        # that cannot be written to, a full disk)
        import builtins
        import errno
        cls = kind.split(":")[0]
        num = {"FileNotFoundError": errno.ENOENT, "PermissionError": errno.EACCES, "OSError": errno.ENOSPC}[cls]
        e = getattr(builtins, cls)(num, token)
    else:
        # any built-in exception class, by name (KeyError, StopIteration, FileNotFoundError, ...)
        import builtins
        e = getattr(builtins, kind)(token)
    RAISED.append(e)
    raise e


def fail_first(name, k, kind):
    """a source that is unreachable the first k times it is asked (per name), then answers"""
    COUNTS[name] = COUNTS.get(name, 0) + 1
    if COUNTS[name] <= k:
        boom(kind, "%s attempt %d" % (name, COUNTS[name]))
    return COUNTS[name]
