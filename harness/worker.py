"""Evaluation workers: run generated pipelines with the real dds (mode "real") or with a dds-free
stand-in (mode "ref": `keep` just calls, `load` returns the value most recently kept at the path).

Usable in-process (class Runner) or as a subprocess speaking JSON lines (python worker.py real|ref).
"""
import importlib
import json
import linecache
import os
import sys
import types
from collections import OrderedDict

HERE = os.path.dirname(os.path.abspath(__file__))
RTLIB = os.path.join(HERE, "rtlib")
REPO = os.environ.get("DDS_REPO", "/repo")


def _ensure_paths(wsdir=None):
    for p in (RTLIB,):
        if p not in sys.path:
            sys.path.insert(0, p)
    if wsdir and wsdir not in sys.path:
        sys.path.insert(0, wsdir)


class Runner(object):
    def __init__(self, mode):
        self.mode = mode
        self.mod = None
        self.modname = None
        self.store = None
        self.captured_paths = None
        self.ref_paths = {}
        _ensure_paths()
        if mode == "real":
            if sys.path[0] != REPO:
                sys.path.insert(0, REPO)
            import logging
            logging.getLogger("dds").setLevel(logging.ERROR)
            import dds
            assert os.path.realpath(dds.__file__).startswith(os.path.realpath(REPO) + os.sep), dds.__file__
            self.dds = dds
            self._patch_capture()
        else:
            self.dds = self._fake_dds()
            sys.modules["dds"] = self.dds

    # ---- reference semantics ----------------------------------------------------------------
    def _fake_dds(self):
        runner = self
        m = types.ModuleType("dds")

        def keep(path, fun, *args, **kwargs):
            v = fun(*args, **kwargs)
            runner.ref_paths[str(path)] = v
            return v

        def load(path):
            return runner.ref_paths[str(path)]

        def eval_(fun, *args, **kwargs):
            return fun(*args, **kwargs)

        def data_function(path):
            def deco(func):
                import functools

                @functools.wraps(func)
                def wrapper(*a, **k):
                    return keep(path, func, *a, **k)
                return wrapper
            return deco
        m.keep, m.load, m.eval, m.data_function, m.dds_function = keep, load, eval_, data_function, data_function
        m.accept_module = lambda *a, **k: None
        m.accept_package = m.accept_module
        return m

    # ---- observation of the real implementation from outside ----------------------------------
    def _patch_capture(self):
        """record the path -> signature map computed by the analysis (no hook in /repo: the utility class the
        API module calls is wrapped here)"""
        import dds._api as api
        runner = self
        FIU = api.FunctionInteractionsUtils
        if getattr(FIU, "_verif_wrapped", False):
            return
        orig = FIU.all_store_paths.__func__

        depth = [0]

        def all_store_paths(cls, fi):
            depth[0] += 1
            try:
                r = orig(cls, fi)
            finally:
                depth[0] -= 1
            runner_holder = getattr(api, "_verif_runner", None)
            if runner_holder is not None and depth[0] == 0:
                # only the outermost call is the evaluation's path map (the function is recursive)
                runner_holder.captured_paths = OrderedDict(r)
                runner_holder.captured_fis = fi
            return r
        FIU.all_store_paths = classmethod(all_store_paths)
        FIU._verif_wrapped = True

    def set_store(self, kind, internal_dir=None, data_dir=None, cache=None):
        if self.mode != "real":
            return
        from . import ws as _ws  # noqa
        import dds._api as api
        from dds.store import MemoryStore, LocalFileStore, NoOpStore
        from dds._lru_store import LRUCacheStore
        if kind == "memory":
            inner = MemoryStore()
        elif kind == "noop":
            inner = NoOpStore()
        elif kind in ("local", "local_lru"):
            inner = LocalFileStore(internal_dir, data_dir)
            if kind == "local_lru":
                inner = LRUCacheStore(inner, num_elem=cache or 3)
        elif kind == "dbfs":
            # the DBFS store (commit type full) over the fake dbutils rooted next to the internal directory
            from .fakedbutils import make_dbfs_store
            os.makedirs(internal_dir + "_dbfs", exist_ok=True)
            inner = make_dbfs_store(internal_dir + "_dbfs", "FULL")
        else:
            raise ValueError(kind)
        self.store = _ws.recording_store(inner)
        api._store_var = self.store
        self.store_kind = kind

    def set_store_api(self, internal_dir, data_dir, cache_objects):
        """through the public API: dds.set_store('local', ...)"""
        import dds._api as api
        from . import ws as _ws
        self.dds.set_store("local", internal_dir=internal_dir, data_dir=data_dir, cache_objects=cache_objects)
        self.store = _ws.recording_store(api._store_var)
        api._store_var = self.store
        self.store_kind = "local_api"

    def load_world(self, wsdir, modname, extmod=None, accept=None):
        _ensure_paths(wsdir)
        for k in list(sys.modules):
            if k == modname or k.startswith(modname + ".") or (extmod and k == extmod) or k.split(".")[0] == modname.split(".")[0]:
                del sys.modules[k]
        # NB: the line cache is NOT cleared here: noticing that a source file changed on disk is the library's job
        # (inspect.getsource checks the freshness of the cached lines); clearing it here would hide a regression there
        importlib.invalidate_caches()
        if self.mode == "real":
            self.dds.accept_module(accept or modname.split(".")[0])
        self.mod = importlib.import_module(modname)
        self.modname = modname

    def exec_stmt(self, stmt):
        """run a statement in the namespace of the loaded module (in-place update of a module variable)"""
        exec(stmt, self.mod.__dict__)

    def reset_process_state(self):
        """what a restart of the interpreter would forget (used to emulate a fresh process cheaply)"""
        if self.mode != "real":
            return
        import dds._api as api
        api._eval_ctx = None
        from dds import _global_ctx
        g = _global_ctx._global_context
        if g is not None:
            g.cached_fun_calls.clear()
            g.cached_fun_interactions.clear()

    def run(self, entry, opts=None):
        import ddsverif_rt as rtm
        opts = opts or {}
        del rtm.LOG[:]
        del rtm.RAISED[:]
        res = {"value": None, "error": None, "log": None, "paths": None, "synced": None, "stored": None, "idle": True}
        self.captured_paths = None
        if self.mode == "real":
            import dds._api as api
            api._verif_runner = self
            if self.store is not None:
                self.store.synced = []
                self.store.stored = []
        fun = getattr(self.mod, entry["fun"])
        try:
            from .c05 import dec
        except ImportError:
            from c05 import dec
        args = [dec(a) for a in entry.get("args", [])]
        kwargs = dict((k, dec(v)) for (k, v) in entry.get("kwargs", []))
        kw = {}
        if self.mode == "real":
            if "stages" in opts and opts["stages"] is not None:
                kw["dds_stages"] = opts["stages"]
            if opts.get("extra_debug") is not None:
                kw["dds_extra_debug"] = opts["extra_debug"]
            if opts.get("export_graph"):
                kw["dds_export_graph"] = opts["export_graph"]
        try:
            if entry["kind"] == "eval":
                v = self.dds.eval(fun, *args, **dict(kwargs, **kw))
            elif entry["kind"] == "keep":
                v = self.dds.keep(entry["path"], fun, *args, **kwargs)
            else:
                v = fun(*args, **kwargs)
            res["value"] = v
        except BaseException as e:
            cls = type(e).__name__
            if cls == "DDSException":
                code = getattr(e, "error_code", None)
                res["error"] = {"kind": "dds", "code": code.name if code is not None else None, "msg": str(e)[:300]}
            else:
                res["error"] = {"kind": "exc", "cls": cls, "token": str(e.args[0]) if e.args else "",
                                "same_object": bool(rtm.RAISED) and e is rtm.RAISED[-1]}
        res["log"] = list(rtm.LOG)
        if self.mode == "real":
            import dds._api as api
            res["idle"] = api._eval_ctx is None
            if api._eval_ctx is not None:
                api._eval_ctx = None
            res["paths"] = dict(self.captured_paths) if self.captured_paths is not None else None
            if self.store is not None:
                res["synced"] = dict(self.store.synced[-1]) if self.store.synced else None
                res["stored"] = list(self.store.stored)
        return res

    def load_path(self, path):
        try:
            return {"value": self.dds.load(path), "error": None}
        except BaseException as e:
            return {"value": None, "error": type(e).__name__ + ":" + str(getattr(e, "error_code", ""))}


def main():
    mode = sys.argv[1]
    sys.path.insert(0, os.path.dirname(HERE))
    from harness.worker import Runner as R   # same class, importable as a package member
    r = R(mode)
    for line in sys.stdin:
        line = line.strip()
        if not line:
            continue
        rq = json.loads(line)
        cmd = rq["cmd"]
        try:
            if cmd == "quit":
                break
            elif cmd == "cwd":
                os.chdir(rq["dir"])
                out = {"ok": True}
            elif cmd == "store":
                r.set_store(rq["kind"], rq.get("internal_dir"), rq.get("data_dir"), rq.get("cache"))
                out = {"ok": True}
            elif cmd == "store_api":
                r.set_store_api(rq.get("internal_dir"), rq.get("data_dir"), rq.get("cache_objects"))
                out = {"ok": True, "store": repr(r.store.inner)}
            elif cmd == "world":
                r.load_world(rq["dir"], rq["module"], rq.get("extmod"), rq.get("accept"))
                out = {"ok": True}
            elif cmd == "exec":
                r.exec_stmt(rq["stmt"])
                out = {"ok": True}
            elif cmd == "refpaths":
                r.ref_paths = dict(rq["paths"])
                out = {"ok": True}
            elif cmd == "run":
                out = r.run(rq["entry"], rq.get("opts"))
                if r.mode == "ref":
                    out["refpaths"] = dict(r.ref_paths)
            elif cmd == "load":
                out = r.load_path(rq["path"])
            else:
                out = {"error": "bad-cmd"}
        except BaseException as e:  # infrastructure problem inside the worker
            import traceback
            out = {"worker_error": traceback.format_exc()[-1500:]}
        sys.stdout.write(json.dumps(out, default=str) + "\n")
        sys.stdout.flush()


if __name__ == "__main__":
    main()
