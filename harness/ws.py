"""Workspaces: temporary packages of generated Python code, recording stores, value encoders."""
import importlib
import linecache
import itertools
import os
import shutil
import sys
import tempfile
from collections import OrderedDict

_counter = itertools.count()


class Workspace(object):
    """A temp directory (outside /repo and /verif) put on sys.path; packages written into it are imported
    under unique names and accepted by dds."""

    def __init__(self, tag="ws"):
        self.dir = tempfile.mkdtemp(prefix="ddsverif_%s_" % tag)
        sys.path.insert(0, self.dir)
        self.pkgs = []

    def unique(self, stem):
        return "%s_%d_%d" % (stem, os.getpid(), next(_counter))

    def write_module(self, name, source, accept=True):
        """write top-level module `name` (or dotted package path) and import it"""
        parts = name.split(".")
        d = self.dir
        for p in parts[:-1]:
            d = os.path.join(d, p)
            os.makedirs(d, exist_ok=True)
            init = os.path.join(d, "__init__.py")
            if not os.path.exists(init):
                open(init, "w").close()
        path = os.path.join(d, parts[-1] + ".py")
        with open(path, "w") as f:
            f.write(source)
        importlib.invalidate_caches()
        if accept:
            import dds
            dds.accept_module(parts[0])
        mod = importlib.import_module(name)
        self.pkgs.append(parts[0])
        return mod

    def rewrite_module(self, name, source):
        """edit a module in place: rewrite the file, drop source caches, reload"""
        import linecache
        parts = name.split(".")
        path = os.path.join(self.dir, *parts) + ".py"
        with open(path, "w") as f:
            f.write(source)
        # the line cache is left alone on purpose (see worker.load_world)
        importlib.invalidate_caches()
        return importlib.reload(sys.modules[name])

    def close(self):
        try:
            sys.path.remove(self.dir)
        except ValueError:
            pass
        for k in list(sys.modules):
            if k.split(".")[0] in self.pkgs:
                del sys.modules[k]
        try:
            from dds.introspect import _accepted_packages
            for p in self.pkgs:
                _accepted_packages.discard(p)
        except Exception:
            pass
        linecache.clearcache()
        shutil.rmtree(self.dir, ignore_errors=True)

    def __enter__(self):
        return self

    def __exit__(self, *a):
        self.close()


def recording_store(inner=None):
    """a Store that delegates to `inner` (MemoryStore by default) and records what dds asks of it"""
    from dds.store import Store, MemoryStore

    class RecordingStore(Store):
        def __init__(self, inner):
            self.inner = inner if inner is not None else MemoryStore()
            self.synced = []        # list of OrderedDict path -> key
            self.stored = []        # list of keys
            self.ops = []

        def has_blob(self, key):
            r = self.inner.has_blob(key)
            self.ops.append(("has", key, r))
            return r

        def fetch_blob(self, key):
            self.ops.append(("fetch", key))
            return self.inner.fetch_blob(key)

        def store_blob(self, key, blob, codec=None):
            self.stored.append(key)
            self.ops.append(("store", key))
            return self.inner.store_blob(key, blob, codec)

        def sync_paths(self, paths):
            self.synced.append(OrderedDict(paths))
            self.ops.append(("sync", list(paths.items())))
            return self.inner.sync_paths(paths)

        def fetch_paths(self, paths):
            self.ops.append(("fetch_paths", list(paths)))
            return self.inner.fetch_paths(paths)

        def codec_registry(self):
            return self.inner.codec_registry()

    # whatever other public method the Store interface of the tree under test has (now or after a change) goes straight to the
    # wrapped store: the recorder must not shadow it with the base-class default
    def _delegate(name):
        def method(self, *a, **k):
            self.ops.append((name,))
            return getattr(self.inner, name)(*a, **k)
        method.__name__ = name
        return method
    for name in dir(Store):
        if not name.startswith("_") and name not in RecordingStore.__dict__ and callable(getattr(Store, name, None)):
            setattr(RecordingStore, name, _delegate(name))
    return RecordingStore(inner)


def reset_dds_state():
    """leave the evaluation context a failed case may have left behind (C10 checks separately that dds does so itself);
    the process-wide caches of the implementation are NOT touched: whatever they remember is part of what is being checked"""
    import dds._api as api
    api._eval_ctx = None
