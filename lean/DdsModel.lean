import DdsModel.Sha256
import DdsModel.Sym
import DdsModel.PyVal
