import DdsModel.Sha256
import DdsModel.Sym
import DdsModel.PyVal
import DdsModel.Args
import DdsModel.Sig
import DdsModel.Auth
import DdsModel.Paths
