import DdsModel.PyVal
/-!
# Argument contexts (`dds/fun_args.py`: `get_arg_ctx`, `get_arg_ctx_ast`)

A call's *spelling* is a list of positional arguments plus a list of keyword arguments; the
*binding* is the map parameter ↦ value that Python would build from it. The two routes of the code
(values at a direct call, AST nodes at a call seen in source) are modelled as written; `bind` is the
specification they are compared with.
-/
namespace Dds

inductive ParamKind where
  | posOrKw | varKw | varPos | kwOnly | posOnly
  deriving DecidableEq, Repr

structure Param where
  name : String
  kind : ParamKind := .posOrKw
  default : Option PyVal := none

inductive ArgErr where
  | notImplemented            -- `NotImplementedError` (unsupported parameter kind)
  | missingArg                -- `DDSException` without code: a required argument is missing
  | hash (e : HashErr)
  deriving DecidableEq, Repr

def liftHash {α} : Except HashErr α → Except ArgErr α
  | .ok a => .ok a
  | .error e => .error (.hash e)

def lookupKw {α} (n : String) : List (String × α) → Option α
  | [] => none
  | (k, v) :: kvs => if k = n then some v else lookupKw n kvs

/-- the value hashed for parameter number `idx`, direct route (`get_arg_ctx`) -/
def argDirect (m : Nat) (args : List PyVal) (kwargs : List (String × PyVal)) (idx : Nat) (p : Param) :
    Except ArgErr (Option Sg) :=
  if p.kind ≠ .posOrKw ∧ p.kind ≠ .varKw then .error .notImplemented else
  match args[idx]? with
  | some v => do let h ← liftHash (ddsHash m v); pure (some h)
  | none =>
    match lookupKw p.name kwargs with
    | some v => do let h ← liftHash (ddsHash m v); pure (some h)
    | none =>
      match p.default with
      | some d => do let h ← liftHash (ddsHash m d); pure (some h)
      | none => if p.kind = .varKw then .ok none else .error .missingArg

def getArgCtxFrom (m : Nat) (args : List PyVal) (kwargs : List (String × PyVal)) :
    Nat → List Param → Except ArgErr (List (String × Option Sg))
  | _, [] => .ok []
  | idx, p :: ps => do
      let h ← argDirect m args kwargs idx p
      let rest ← getArgCtxFrom m args kwargs (idx + 1) ps
      pure ((p.name, h) :: rest)

/-- `get_arg_ctx(f, args, kwargs).named_args` -/
def getArgCtx (m : Nat) (ps : List Param) (args : List PyVal) (kwargs : List (String × PyVal)) :
    Except ArgErr (List (String × Option Sg)) :=
  getArgCtxFrom m args kwargs 0 ps

/-- an argument as the analysis sees it in source: a literal constant, or anything else -/
inductive AstArg where
  | const (v : PyVal)
  | other

def processArg (m : Nat) : AstArg → Except ArgErr (Option Sg)
  | .const v => do let h ← liftHash (ddsHash m v); pure (some h)
  | .other => .ok none

/-- the literal values of a list of arguments, when all of them are literals -/
def allConst : List AstArg → Option (List PyVal)
  | [] => some []
  | .const v :: as => (allConst as).map (fun vs => v :: vs)
  | .other :: _ => none

def argAst (m : Nat) (args : List AstArg) (kwargs : List (String × AstArg)) (idx : Nat) (p : Param) :
    Except ArgErr (Option Sg) :=
  if p.kind ≠ .posOrKw ∧ p.kind ≠ .varKw ∧ p.kind ≠ .varPos then .error .notImplemented else
  -- (since the `fix:` commit for `*args`) every remaining positional argument is bound to a `*args` parameter
  if p.kind = .varPos then
    match allConst (args.drop idx) with
    | some vs => do let h ← liftHash (ddsHash m (.list vs)); pure (some h)
    | none => .ok none
  else
  match args[idx]? with
  | some a => processArg m a
  | none =>
    match lookupKw p.name kwargs with
    | some a => processArg m a
    | none =>
      match p.default with
      | some d => do let h ← liftHash (ddsHash m d); pure (some h)
      | none => .ok none

def getArgCtxAstFrom (m : Nat) (args : List AstArg) (kwargs : List (String × AstArg)) :
    Nat → List Param → Except ArgErr (List (String × Option Sg))
  | _, [] => .ok []
  | idx, p :: ps => do
      let h ← argAst m args kwargs idx p
      let rest ← getArgCtxAstFrom m args kwargs (idx + 1) ps
      pure ((p.name, h) :: rest)

/-- `get_arg_ctx_ast(f, args, kwargs)` -/
def getArgCtxAst (m : Nat) (ps : List Param) (args : List AstArg) (kwargs : List (String × AstArg)) :
    Except ArgErr (List (String × Option Sg)) :=
  getArgCtxAstFrom m args kwargs 0 ps

/-! ## Specification: the binding Python builds -/

/-- value bound to parameter number `idx` (positional first, then keyword, then default) -/
def bindOne (args : List PyVal) (kwargs : List (String × PyVal)) (idx : Nat) (p : Param) : Option PyVal :=
  match args[idx]? with
  | some v => some v
  | none => match lookupKw p.name kwargs with
    | some v => some v
    | none => p.default

def bindFrom (args : List PyVal) (kwargs : List (String × PyVal)) : Nat → List Param → List (String × Option PyVal)
  | _, [] => []
  | idx, p :: ps => (p.name, bindOne args kwargs idx p) :: bindFrom args kwargs (idx + 1) ps

/-- the binding of a spelling: parameter name ↦ bound value (`none`: unbound) -/
def bind (ps : List Param) (args : List PyVal) (kwargs : List (String × PyVal)) : List (String × Option PyVal) :=
  bindFrom args kwargs 0 ps

/-- all parameters are plain (positional-or-keyword): the supported subset -/
def plainParams (ps : List Param) : Bool := ps.all (fun p => p.kind = .posOrKw)

/-- hashing a binding, parameter by parameter -/
def hashBinding (m : Nat) : List (String × Option PyVal) → Except ArgErr (List (String × Option Sg))
  | [] => .ok []
  | (n, some v) :: bs => do
      let h ← liftHash (ddsHash m v)
      let rest ← hashBinding m bs
      pure ((n, some h) :: rest)
  | (_, none) :: _ => .error .missingArg

end Dds
