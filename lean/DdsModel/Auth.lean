/-!
# Accepted-module matching (`dds/_eval_ctx.py`: `EvalMainContext.is_authorized_path`)

`cp` is the list of parts of a canonical path (`a/b/c/f`), `A` the set of accepted packages (dotted
names). As written since the `fix:` commit for C14: every prefix of `cp` is tried (the loop used to be
bounded by the *number of accepted packages*).
-/
namespace Dds

def dotted (parts : List String) : String := ".".intercalate parts

def isAuthorizedPath (A : List String) (cp : List String) : Bool :=
  (List.range (cp.length + 1)).any (fun k => decide (dotted (cp.take k) ∈ A))

end Dds
