/-!
# Accepted-module matching (`dds/_eval_ctx.py`: `EvalMainContext.is_authorized_path`)

`cp` is the list of parts of a canonical path (`a/b/c/f`), `A` the set of accepted packages (dotted
names). As written since the `fix:` commit for C14: every prefix of `cp` is tried (the loop used to be
bounded by the *number of accepted packages*).
-/
namespace Dds

def dotted (parts : List String) : String := ".".intercalate parts

def isAuthorizedPath (A : List String) (cp : List String) : Bool :=
  (List.range (cp.length + 1)).any (fun k => decide (dotted (cp.take k) ∈ A))

end Dds

/-!
## Which objects of a module are tracked (`dds/_retrieve_objects.py`: `_is_authorized_type`)

The value a name of an accepted module is bound to is tracked (its hash enters the signature of the functions
that read it), ignored, or refused, by its type alone. Only the two container options move anything, and each
moves its own container kind only.
-/
namespace Dds

/-- the kinds of types `_is_authorized_type` distinguishes -/
inductive ObjKind where
  | scalar          -- int float str bytes bool NoneType PurePosixPath datetime date time timedelta timezone
  | tuple | function | module
  | list
  | dict            -- dict and OrderedDict
  | noModule        -- a class `inspect.getmodule` finds no module for
  | ofAccepted      -- any other class defined in an accepted module
  | ofForeign       -- any other class defined in a module that is not accepted
  deriving DecidableEq, Repr

inductive Tracking where
  | tracked | ignored | refused
  deriving DecidableEq, Repr

def objTracking (acceptList acceptDict : Bool) : ObjKind → Tracking
  | .scalar | .tuple | .function | .module => .tracked
  | .list => if acceptList then .tracked else .ignored
  | .dict => if acceptDict then .tracked else .ignored
  | .noModule => .ignored
  | .ofAccepted => .refused
  | .ofForeign => .ignored

end Dds
