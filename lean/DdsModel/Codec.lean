import DdsModel.StoreSpec
/-!
# Codec registry (`dds/codec.py`: `CodecRegistry`) and the DBFS store at request level
(`dds/codecs/databricks.py`: `DBFSStore`)
-/
namespace Dds

/-- a codec: its protocol reference, an identity (which implementation it is) and the types it handles -/
structure Codec where
  ref : String
  impl : String
  types : List String
  deriving DecidableEq, Repr

structure Registry where
  handled : List (String × Codec) := []      -- `_handled_types`
  protocols : List (String × Codec) := []    -- `_protocols`

/-- `add_codec`: comes on top, overrides types and reference -/
def Registry.addCodec (r : Registry) (c : Codec) : Registry :=
  { handled := c.types.foldl (fun acc t => aset acc t c) r.handled,
    protocols := aset r.protocols c.ref c }

/-- `add_file_codec`: only fills the types and the reference that are still free -/
def Registry.addFileCodec (r : Registry) (c : Codec) : Registry :=
  { handled := c.types.foldl (fun acc t => if (aget acc t).isSome then acc else aset acc t c) r.handled,
    protocols := if (aget r.protocols c.ref).isSome then r.protocols else aset r.protocols c.ref c }

inductive CodecErr where
  | protocolNotFound | typeNotRegistered
  deriving DecidableEq, Repr

/-- `get_codec(obj_type, ref)` -/
def Registry.getCodec (r : Registry) (ty : Option String) (ref : Option String) : Except CodecErr Codec :=
  match ref with
  | some rf => match aget r.protocols rf with
    | some c => .ok c
    | none => .error .protocolNotFound
  | none => match ty with
    | some t => match (aget r.handled t).orElse (fun _ => aget r.handled "object") with
      | some c => .ok c
      | none => .error .typeNotRegistered
    | none => .error .protocolNotFound

inductive RegOp where
  | addCodec (c : Codec)
  | addFileCodec (c : Codec)

def Registry.apply (r : Registry) : RegOp → Registry
  | .addCodec c => r.addCodec c
  | .addFileCodec c => r.addFileCodec c

def RegOp.codec : RegOp → Codec
  | .addCodec c => c
  | .addFileCodec c => c

/-! ## DBFS store, request level -/

inductive CommitType where
  | noCommit | linkOnly | full
  deriving DecidableEq, Repr

structure DbfsSt where
  blobs : List (Key × List UInt8) := []      -- <internal>/blobs/<key>
  metas : List (Key × String) := []           -- <internal>/blobs/<key>.meta : protocol reference
  data : List (DPath × List UInt8) := []      -- <data>/<path> : copy of the blob (FULL)
  redirect : List (DPath × Key) := []         -- <data>/_dds_meta/<path> : redirection record

def DbfsSt.syncAll (ct : CommitType) (s : DbfsSt) : List (DPath × Key) → DbfsSt × Bool
  | [] => (s, true)
  | (p, k) :: ps =>
    match ct with
    | .noCommit => (s, true)
    | _ =>
      if aget s.redirect p = some k then s.syncAll ct ps else
      match ct with
      | .full =>
        -- the blob's metadata and content are read; a missing blob raises
        match aget s.metas k, aget s.blobs k with
        | some _, some b => ({ s with data := aset s.data p b, redirect := aset s.redirect p k } : DbfsSt).syncAll ct ps
        | _, _ => (s, false)
      | _ => ({ s with redirect := aset s.redirect p k } : DbfsSt).syncAll ct ps

def DbfsSt.resolveAll (s : DbfsSt) : List DPath → List DPath → Option (List (DPath × Key))
  | [], _ => some []
  | p :: ps, seen =>
    match aget s.redirect p with
    | none => none
    | some k =>
      match s.resolveAll ps (p :: seen) with
      | none => none
      | some r => some (if p ∈ seen then r else (p, k) :: r)

def DbfsSt.step (ct : CommitType) (enc : Val → List UInt8 × String) (dec : List UInt8 → String → Val)
    (s : DbfsSt) : StoreOp → DbfsSt × Out
  | .store k v =>
    let (bytes, ref) := enc v
    ({ s with blobs := aset s.blobs k bytes, metas := aset s.metas k ref }, .unit)
  | .has k => (s, .bool (aget s.metas k).isSome)
  | .fetch k =>
    match aget s.metas k with
    | none => (s, .val none)
    | some r => match aget s.blobs k with
      | some b => (s, .val (dec b r))
      | none => (s, .err)
  | .sync ps =>
    match s.syncAll ct ps with
    | (s', true) => (s', .unit)
    | (s', false) => (s', .err)
  | .fetchPaths ps =>
    match s.resolveAll ps [] with
    | some r => (s, .paths r)
    | none => (s, .err)

end Dds
