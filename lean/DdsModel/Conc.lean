import DdsModel.LocalStore
/-!
# `LocalFileStore` at file-system-operation granularity: crashes and interleavings
(`dds/store.py`: `store_blob`, `sync_paths`, `has_blob`, `fetch_blob`, `fetch_paths`)

The write protocol as written since the `fix:` commits for C06 / C07:

* `store_blob(k, v)`: create a private temporary file, write the content (a write may be torn: two
  halves), `os.replace` it onto `blobs/k`; same for the metadata, **after** the blob;
* `sync_paths`: `makedirs(exist_ok)`, create a private temporary symbolic link, `os.replace` it onto
  the path's location;
* `has_blob(k)`: blob file and metadata file exist; `fetch_blob(k)`: decode the blob with the codec named
  by the metadata.

A process is a list of requests executed one micro-operation at a time; a schedule is any list of process
indices; a crash is a process that is never scheduled again (its temporary files stay as garbage).
Temporary names are private to the (process, request) pair (`pid`, `uuid4`).
-/
namespace Dds

abbrev Bytes := List UInt8

/-- what the content-addressing discipline fixes for a key: the encoded value and its metadata
(one signature, one value: C01) -/
structure Truth where
  content : Key → Bytes
  metaOf : Key → String

inductive Req where
  | store (k : Key)
  | sync (l : Loc) (k : Key)
  deriving DecidableEq, Repr

/-- a temporary name: (process id, index of the request in the process) -/
abbrev TmpName := Nat × Nat

structure Disk where
  blobs : List (Key × Bytes) := []
  metas : List (Key × String) := []
  links : List (Loc × Key) := []
  tmpFiles : List (TmpName × Bytes) := []
  tmpLinks : List (TmpName × Key) := []

def tget {α} (l : List (TmpName × α)) (k : TmpName) : Option α :=
  match l with
  | [] => none
  | (k', v) :: l => if k' = k then some v else tget l k

def tset {α} (l : List (TmpName × α)) (k : TmpName) (v : α) : List (TmpName × α) :=
  (k, v) :: l.filter (fun kv => kv.1 ≠ k)

def tdel {α} (l : List (TmpName × α)) (k : TmpName) : List (TmpName × α) := l.filter (fun kv => kv.1 ≠ k)

structure Proc where
  id : Nat
  reqs : List Req          -- the requests of the process, in order
  idx : Nat := 0           -- index of the current request
  pc : Nat := 0            -- micro-step inside the current request

def halves (b : Bytes) : Bytes × Bytes := (b.take (b.length / 2), b.drop (b.length / 2))

/-- one micro-operation of process `p` (its next one). `store`: pc 0 creat tmp, 1 first half, 2 second half,
3 replace onto the blob, 4 creat tmp for the metadata, 5 write it, 6 replace onto the metadata.
`sync`: pc 0 makedirs (no effect on the modelled state), 1 temporary link, 2 replace onto the location. -/
def microStep (V : Truth) (d : Disk) (p : Proc) : Disk × Proc :=
  match p.reqs[p.idx]? with
  | none => (d, p)
  | some (.store k) =>
    let t : TmpName := (p.id, p.idx)
    match p.pc with
    | 0 => ({ d with tmpFiles := tset d.tmpFiles t [] }, { p with pc := 1 })
    | 1 => ({ d with tmpFiles := tset d.tmpFiles t (halves (V.content k)).1 }, { p with pc := 2 })
    | 2 => ({ d with tmpFiles := tset d.tmpFiles t ((halves (V.content k)).1 ++ (halves (V.content k)).2) }, { p with pc := 3 })
    | 3 => match tget d.tmpFiles t with
      | some b => ({ d with blobs := aset d.blobs k b, tmpFiles := tdel d.tmpFiles t }, { p with pc := 4 })
      | none => (d, p)                          -- `os.replace` of a missing file: FileNotFoundError (never happens: `never_stuck`)
    | 4 => ({ d with tmpFiles := tset d.tmpFiles t [] }, { p with pc := 5 })
    | 5 => ({ d with tmpFiles := tset d.tmpFiles t (V.metaOf k).toUTF8.data.toList }, { p with pc := 6 })
    | _ => match tget d.tmpFiles t with
      | some _ => ({ d with metas := aset d.metas k (V.metaOf k), tmpFiles := tdel d.tmpFiles t }, { p with idx := p.idx + 1, pc := 0 })
      | none => (d, p)
  | some (.sync l k) =>
    let t : TmpName := (p.id, p.idx)
    match p.pc with
    | 0 => (d, { p with pc := 1 })
    | 1 => ({ d with tmpLinks := tset d.tmpLinks t k }, { p with pc := 2 })
    | _ => match tget d.tmpLinks t with
      | some k' => ({ d with links := lset d.links l k', tmpLinks := tdel d.tmpLinks t }, { p with idx := p.idx + 1, pc := 0 })
      | none => (d, p)

/-- the system: a disk shared by processes -/
structure Sys where
  disk : Disk
  procs : List Proc

/-- process number `i` performs its next micro-operation (nothing happens if there is no such process) -/
def Sys.stepAt (V : Truth) (s : Sys) (i : Nat) : Sys :=
  match s.procs[i]? with
  | none => s
  | some p =>
    let (d', p') := microStep V s.disk p
    { disk := d', procs := s.procs.set i p' }

/-- a schedule: which process moves next, step after step (crashed processes simply never appear again) -/
def Sys.run (V : Truth) : Sys → List Nat → Sys
  | s, [] => s
  | s, i :: is => (s.stepAt V i).run V is

/-- what a reader finds: `has_blob` and `fetch_blob` on the current disk -/
def Disk.hasBlob (d : Disk) (k : Key) : Bool := (aget d.blobs k).isSome && (aget d.metas k).isSome

def Disk.fetch (d : Disk) (k : Key) : Option (Bytes × String) :=
  match aget d.blobs k, aget d.metas k with
  | some b, some m => some (b, m)
  | _, _ => none

/-- `fetch_paths` for one location: the key the link points to -/
def Disk.resolve (d : Disk) (l : Loc) : Option Key := lget d.links l

end Dds
