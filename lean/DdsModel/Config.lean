import DdsModel.LocalStore
/-!
# Local-store configuration (`dds/store.py`: `LocalFileStore.__init__`, `dds/_api.py`: `set_store`)

As written since the `fix:` commit for C16: the two configured directories are made absolute
(`os.path.abspath`) when the store is constructed, so nothing the store does later depends on the
working directory.
-/
namespace Dds

/-- `os.path.normpath` on segments: drop empty and `.` segments, resolve `..` against what precedes -/
def normSegs : List String → List String → List String
  | acc, [] => acc.reverse
  | acc, s :: ss =>
    if s = "" ∨ s = "." then normSegs acc ss
    else if s = ".." then normSegs acc.tail ss
    else normSegs (s :: acc) ss

def rawSegs (p : String) : List String := (splitChars '/' p.toList []).map String.ofList

/-- `os.path.abspath(p)` with working directory `cwd` (given by its segments) -/
def absPath (cwd : List String) (p : String) : List String :=
  if p.startsWith "/" then normSegs [] (rawSegs p) else normSegs [] (cwd ++ rawSegs p)

/-- two stores on one internal directory with different data directories -/
structure Views where
  blobs : List (Key × List UInt8) := []
  metas : List (Key × String) := []
  linksA : List (Loc × Key) := []
  linksB : List (Loc × Key) := []

def Views.a (v : Views) : LocalSt := { blobs := v.blobs, metas := v.metas, links := v.linksA }
def Views.b (v : Views) : LocalSt := { blobs := v.blobs, metas := v.metas, links := v.linksB }

def Views.stepA (v : Views) (op : StoreOp) : Views × Out :=
  let (s, o) := v.a.step op
  ({ blobs := s.blobs, metas := s.metas, linksA := s.links, linksB := v.linksB }, o)

def Views.stepB (v : Views) (op : StoreOp) : Views × Out :=
  let (s, o) := v.b.step op
  ({ blobs := s.blobs, metas := s.metas, linksA := v.linksA, linksB := s.links }, o)

end Dds
