import DdsModel.Introspect
/-!
# Evaluation (`dds/_api.py`: `_eval_new_ctx`, `_eval`, `load`) and plain execution

`evalStep` is one call of `dds.eval` / `dds.keep` / a data function from outside any evaluation.
`plainFn` is the same code run without dds (the Herbrand reading: every function returns the term
`tag(params…, variables…, [ext], results…)` as a string).
-/
namespace Dds

/-- run-time values: Python constants, or strings built at run time -/
inductive RVal where
  | py (v : PyVal)
  | str (s : String)

def joinWith (sep : String) : List String → String
  | [] => ""
  | [a] => a
  | a :: b :: r => a ++ sep ++ joinWith sep (b :: r)

mutual
/-- Python `repr` on the value universe used in generated programs -/
def pyRepr : PyVal → String
  | .none => "None"
  | .bool true => "True"
  | .bool false => "False"
  | .int i => toString i
  | .str s => "'" ++ s ++ "'"
  | .list xs => "[" ++ joinWith ", " (pyReprL xs) ++ "]"
  | .tuple [x] => "(" ++ pyRepr x ++ ",)"
  | .tuple xs => "(" ++ joinWith ", " (pyReprL xs) ++ ")"
  | .dict kvs => "{" ++ joinWith ", " (pyReprKV kvs) ++ "}"
  | .odict _ => "<odict>"
  | .dc _ => "<dataclass>"
  | .float _ => "<float>"
  | .temporal r => r
  | .ppath s => "PurePosixPath('" ++ s ++ "')"
  | .cpath r => r
  | .unsupported t => "<" ++ t ++ ">"
def pyReprL : List PyVal → List String
  | [] => []
  | x :: xs => pyRepr x :: pyReprL xs
def pyReprKV : List (PyVal × PyVal) → List String
  | [] => []
  | (k, v) :: kvs => (pyRepr k ++ ": " ++ pyRepr v) :: pyReprKV kvs
end

/-- `ddsverif_rt.show` -/
def showVal : RVal → String
  | .str s => s
  | .py (.str s) => s
  | .py v => pyRepr v

def termStr (tag : String) (parts : List RVal) : String :=
  tag ++ "(" ++ joinWith "," (parts.map showVal) ++ ")"

structure PStore where
  blobs : List (Sg × RVal) := []
  paths : List (String × Sg) := []
  /-- `NoOpStore`: never stores a blob or a path -/
  noop : Bool := false

def sgGet {α} (l : List (Sg × α)) (k : Sg) : Option α :=
  match l with
  | [] => none
  | (k', v) :: l => if k' = k then some v else sgGet l k

def PStore.hasBlob (S : PStore) (k : Sg) : Bool := (sgGet S.blobs k).isSome
def PStore.storeBlob (S : PStore) (k : Sg) (v : RVal) : PStore :=
  if S.noop then S else { S with blobs := (k, v) :: S.blobs.filter (fun kv => kv.1 ≠ k) }
def PStore.sync (S : PStore) (ps : List (String × Sg)) : PStore :=
  if S.noop then S else { S with paths := ps.foldl (fun acc pk => aset acc pk.1 pk.2) S.paths }

inductive XErr where
  | exc (kind token : String)      -- a user exception: kind and the token it carries
  | dds (e : DdsErr)

structure XSt where
  store : PStore
  log : List String := []

abbrev Env := List (String × RVal)

/-- bind the parameters of `g` at run time: positional, keyword, default -/
def bindRun (ps : List Param) (pos : List RVal) (kw : List (String × RVal)) : Nat → Option Env
  | idx =>
    match ps with
    | [] => some []
    | p :: rest =>
      let v : Option RVal := match pos[idx]? with
        | some v => some v
        | none => match lookupKw p.name kw with
          | some v => some v
          | none => p.default.map RVal.py
      match v, bindRun rest pos kw (idx + 1) with
      | some v, some env => some ((p.name, v) :: env)
      | _, _ => none

def rtValue (results : List RVal) (env : Env) (e : RtExpr) : RVal :=
  let rs := e.rs.filterMap (fun i => results[i]?)
  let ps := e.ps.filterMap (fun n => lookupKw n env)
  .str ("rt(" ++ joinWith "," ((rs ++ ps ++ e.lits.map RVal.str).map showVal) ++ ")")

def argValue (results : List RVal) (env : Env) : AstArg → Option RtExpr → RVal
  | .const v, _ => .py v
  | .other, some e => rtValue results env e
  | .other, none => .py .none

def zipArgs (results : List RVal) (env : Env) : List AstArg → List (Option RtExpr) → List RVal
  | a :: as, r :: rs => argValue results env a r :: zipArgs results env as rs
  | a :: as, [] => argValue results env a none :: zipArgs results env as []
  | [], _ => []

def zipKw (results : List RVal) (env : Env) : List (String × AstArg) → List (String × Option RtExpr) → List (String × RVal)
  | (n, a) :: as, (_, r) :: rs => (n, argValue results env a r) :: zipKw results env as rs
  | (n, a) :: as, [] => (n, argValue results env a none) :: zipKw results env as []
  | [], _ => []

abbrev XRes := Except XErr RVal × XSt
abbrev RunRec := XSt → Fn → Env → XRes

/-- the value of a function body once its items have produced `results` -/
def bodyValue (W : World) (fn : Fn) (env : Env) (results : List RVal) : RVal :=
  let ps := fn.params.filterMap (fun p => lookupKw p.name env)
  let vs := fn.vars.map (fun nv => RVal.py nv.2)
  let ext := if fn.usesExt then [RVal.str ("ext" ++ toString W.extVersion)] else []
  let ws := match fn.ws with
    | none => []
    | some true => [RVal.str "a"]
    | some false => [RVal.str "b"]
  .str (termStr fn.tag (ps ++ vs ++ ext ++ results ++ ws))

/-- `_eval` inside an evaluation context: `requested : path ↦ key` was fixed by the analysis -/
def keepExec (requested : List (String × Sg)) (rec : RunRec) (st : XSt) (path : String) (g : Fn) (env : Env) : XRes :=
  match aget requested path with
  | none => (.error (.dds .keyError), st)
  | some key =>
    match sgGet st.store.blobs key with
    | some v => (.ok v, st)
    | none =>
      match rec st g env with
      | (.ok v, st') => (.ok v, { st' with store := st'.store.storeBlob key v })
      | (.error e, st') => (.error e, st')

def callExec (requested : List (String × Sg)) (rec : RunRec) (st : XSt) (g : Fn) (env : Env) : XRes :=
  match g.storePath with
  | some p => keepExec requested rec st p g env      -- data function wrapper
  | none => rec st g env

def runItems (W : World) (requested : Option (List (String × Sg))) (rec : RunRec) (fn : Fn) (env : Env) :
    XSt → List RVal → List Item → Except XErr (List RVal) × XSt
  | st, results, [] => (.ok results, st)
  | st, results, it :: its =>
    let r : XRes := match it with
      | .call f _ | .ref f _ =>
        match W.find f with
        | none => (.error (.dds .objectNotFound), st)
        | some g => match bindRun g.params [] [] 0 with
          | none => (.error (.exc "TypeError" f), st)
          | some env' => match requested with
            | some rq => callExec rq rec st g env'
            | none => rec st g env'
      | .callArgs f args kwargs rtA rtK _ =>
        match W.find f with
        | none => (.error (.dds .objectNotFound), st)
        | some g => match bindRun g.params (zipArgs results env args rtA) (zipKw results env kwargs rtK) 0 with
          | none => (.error (.exc "TypeError" f), st)
          | some env' => match requested with
            | some rq => callExec rq rec st g env'
            | none => rec st g env'
      | .keep path f args kwargs rtA rtK _ =>
        match W.find f with
        | none => (.error (.dds .objectNotFound), st)
        | some g => match bindRun g.params (zipArgs results env args rtA) (zipKw results env kwargs rtK) 0 with
          | none => (.error (.exc "TypeError" f), st)
          | some env' => match requested with
            | some rq => keepExec rq rec st path g env'
            | none => rec st g env'
      | .load path _ =>
        match requested with
        | some rq =>
          -- `dds.load`: the key fixed by this evaluation if it keeps the path (since the `fix:` commit for
          -- C09), else the committed path table of the store; then the blob (None when absent)
          match (aget rq path).orElse (fun _ => aget st.store.paths path) with
          | none => (.error (.dds .missingPaths), st)
          | some key => (.ok ((sgGet st.store.blobs key).getD (.py .none)), st)
        | none => (.error (.dds .objectNotFound), st)      -- plain execution handles loads separately
      | .evalCall _ _ => (.error (.dds .evalInEval), st)
    match r with
    | (.ok v, st') => runItems W requested rec fn env st' (results ++ [v]) its
    | (.error e, st') => (.error e, st')

/-- running the body of `fn` under dds (`requested = some _`) -/
def runFn (W : World) (requested : List (String × Sg)) : Nat → RunRec
  | 0, st, _, _ => (.error (.dds .outOfFuel), st)
  | fuel + 1, st, fn, env =>
    let st := { st with log := st.log ++ [fn.name] }
    match runItems W (some requested) (runFn W requested fuel) fn env st [] fn.items with
    | (.error e, st') => (.error e, st')
    | (.ok results, st') =>
      match fn.fails with
      | some kind => (.error (.exc kind fn.name), st')
      | none => (.ok (bodyValue W fn env results), st')

/-! ## One evaluation -/

inductive Stage where
  | analysis | storeInspect | eval | storeCommit | pathCommit
  deriving DecidableEq, Repr

def allStages : List Stage := [.analysis, .storeInspect, .eval, .storeCommit, .pathCommit]

inductive EntryKind where
  | eval | keep (path : String) | direct

structure Request where
  kind : EntryKind
  fn : String
  args : List PyVal := []
  kwargs : List (String × PyVal) := []
  stages : List Stage := allStages
  extraDebug : Bool := true
  exportGraph : Bool := false

structure Outcome where
  value : Except XErr (Option RVal)        -- `none`: the evaluation stopped before the eval stage
  log : List String
  requested : List (String × Sg)            -- the path ↦ signature map fixed by the analysis (when it completed)
  store : PStore

def fetchPaths (S : PStore) : List String → Except DdsErr Refs
  | [] => .ok []
  | p :: ps => match aget S.paths p with
    | none => .error .missingPaths
    | some k => do let r ← fetchPaths S ps; pure ((p, k) :: r)

def entryPathOf (rq : Request) (fn : Fn) : Option String :=
  match rq.kind with
  | .keep p => some p
  | .direct => fn.storePath
  | .eval => none

def badEntryPath (rq : Request) (fn : Fn) : Bool :=
  match entryPathOf rq fn with
  | some p => !pathAbsolute p
  | none => false

/-- the analysis once the loaded-but-not-produced paths have been resolved by the store -/
def analysisWith (m : Nat) (W : World) (rq : Request) (fn : Fn) (named : List (String × Option Sg)) (refs0 : Refs) :
    Except DdsErr (Fn × Env × FIS × List (String × Sg)) :=
  match analyse m W W.fuel refs0 [] fn ⟨named, none⟩ with
  | .error e => .error e
  | .ok (fis, _) =>
    let fis' := match entryPathOf rq fn with
      | some p => fis.withPath p
      | none => fis
    match allStorePaths [] fis' with
    | .error e => .error e
    | .ok paths =>
    if nonTerminalLeaves (paths.map (fun pk => segsOf pk.1)) ≠ [] then .error .overlappingPath else
    match bindRun fn.params (rq.args.map RVal.py) (rq.kwargs.map (fun kv => (kv.1, RVal.py kv.2))) 0 with
    | none => .error .missingArg
    | some env => .ok (fn, env, fis', paths)

/-- the analysis part of `_eval_new_ctx`: everything before the first user function may run -/
def analysisPhase (m : Nat) (W : World) (S : PStore) (rq : Request) : Except DdsErr (Fn × Env × FIS × List (String × Sg)) :=
  match W.find rq.fn with
  | none => .error .objectNotFound
  | some fn =>
    if badEntryPath rq fn then .error .pathNotAbsolute else
    match liftA (getArgCtx m fn.params rq.args rq.kwargs) with
    | .error e => .error e
    | .ok named =>
      match indirectFn W W.fuel [] ({}, []) fn with
      | .error e => .error e
      | .ok (ind, _) =>
        match orderFn W ind.stores W.fuel [] fn with
        | .error e => .error e
        | .ok _ =>
          match fetchPaths S (loadsToCheck ind) with
          | .error e => .error e
          | .ok refs0 => analysisWith m W rq fn named refs0

def evalStep (m : Nat) (W : World) (S : PStore) (rq : Request) : Outcome :=
  match analysisPhase m W S rq with
  | .error e => { value := .error (.dds e), log := [], requested := [], store := S }
  | .ok (fn, env, fis, paths) =>
    if Stage.eval ∉ rq.stages then { value := .ok none, log := [], requested := paths, store := S } else
    let st0 : XSt := { store := S }
    let (res, st) : XRes :=
      match sgGet S.blobs fis.retSig with
      | some v => (.ok v, st0)
      | none =>
        match runFn W paths W.fuel st0 fn env with
        | (.ok v, st) =>
          match fis.storePath with
          | some p => match aget paths p with
            | some key => (.ok v, { st with store := st.store.storeBlob key v })
            | none => (.error (.dds .keyError), st)
          | none => (.ok v, st)
        | (.error e, st) => (.error e, st)
    match res with
    | .error e => { value := .error e, log := st.log, requested := paths, store := st.store }
    | .ok v =>
      let S' := if Stage.pathCommit ∈ rq.stages then st.store.sync paths else st.store
      { value := .ok (some v), log := st.log, requested := paths, store := S' }

/-! ## Plain execution: the same code without dds -/

/-- `ρ`: what `load` returns (the value most recently kept at the path in program order) -/
abbrev LoadEnv := List (String × RVal)

structure PSt where
  kept : LoadEnv
  log : List String := []

abbrev PRes := Except XErr RVal × PSt
abbrev PlainRec := PSt → Fn → Env → PRes

def plainItems (W : World) (rec : PlainRec) (env : Env) :
    PSt → List RVal → List Item → Except XErr (List RVal) × PSt
  | st, results, [] => (.ok results, st)
  | st, results, it :: its =>
    let r : PRes := match it with
      | .call f _ | .ref f _ =>
        match W.find f with
        | none => (.error (.dds .objectNotFound), st)
        | some g => match bindRun g.params [] [] 0 with
          | none => (.error (.exc "TypeError" f), st)
          | some env' =>
            match rec st g env' with
            | (.ok v, st') => (.ok v, match g.storePath with
                | some p => { st' with kept := aset st'.kept p v }
                | none => st')
            | r => r
      | .callArgs f args kwargs rtA rtK _ =>
        match W.find f with
        | none => (.error (.dds .objectNotFound), st)
        | some g => match bindRun g.params (zipArgs results env args rtA) (zipKw results env kwargs rtK) 0 with
          | none => (.error (.exc "TypeError" f), st)
          | some env' =>
            match rec st g env' with
            | (.ok v, st') => (.ok v, match g.storePath with
                | some p => { st' with kept := aset st'.kept p v }
                | none => st')
            | r => r
      | .keep path f args kwargs rtA rtK _ =>
        match W.find f with
        | none => (.error (.dds .objectNotFound), st)
        | some g => match bindRun g.params (zipArgs results env args rtA) (zipKw results env kwargs rtK) 0 with
          | none => (.error (.exc "TypeError" f), st)
          | some env' =>
            match rec st g env' with
            | (.ok v, st') => (.ok v, { st' with kept := aset st'.kept path v })
            | r => r
      | .load path _ =>
        match aget st.kept path with
        | some v => (.ok v, st)
        | none => (.error (.exc "KeyError" path), st)
      | .evalCall f _ =>
        match W.find f with
        | none => (.error (.dds .objectNotFound), st)
        | some g => match bindRun g.params [] [] 0 with
          | none => (.error (.exc "TypeError" f), st)
          | some env' => rec st g env'
    match r with
    | (.ok v, st') => plainItems W rec env st' (results ++ [v]) its
    | (.error e, st') => (.error e, st')

def plainFn (W : World) : Nat → PlainRec
  | 0, st, _, _ => (.error (.dds .outOfFuel), st)
  | fuel + 1, st, fn, env =>
    let st := { st with log := st.log ++ [fn.name] }
    match plainItems W (plainFn W fuel) env st [] fn.items with
    | (.error e, st') => (.error e, st')
    | (.ok results, st') =>
      match fn.fails with
      | some kind => (.error (.exc kind fn.name), st')
      | none => (.ok (bodyValue W fn env results), st')

/-! ## Histories: dds and plain execution side by side

Plain execution of a history keeps, for every path, the value most recently kept there by a *completed* evaluation
(what `dds.load` is expected to return later, in another evaluation). -/

/-- plain execution of one request (entry call), from the values kept so far; the value is kept at the path of the entry
call (the path of a top-level `keep`, or the path of the data function that is called or evaluated) -/
def plainRun (W : World) (kept : LoadEnv) (rq : Request) : PRes :=
  match W.find rq.fn with
  | none => (.error (.dds .objectNotFound), { kept })
  | some fn =>
    match bindRun fn.params (rq.args.map RVal.py) (rq.kwargs.map (fun kv => (kv.1, RVal.py kv.2))) 0 with
    | none => (.error (.exc "TypeError" rq.fn), { kept })
    | some env =>
      match plainFn W W.fuel { kept } fn env with
      | (.ok v, st) =>
        (.ok v, match (match entryPathOf rq fn with | some p => some p | none => fn.storePath) with
          | some p => { st with kept := aset st.kept p v }
          | none => st)
      | r => r

/-- the state of a history: the store, and what plain execution has kept at every path -/
structure HState where
  store : PStore := {}
  kept : LoadEnv := []

/-- the paths kept by plain execution are taken over when the evaluation under dds completed (returned and committed) -/
def histStep (m : Nat) (h : HState) (W : World) (rq : Request) : HState :=
  let o := evalStep m W h.store rq
  let pr := plainRun W h.kept rq
  let completed := match o.value with | .ok (some _) => rq.stages.contains Stage.pathCommit | _ => false
  let kept' := match pr.1 with | .ok _ => (if completed then pr.2.kept else h.kept) | .error _ => h.kept
  { store := o.store, kept := kept' }

end Dds
