import DdsModel.Introspect
/-!
# The dependency graph of an evaluation (specification for `dds/_plotting.py`)

`graphOf` is the graph the property describes, computed from the interaction tree:
nodes are the kept paths (plus the paths loaded by kept functions); a solid edge `u → v` when the
function kept at `v` reaches the keep of `u` without crossing another kept function; a dashed edge when
it loads `u`. `_plotting._structure` is compared with it (the dotted call-order edges are only
constrained, not predicted).
-/
namespace Dds

structure Graph where
  nodes : List String := []
  solid : List (String × String) := []
  dashed : List (String × String) := []

def addNew {α} [DecidableEq α] (l : List α) (a : α) : List α := if a ∈ l then l else l ++ [a]
def addAll {α} [DecidableEq α] (l : List α) (as : List α) : List α := as.foldl addNew l

mutual
/-- the kept nodes visible from a call without crossing a kept function -/
def heads : FIS → List String
  | .mk _ _ (some p) _ _ => [p]
  | .mk _ _ none subs _ => headsL subs
def headsL : List FIS → List String
  | [] => []
  | f :: fs => addAll (heads f) (headsL fs)
end

mutual
def graphAcc (g : Graph) : FIS → Graph
  | .mk _ _ sp subs loads =>
    let g1 := graphAccL g subs
    match sp with
    | none => g1
    | some v =>
      let hs := headsL subs
      { nodes := addAll (addNew g1.nodes v) (loads.map Prod.fst),
        solid := addAll g1.solid (hs.map (fun u => (u, v))),
        dashed := addAll g1.dashed (loads.map (fun u => (u.1, v))) }
def graphAccL (g : Graph) : List FIS → Graph
  | [] => g
  | f :: fs => graphAccL (graphAcc g f) fs
end

def graphOf (fis : FIS) : Graph := graphAcc {} fis

mutual
/-- height of the interaction tree below a call -/
def FIS.height : FIS → Nat
  | .mk _ _ _ subs _ => FIS.heightL subs + 1
def FIS.heightL : List FIS → Nat
  | [] => 0
  | f :: fs => max f.height (FIS.heightL fs)
end

end Dds
