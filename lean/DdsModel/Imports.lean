/-!
# Names bound by import statements inside a function body (`dds/introspect.py`: `_ScopeImportsVisitor`,
`_BodyImportsResolver`, `_resolve_body_imports`, then the visitors of `_ScopedVisitor`)

A name that an import statement binds inside a function (`from pkg import conf`, `from pkg.conf import fun`,
`import pkg.conf as conf`) is not a name of the module of the function. The analysis runs in two passes:

* `resS`: the resolver replaces every read of such a name by the full path of the object it denotes, for imports from
  accepted packages only. As Python does, it takes the bindings of a scope from *all* the import statements of the scope
  (wherever they stand in it), hides them in the nested scopes that bind the same name (parameters, assigned names, names
  declared global, their own imports), and evaluates the header of a nested function (default values, decorators) and
  the first iterable of a comprehension in the enclosing scope;
* `extS`: the visitors then look names up as in `DdsModel/Scope.lean`; a path is one name holding the full dotted name of
  the object: no name of the function can hide it, and it is looked up from the root.

`pyRefs` is Python's own resolution: the chain of enclosing scopes, each with its variables, its `global` declarations and
its import bindings. `DdsProofs/Imports.lean` proves `ddsRefs = pyRefs`, occurrence by occurrence, for every body whose
imports are from accepted packages, and that a scope which binds one name to two objects is refused. The fragment: names, attributes, calls / operators, lambdas,
comprehensions; expression statements, assignments, imports, `global`, nested functions, sequencing.
-/
namespace Dds.Imports

abbrev Path := List String

inductive Expr where
  | name (x : String)
  | const
  /-- produced by the resolver only: the full path of an imported object, looked up from the root -/
  | path (p : Path)
  | attr (e : Expr) (a : String)
  | app (f a : Expr)
  | lam (params : List String) (body : Expr)
  | comp (targets : List String) (iter inner : Expr)
  deriving Repr

inductive Stmt where
  | expr (e : Expr)
  | assign (targets : List String) (e : Expr)
  /-- one binding of an import statement: `import p as x`, `from p' import y as x` (`p = p' ++ [y]`) -/
  | imp (x : String) (p : Path)
  | global (xs : List String)
  | defn (fname : String) (params : List String) (header : Expr) (body : Stmt)
  | seq (a b : Stmt)
  | skip
  deriving Repr

/-- `_BoundNamesVisitor.bound` (import statements are not seen by it) -/
def boundS : Stmt → List String
  | .assign ts _ => ts
  | .defn n _ _ _ => [n]
  | .seq a b => boundS a ++ boundS b
  | _ => []

def globalsS : Stmt → List String
  | .global xs => xs
  | .seq a b => globalsS a ++ globalsS b
  | _ => []

/-- `_ScopeImportsVisitor.bindings`: the import bindings of one scope, not of the scopes nested in it -/
def impsS : Stmt → List (String × Path)
  | .imp x p => [(x, p)]
  | .seq a b => impsS a ++ impsS b
  | _ => []

abbrev Aliases := List (String × Path)

/-- `visit_in_scope`: the aliases inside a scope that binds `own` and holds the import bindings `imps` -/
def enterA (acc : Path → Bool) (A : Aliases) (own : List String) (imps : List (String × Path)) : Aliases :=
  imps.filter (fun kv => acc kv.2) ++ A.filter (fun kv => kv.1 ∉ own ∧ kv.1 ∉ imps.map Prod.fst)

/-- `_BodyImportsResolver`: the names bound by imports replaced by the path of what they denote -/
def resE (acc : Path → Bool) (A : Aliases) : Expr → Expr
  | .name x => match A.lookup x with
    | some p => .path p
    | none => .name x
  | .const => .const
  | .path p => .path p
  | .attr e a => .attr (resE acc A e) a
  | .app f a => .app (resE acc A f) (resE acc A a)
  | .lam ps body => .lam ps (resE acc (enterA acc A ps []) body)
  | .comp ts it inn => .comp ts (resE acc A it) (resE acc (enterA acc A ts []) inn)

def resS (acc : Path → Bool) (A : Aliases) : Stmt → Stmt
  | .expr e => .expr (resE acc A e)
  | .assign ts e => .assign ts (resE acc A e)
  | .imp x p => .imp x p
  | .global xs => .global xs
  | .defn n ps hdr body =>
      .defn n ps (resE acc A hdr) (resS acc (enterA acc A (ps ++ boundS body ++ globalsS body) (impsS body)) body)
  | .seq a b => .seq (resS acc A a) (resS acc A b)
  | .skip => .skip

/-- what a name occurrence leads the analysis to: a name looked up in the module of the function, or an object looked
up from the root by its full path -/
inductive Ref where
  | glob (x : String)
  | path (p : Path)
  deriving Repr, DecidableEq

/-- `_ScopedVisitor._visit_in_scope` -/
def enter (L params bound globs : List String) : List String :=
  L.filter (fun x => x ∉ globs) ++ (params ++ bound).filter (fun x => x ∉ globs)

/-- the second pass (the visitors of the analysis): a path is one name holding the full dotted name of the object, which
no local name can be (it is looked up from the root) -/
def extE (L : List String) : Expr → List Ref
  | .name x => if x ∈ L then [] else [.glob x]
  | .const => []
  | .path p => [.path p]
  | .attr e _ => extE L e
  | .app f a => extE L f ++ extE L a
  | .lam ps body => extE (enter L ps [] []) body
  | .comp ts it inn => extE L it ++ extE (enter L [] ts []) inn

def extS (L : List String) : Stmt → List Ref
  | .expr e => extE L e
  | .assign _ e => extE L e
  | .imp _ _ => []
  | .global _ => []
  | .defn _ ps hdr body => extE L hdr ++ extS (enter L ps (boundS body) (globalsS body)) body
  | .seq a b => extS L a ++ extS L b
  | .skip => []

/-- the analysis of a function: imports resolved, then the names looked up -/
def ddsRefs (acc : Path → Bool) (params : List String) (body : Stmt) : List Ref :=
  extS (enter [] params (boundS body) (globalsS body))
    (resS acc (enterA acc [] (globalsS body) (impsS body)) body)

/-! ## Python's own resolution -/

structure Sc where
  vars : List String
  globs : List String
  imps : List (String × Path)

inductive Res where
  | loc
  | glob
  | path (p : Path)
  deriving Repr, DecidableEq

def resolve : List Sc → String → Res
  | [], _ => .glob
  | s :: rest, x =>
    match s.imps.lookup x with
    | some p => .path p
    | none => if x ∈ s.globs then .glob else if x ∈ s.vars then .loc else resolve rest x

def pyE (chain : List Sc) : Expr → List Ref
  | .name x => match resolve chain x with
    | .loc => []
    | .glob => [.glob x]
    | .path p => [.path p]
  | .const => []
  | .path p => [.path p]
  | .attr e _ => pyE chain e
  | .app f a => pyE chain f ++ pyE chain a
  | .lam ps body => pyE (⟨ps, [], []⟩ :: chain) body
  | .comp ts it inn => pyE chain it ++ pyE (⟨ts, [], []⟩ :: chain) inn

def pyS (chain : List Sc) : Stmt → List Ref
  | .expr e => pyE chain e
  | .assign _ e => pyE chain e
  | .imp _ _ => []
  | .global _ => []
  | .defn _ ps hdr body => pyE chain hdr ++ pyS (⟨ps ++ boundS body, globalsS body, impsS body⟩ :: chain) body
  | .seq a b => pyS chain a ++ pyS chain b
  | .skip => []

def pyRefs (params : List String) (body : Stmt) : List Ref :=
  pyS [⟨params ++ boundS body, globalsS body, impsS body⟩] body


/-! ## The hypotheses of the theorem, as executable checks -/

/-- every import binding is to an object of an accepted package (the other imports do not take part in the analysis) -/
def impsOK (acc : Path → Bool) (imps : List (String × Path)) : Bool := imps.all (fun kv => acc kv.2)

/-- a source expression: no path yet -/
def exprOK : Expr → Bool
  | .name _ => true
  | .const => true
  | .path _ => false
  | .attr e _ => exprOK e
  | .app f a => exprOK f && exprOK a
  | .lam _ body => exprOK body
  | .comp _ it inn => exprOK it && exprOK inn

def stmtOK (acc : Path → Bool) : Stmt → Bool
  | .expr e => exprOK e
  | .assign _ e => exprOK e
  | .imp _ _ => true
  | .global _ => true
  | .defn _ _ hdr body => exprOK hdr && impsOK acc (impsS body) && stmtOK acc body
  | .seq a b => stmtOK acc a && stmtOK acc b
  | .skip => true

def scOK (acc : Path → Bool) (s : Sc) : Bool := impsOK acc s.imps

/-! ## A name bound to two objects -/

/-- `_ScopeImportsVisitor.accepted` raises: a name of the scope has several bindings, one of them accepted -/
def ambImps (acc : Path → Bool) (imps : List (String × Path)) : Bool :=
  imps.any (fun kv => imps.any (fun kv' => kv.1 == kv'.1 && kv.2 != kv'.2 && (acc kv.2 || acc kv'.2)))

def ambS (acc : Path → Bool) : Stmt → Bool
  | .defn _ _ _ body => ambImps acc (impsS body) || ambS acc body
  | .seq a b => ambS acc a || ambS acc b
  | _ => false

/-- the analysis of a function: refused (`none`) when a scope binds a name to two objects -/
def analyse (acc : Path → Bool) (params : List String) (body : Stmt) : Option (List Ref) :=
  if ambImps acc (impsS body) || ambS acc body then none else some (ddsRefs acc params body)

/-! ## Before the repairs -/

/-- the path as a chain of attributes starting at the root package (the repairs before e955d15): the root is a name like any
other for the visitors, a local variable of that name hides the whole path -/
def chainE (L : List String) : Expr → List Ref
  | .name x => if x ∈ L then [] else [.glob x]
  | .const => []
  | .path p => if (match p with | [] => false | h :: _ => decide (h ∈ L)) then [] else [.path p]
  | .attr e _ => chainE L e
  | .app f a => chainE L f ++ chainE L a
  | .lam ps body => chainE (enter L ps [] []) body
  | .comp ts it inn => chainE L it ++ chainE (enter L [] ts []) inn

def chainS (L : List String) : Stmt → List Ref
  | .expr e => chainE L e
  | .assign _ e => chainE L e
  | .imp _ _ => []
  | .global _ => []
  | .defn _ ps hdr body => chainE L hdr ++ chainS (enter L ps (boundS body) (globalsS body)) body
  | .seq a b => chainS L a ++ chainS L b
  | .skip => []

def chainRefs (acc : Path → Bool) (params : List String) (body : Stmt) : List Ref :=
  chainS (enter [] params (boundS body) (globalsS body))
    (resS acc (enterA acc [] (globalsS body) (impsS body)) body)

/-- no resolution at all (the pinned tree): an imported name is looked up in the module of the function -/
def unresolvedRefs (params : List String) (body : Stmt) : List Ref :=
  extS (enter [] params (boundS body) (globalsS body)) body

/-- resolution in the order of the text, the bindings never leaving the function (the first repair) -/
def textE (A : Aliases) : Expr → Expr
  | .name x => match A.lookup x with
    | some p => .path p
    | none => .name x
  | .const => .const
  | .path p => .path p
  | .attr e a => .attr (textE A e) a
  | .app f a => .app (textE A f) (textE A a)
  | .lam ps body => .lam ps (textE A body)
  | .comp ts it inn => .comp ts (textE A it) (textE A inn)

def textS (acc : Path → Bool) (A : Aliases) : Stmt → Stmt × Aliases
  | .expr e => (.expr (textE A e), A)
  | .assign ts e => (.assign ts (textE A e), A)
  | .imp x p => (.imp x p, if acc p then (x, p) :: A else A.filter (fun kv => kv.1 != x))
  | .global xs => (.global xs, A)
  | .defn n ps hdr body => let r := textS acc A body; (.defn n ps (textE A hdr) r.1, r.2)
  | .seq a b => let ra := textS acc A a; let rb := textS acc ra.2 b; (.seq ra.1 rb.1, rb.2)
  | .skip => (.skip, A)

def textRefs (acc : Path → Bool) (params : List String) (body : Stmt) : List Ref :=
  extS (enter [] params (boundS body) (globalsS body)) (textS acc [] body).1

end Dds.Imports
