import DdsModel.Program
import DdsModel.StoreSpec
/-!
# The two analysis passes (`dds/_introspect_indirect.py`, `dds/introspect.py`)

`analyse` follows `_introspect_fun` / `InspectFunction.inspect_fun` / `IntroVisitor` /
`InspectFunction.inspect_call` / `_build_return_sig`. Recursion over the call tree uses `fuel`
(one unit per nesting level; `World.fuel` is enough for every acyclic world and every cyclic one is
rejected before it runs out).
-/
namespace Dds

/-- what the analysis keeps of a function call (`FunctionInteractions`) -/
inductive FIS where
  /-- `loads`: the paths loaded by the body (`indirect_deps`), each with the signature it resolved to (the signature is
  not a field of the code's `FunctionInteractions`: it is what `_build_return_sig` looked up for the `dep_` entries) -/
  | mk (name : String) (retSig : Sg) (storePath : Option String) (subs : List FIS) (loads : List (String × Sg))

def FIS.name : FIS → String | .mk n _ _ _ _ => n
def FIS.retSig : FIS → Sg | .mk _ s _ _ _ => s
def FIS.storePath : FIS → Option String | .mk _ _ p _ _ => p
def FIS.subs : FIS → List FIS | .mk _ _ _ s _ => s
def FIS.loads : FIS → List (String × Sg) | .mk _ _ _ _ l => l
def FIS.withPath (f : FIS) (p : String) : FIS := .mk f.name f.retSig (some p) f.subs f.loads

abbrev Refs := List (String × Sg)

def liftH {α} : Except HashErr α → Except DdsErr α
  | .ok a => .ok a
  | .error e => .error (ofHashErr e)
def liftA {α} : Except ArgErr α → Except DdsErr α
  | .ok a => .ok a
  | .error e => .error (ofArgErr e)
def liftS {α} : Except SigErr α → Except DdsErr α
  | .ok a => .ok a
  | .error _ => .error .assertion

def hashVars (m : Nat) : List (String × PyVal) → Except DdsErr (List (String × Sg))
  | [] => .ok []
  | (n, v) :: vs => do
    let h ← liftH (ddsHash m v)
    let r ← hashVars m vs
    pure ((n, h) :: r)

def hashLines (m : Nat) (ls : List String) : Except DdsErr Sg := liftH (ddsHash m (.list (ls.map .str)))

def dedupStr : List String → List String
  | [] => []
  | s :: ss => s :: (dedupStr ss).filter (· ≠ s)

def lookupRefs (refs : Refs) : List String → Except DdsErr (List (String × Sg))
  | [] => .ok []
  | p :: ps => match aget refs p with
    | none => .error .assertion        -- "Missing dep"
    | some s => do let r ← lookupRefs refs ps; pure ((p, s) :: r)

/-- the state threaded through the items of one function body -/
structure VisitSt where
  inters : List FIS := []
  loads : List String := []
  seen : List String := []
  refs : Refs

abbrev Analyse := Refs → List String → Fn → ArgCtx → Except DdsErr (FIS × Refs)

/-- the resolved signatures of the paths loaded so far in the body (those that resolve) -/
def loadsSigList (refs : Refs) : List String → List (String × Sg)
  | [] => []
  | p :: ps => match aget refs p with
    | some s => ("dep_" ++ p, s) :: loadsSigList refs ps
    | none => loadsSigList refs ps

/-- the context signature of a call site: the caller's text up to the end of the call, the caller's inputs,
the calls met so far and (since the `fix:` commit for load-derived arguments) the paths loaded so far -/
def siteCtx (m : Nat) (fn : Fn) (inputSig : Sg) (inters : List FIS) (line : Nat)
    (refs : Refs := []) (loads : List String := []) : Except DdsErr (Option Sg) := do
  let bodyHash ← hashLines m (fn.lines.take (line + 1))
  pure (contextSig bodyHash inputSig
    (hashCommut (fisSigList (inters.map FIS.retSig) ++ loadsSigList refs (dedupStr loads))))

/-- `IntroVisitor.visit_Call` / `visit_Name` + `InspectFunction.inspect_call`, one item -/
def visitItem (m : Nat) (W : World) (rec : Analyse) (fn : Fn) (inputSig : Sg) (stack : List String)
    (st : VisitSt) : Item → Except DdsErr VisitSt
  | .call f line => plain st f [] [] line
  | .callArgs f args kwargs _ _ line => plain st f args kwargs line
  -- a function named (not called) is analysed as a call without arguments, once per body; since the `fix:`
  -- commit for references after a call, an earlier *call* or *keep* of the same function does not count
  | .ref f line => if f ∈ st.seen then .ok st else do
      let st' ← plain st f [] [] line
      pure { st' with seen := f :: st'.seen }
  | .keep path f args kwargs _ _ line => do
    let ctx ← siteCtx m fn inputSig st.inters line st.refs st.loads
    if !pathAbsolute path then .error .pathNotAbsolute else
    match W.find f with
    | none => .error .objectNotFound
    | some g =>
      if f ∈ stack then .error .circularCall else do
      let named ← liftA (getArgCtxAst m g.params args kwargs)
      let (fis, refs) ← rec st.refs (stack ++ [f]) g ⟨named, ctx⟩
      -- (since the `fix:` commit for C09) the kept path is registered for the loads that follow
      pure { st with inters := st.inters ++ [fis.withPath path], refs := aset refs path fis.retSig }
  | .load path _ =>
    if !pathAbsolute path then .error .pathNotAbsolute else
    .ok { st with loads := st.loads ++ [path] }
  | .evalCall _ _ => .error .evalInEval
where
  plain (st : VisitSt) (f : String) (args : List AstArg) (kwargs : List (String × AstArg)) (line : Nat) : Except DdsErr VisitSt := do
    let ctx ← siteCtx m fn inputSig st.inters line st.refs st.loads
    match W.find f with
    | none => .error .objectNotFound
    | some g =>
      if f ∈ stack then .error .circularCall else do
      let named ← liftA (getArgCtxAst m g.params args kwargs)
      let (fis, refs) ← rec st.refs (stack ++ [f]) g ⟨named, ctx⟩
      pure { st with inters := st.inters ++ [fis], refs := refs }

def visitItems (m : Nat) (W : World) (rec : Analyse) (fn : Fn) (inputSig : Sg) (stack : List String) :
    VisitSt → List Item → Except DdsErr VisitSt
  | st, [] => .ok st
  | st, it :: its => do
    let st' ← visitItem m W rec fn inputSig stack st it
    visitItems m W rec fn inputSig stack st' its

/-- `_introspect_fun` + `inspect_fun` -/
def analyse (m : Nat) (W : World) : Nat → Analyse
  | 0, _, _, _, _ => .error .outOfFuel
  | fuel + 1, refs, stack, fn, argCtx => do
    let extVars ← hashVars m fn.vars
    let inputO ← liftS (buildReturnSig none argCtx [] [] fn.exts extVars)
    let inputSig := inputO.getD (hJoin [])
    let st ← visitItems m W (analyse m W fuel) fn inputSig stack { refs := refs } fn.items
    let bodySig ← hashLines m fn.lines
    let loads := dedupStr st.loads
    let deps ← lookupRefs st.refs loads
    let retO ← liftS (buildReturnSig (some bodySig) argCtx deps (st.inters.map FIS.retSig) fn.exts extVars)
    match retO with
    | none => .error .assertion
    | some ret =>
      let fis := FIS.mk fn.name ret fn.storePath st.inters deps
      let refs' := match fn.storePath with
        | some p => aset st.refs p ret
        | none => st.refs
      pure (fis, refs')

def World.fuel (W : World) : Nat := W.funs.length + 2

/-- adding a kept path to the evaluation's path map (`all_store_paths`). Since the `fix:` commit for paths kept
twice: a path that already has a *different* signature is an error; the same signature is fine. -/
def odSet (l : List (String × Sg)) (k : String) (v : Sg) : Except DdsErr (List (String × Sg)) :=
  match aget l k with
  | some v' => if v' = v then .ok l else .error .overlappingPath
  | none => .ok (l ++ [(k, v)])

mutual
/-- `FunctionInteractionsUtils.all_store_paths` -/
def allStorePaths (acc : List (String × Sg)) : FIS → Except DdsErr (List (String × Sg))
  | .mk _ s p subs _ =>
    match (match p with | some path => odSet acc path s | none => .ok acc) with
    | .error e => .error e
    | .ok acc' => allStorePathsL acc' subs
def allStorePathsL (acc : List (String × Sg)) : List FIS → Except DdsErr (List (String × Sg))
  | [] => .ok acc
  | f :: fs =>
    match allStorePaths acc f with
    | .error e => .error e
    | .ok acc' => allStorePathsL acc' fs
end

/-! ## The indirect pre-pass: which paths are loaded / produced by the evaluation -/

structure Indirect where
  loads : List String := []
  stores : List String := []

abbrev IndSt := Indirect × List String     -- collected paths, functions already walked (the per-evaluation cache)
abbrev IndRec := List String → IndSt → Fn → Except DdsErr IndSt

def indirectItems (W : World) (rec : IndRec) (stack : List String) :
    IndSt → List String → List Item → Except DdsErr IndSt
  | st, _, [] => .ok st
  | st, seen, it :: its =>
    match it with
    | .call f _ | .callArgs f _ _ _ _ _ => do
      let st' ← sub st f
      indirectItems W rec stack st' (f :: seen) its
    | .ref f _ =>
      if f ∈ seen then indirectItems W rec stack st seen its else do
      let st' ← sub st f
      indirectItems W rec stack st' (f :: seen) its
    | .keep path f _ _ _ _ _ =>
      if !pathAbsolute path then .error .pathNotAbsolute else do
      let st' ← sub st f
      indirectItems W rec stack ({ st'.1 with stores := st'.1.stores ++ [path] }, st'.2) (f :: seen) its
    | .load path _ =>
      if !pathAbsolute path then .error .pathNotAbsolute else
      indirectItems W rec stack ({ st.1 with loads := st.1.loads ++ [path] }, st.2) seen its
    | .evalCall _ _ => .error .evalInEval
where
  sub (st : IndSt) (f : String) : Except DdsErr IndSt :=
    match W.find f with
    | none => .error .objectNotFound
    | some g => if f ∈ stack then .error .circularCall else rec (stack ++ [f]) st g

/-- `_introspect_indirect` followed by `all_loads` / `all_stores` (as written since the `fix:` commit for
C09: the whole tree is walked). A function is walked once per evaluation (`cached_indirect_interactions`). -/
def indirectFn (W : World) : Nat → IndRec
  | 0, _, _, _ => .error .outOfFuel
  | fuel + 1, stack, st, fn =>
    if fn.name ∈ st.2 then .ok st else do
    let acc0 : Indirect := match fn.storePath with
      | some p => { st.1 with stores := st.1.stores ++ [p] }
      | none => st.1
    let st' ← indirectItems W (indirectFn W fuel) stack (acc0, st.2) [fn.name] fn.items
    pure (st'.1, fn.name :: st'.2)

/-! ### Load order (since the `fix:` commit for C09): a path produced by the evaluation may only be loaded
after the call that produces it has returned, in program order -/

abbrev OrdRec := List String → Fn → Except DdsErr (List String)

def orderItems (W : World) (stores : List String) (rec : OrdRec) : List String → List Item → Except DdsErr (List String)
  | produced, [] => .ok produced
  | produced, it :: its =>
    match it with
    | .call f _ | .ref f _ | .callArgs f _ _ _ _ _ =>
      match W.find f with
      | none => .error .objectNotFound
      | some g => do
        let p ← rec produced g
        orderItems W stores rec p its
    | .keep path f _ _ _ _ _ =>
      match W.find f with
      | none => .error .objectNotFound
      | some g => do
        let p ← rec produced g
        orderItems W stores rec (path :: p) its
    | .load path _ =>
      if stores.contains path && !(produced.contains path) then .error .loadBeforeProduce
      else orderItems W stores rec produced its
    | .evalCall _ _ => .error .evalInEval

def orderFn (W : World) (stores : List String) : Nat → OrdRec
  | 0, _, _ => .error .outOfFuel
  | fuel + 1, produced, fn => do
    let p ← orderItems W stores (orderFn W stores fuel) produced fn.items
    pure (match fn.storePath with | some sp => sp :: p | none => p)

/-- the paths that must be resolved by the store before the analysis: loaded, and not produced here -/
def loadsToCheck (ind : Indirect) : List String :=
  sortDedup (ind.loads.filter (fun p => !(ind.stores.contains p)))

end Dds
