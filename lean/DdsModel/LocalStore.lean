import DdsModel.StoreSpec
import DdsModel.Paths
/-!
# `LocalFileStore` at request granularity (`dds/store.py`)

The disk is abstracted to what the store itself creates: blob files and metadata files under
`<internal>/blobs`, and symbolic links under the data directory. A *location* is a list of path
components below the data directory. Request-level (atomic) semantics; the operation-level semantics
(for crashes and interleavings) is in `Crash.lean` / `Conc.lean`.

As written since the `fix:` commit for C08: the location of a DDS path is made of **all** its non-empty
segments, `.` and `..` are rejected, and links are tested with `lexists`.
-/
namespace Dds

abbrev Loc := List String

inductive LocErr where
  | notSupported      -- DDSException STORE_PATH_NOT_SUPPORTED
  deriving DecidableEq, Repr

/-- location of a DDS path below the data directory -/
def localLoc (p : DPath) : Except LocErr Loc :=
  let ss := pathSegs p
  if ss.isEmpty || ss.any (fun s => s = "." || s = "..") then .error .notSupported else .ok ss

/-- bytes written for a blob value and the protocol reference recorded in the metadata
(`none` ↦ pickle of `None`, `some n` ↦ an opaque object; only injectivity matters) -/
def encVal : Val → List UInt8 × String
  | none => ([0], "local.pickle")
  | some n => (1 :: List.replicate n 2, "local.pickle")

def decVal (bytes : List UInt8) (_ref : String) : Val :=
  match bytes with
  | 1 :: rest => some rest.length
  | _ => none

structure LocalSt where
  blobs : List (Key × List UInt8) := []     -- <internal>/blobs/<key>
  metas : List (Key × String) := []          -- <internal>/blobs/<key>.meta  (protocol reference)
  links : List (Loc × Key) := []             -- <data>/<loc> -> <internal>/blobs/<key>

def lget {α} (l : List (Loc × α)) (k : Loc) : Option α :=
  match l with
  | [] => none
  | (k', v) :: l => if k' = k then some v else lget l k

def lset {α} (l : List (Loc × α)) (k : Loc) (v : α) : List (Loc × α) :=
  (k, v) :: l.filter (fun kv => kv.1 ≠ k)

/-- `sync_paths`: the paths are processed in order; an unsupported path raises, leaving the links made so far -/
def LocalSt.syncAll (s : LocalSt) : List (DPath × Key) → LocalSt × Bool
  | [] => (s, true)
  | (p, k) :: ps =>
    match localLoc p with
    | .error _ => (s, false)
    | .ok l => ({ s with links := lset s.links l k } : LocalSt).syncAll ps

def LocalSt.resolveAll (s : LocalSt) : List DPath → List DPath → Option (List (DPath × Key))
  | [], _ => some []
  | p :: ps, seen =>
    match localLoc p with
    | .error _ => none
    | .ok l =>
      match lget s.links l with
      | none => none
      | some k =>
        match s.resolveAll ps (p :: seen) with
        | none => none
        | some r => some (if p ∈ seen then r else (p, k) :: r)

/-- request-level step. `err` stands for a DDSException. -/
def LocalSt.step (s : LocalSt) : StoreOp → LocalSt × Out
  | .store k v =>
    let (bytes, ref) := encVal v
    ({ s with blobs := aset s.blobs k bytes, metas := aset s.metas k ref }, .unit)
  | .has k => (s, .bool (aget s.blobs k).isSome)
  | .fetch k =>
    match aget s.blobs k, aget s.metas k with
    | some b, some r => (s, .val (decVal b r))
    | _, _ => (s, .val none)
  | .sync ps =>
    match s.syncAll ps with
    | (s', true) => (s', .unit)
    | (s', false) => (s', .err)
  | .fetchPaths ps =>
    match s.resolveAll ps [] with
    | some r => (s, .paths r)
    | none => (s, .err)

end Dds
