import DdsModel.StoreSpec
/-!
# The in-memory object cache (`dds/_lru_store.py`: `LRUCache`, `LRUCacheStore`)

Generic over the wrapped store (`σ`, `istep`). The cache is a list, least recently used first.
As written since the `fix:` commit for C12: an absent key is not cached by `fetch_blob`, and
`store_blob` drops the key from the cache.
-/
namespace Dds

abbrev Cache := List (Key × Val)

/-- `LRUCache.get`: on a hit the entry moves to the most-recent end -/
def cacheGet (c : Cache) (k : Key) : Option (Val × Cache) :=
  match aget c k with
  | none => none
  | some v => some (v, c.filter (fun kv => kv.1 ≠ k) ++ [(k, v)])

/-- `LRUCache.put`: insert/refresh as most recent, then evict the oldest entries beyond the capacity -/
def cachePut (cap : Nat) (c : Cache) (k : Key) (v : Val) : Cache :=
  let c' := c.filter (fun kv => kv.1 ≠ k) ++ [(k, v)]
  c'.drop (c'.length - cap)

def cacheDrop (c : Cache) (k : Key) : Cache := c.filter (fun kv => kv.1 ≠ k)

structure Lru (σ : Type) where
  cache : Cache
  inner : σ

def Lru.step {σ} (cap : Nat) (istep : σ → StoreOp → σ × Out) (s : Lru σ) : StoreOp → Lru σ × Out
  | .has k =>
    match cacheGet s.cache k with
    | some (_, c') => ({ s with cache := c' }, .bool true)
    | none => let (i', o) := istep s.inner (.has k); ({ s with inner := i' }, o)
  | .fetch k =>
    match cacheGet s.cache k with
    | some (v, c') => ({ s with cache := c' }, .val v)
    | none =>
      let (i', o) := istep s.inner (.fetch k)
      match o with
      | .val (some n) => ({ cache := cachePut cap s.cache k (some n), inner := i' }, o)
      | .val none =>
        -- `res is None`: cache it only if the wrapped store really has the key
        let (i'', o2) := istep i' (.has k)
        match o2 with
        | .bool true => ({ cache := cachePut cap s.cache k none, inner := i'' }, o)
        | _ => ({ s with inner := i'' }, o)
      | _ => ({ s with inner := i' }, o)
  | .store k v =>
    let (i', o) := istep s.inner (.store k v)
    ({ cache := cacheDrop s.cache k, inner := i' }, o)
  | .sync ps => let (i', o) := istep s.inner (.sync ps); ({ s with inner := i' }, o)
  | .fetchPaths ps => let (i', o) := istep s.inner (.fetchPaths ps); ({ s with inner := i' }, o)

/-- `set_store(..., cache_objects=x)`: the capacity of the wrapper, `none` = no wrapper.
`x` is `None`, a bool or an int. -/
inductive CacheOpt where
  | none | bool (b : Bool) | int (i : Int)

def defaultCacheSize : Nat := 10
/-- `sys.maxsize // 2` -/
def unboundedCacheSize : Nat := 4611686018427387903

def decodeCacheObjects : CacheOpt → Option Nat
  | .none => Option.none
  | .bool true => some defaultCacheSize
  | .bool false => Option.none          -- `False` is the int 0
  | .int i => if i < 0 then some unboundedCacheSize else if i > 0 then some i.toNat else Option.none

end Dds
