/-!
# The order in which the calls of an expression are analysed (`IntroVisitor.visit_Call`, `IntroVisitorIndirect.visit_Call`)

The context of a call seen in source is made of the calls analysed before it. Python evaluates the expression of the called
function, then the arguments from left to right, then makes the call; the code (since the `fix:` commit for calls nested in
arguments) visits the arguments, analyses the call, then visits the expression of the called function.
`DdsProofs/Order.lean`: for expressions whose called functions are names or attribute chains - the only ones the analysis
understands - the two orders are the same; before the fix the call came first.
-/
namespace Dds.Order

inductive CE where
  /-- a name, an attribute chain, a constant: no call inside -/
  | atom
  /-- a call, with an identifier; `args`: its arguments, `pair`ed left to right -/
  | call (id : Nat) (func args : CE)
  /-- two sub-expressions evaluated left to right (arguments, operands, elements of a display) -/
  | pair (a b : CE)

/-- the order in which Python makes the calls of an expression -/
def pyOrder : CE → List Nat
  | .atom => []
  | .call i f as => pyOrder f ++ pyOrder as ++ [i]
  | .pair a b => pyOrder a ++ pyOrder b

/-- the order in which the code analyses them -/
def ddsOrder : CE → List Nat
  | .atom => []
  | .call i f as => ddsOrder as ++ [i] ++ ddsOrder f
  | .pair a b => ddsOrder a ++ ddsOrder b

/-- before the fix: the call, then what `generic_visit` meets (the called function, the arguments) -/
def oldOrder : CE → List Nat
  | .atom => []
  | .call i f as => [i] ++ oldOrder f ++ oldOrder as
  | .pair a b => oldOrder a ++ oldOrder b

/-- the called functions are names or attribute chains (nothing is called to obtain the function) -/
def funcSimple : CE → Bool
  | .atom => true
  | .call _ f as => (match f with | .atom => true | _ => false) && funcSimple as
  | .pair a b => funcSimple a && funcSimple b

end Dds.Order
