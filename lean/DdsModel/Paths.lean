/-!
# DDS paths (`dds/structures_utils.py`: `DDSPathUtils`, `FunctionInteractionsUtils.non_terminal_leaves`)

A well-formed absolute path `/a/b/c` is modelled by its list of (non-empty) segments `["a","b","c"]`.
`ntl` follows `non_terminal_leaves` as written since the `fix:` commit for C11 (the splits are sorted by
their first segment before `itertools.groupby`, so that a group collects *all* paths with that head):
groups come in the order of the sorted distinct heads, members keep their original order.
-/
namespace Dds

abbrev Segs := List String

/-- `str.split(sep)` on characters (structural, so that the kernel can evaluate it) -/
def splitChars (sep : Char) : List Char → List Char → List (List Char)
  | [], cur => [cur.reverse]
  | c :: cs, cur => if c = sep then cur.reverse :: splitChars sep cs [] else splitChars sep cs (c :: cur)

/-- the non-empty segments of a path string: `[s for s in p.split("/") if s]` -/
def pathSegs (p : String) : Segs :=
  ((splitChars '/' p.toList []).map String.ofList).filter (· ≠ "")

/-- `"/" + "/".join(segments)` on characters -/
def joinC : List (List Char) → List Char
  | [] => ['/']
  | [s] => '/' :: s
  | s :: rest => '/' :: s ++ joinC rest

/-- `DDSPathUtils._normalized` (since the `fix:` commit 82e4b93): the one spelling of a path - repeated and trailing separators
carry no segment -/
def normPath (p : String) : String :=
  String.ofList (joinC ((splitChars '/' p.toList []).filter (fun s => !s.isEmpty)))

/-- insertion into a sorted list of strings, dropping duplicates -/
def insertStr (s : String) : List String → List String
  | [] => [s]
  | t :: ts => if s = t then t :: ts else if s ≤ t then s :: t :: ts else t :: insertStr s ts

/-- sorted distinct elements -/
def sortDedup : List String → List String
  | [] => []
  | s :: ss => insertStr s (sortDedup ss)

def headsOf (ps : List Segs) : List String := ps.filterMap List.head?

/-- the tails of the paths that start with `k` (`sub` of the code; `[]` stands for the empty path `/`) -/
def tailsOf (k : String) : List Segs → List Segs
  | [] => []
  | [] :: ps => tailsOf k ps
  | (s :: r) :: ps => if s = k then r :: tailsOf k ps else tailsOf k ps

def flatMapL {α β} (f : α → List β) : List α → List β
  | [] => []
  | a :: as => f a ++ flatMapL f as

/-- `non_terminal_leaves(paths, current_prefix)`; `fuel` bounds the recursion depth (one level per segment) -/
def ntl : Nat → List Segs → Option Segs → List Segs
  | 0, _, _ => []
  | fuel + 1, ps, pre =>
    let ne := ps.filter (fun p => !p.isEmpty)
    let here : List Segs := match pre with
      | some p => if ps.length > ne.length ∧ ne.length > 0 then [p] else []
      | none => []
    here ++ flatMapL (fun k => ntl fuel (tailsOf k ne) (some (pre.getD [] ++ [k]))) (sortDedup (headsOf ne))

def maxLen : List Segs → Nat
  | [] => 0
  | p :: ps => max p.length (maxLen ps)

/-- `non_terminal_leaves(paths, None)` -/
def nonTerminalLeaves (ps : List Segs) : List Segs := ntl (maxLen ps + 1) ps none

end Dds
