import DdsModel.Sig
import DdsModel.Paths
/-!
# Abstract pipelines (DESIGN §4): what the analysis can see of a version of the code
-/
namespace Dds

/-- a run-time argument expression `rt(r_i…, p…, 'lit'…)`: indices of earlier results, names of own parameters,
string literals -/
structure RtExpr where
  rs : List Nat
  ps : List String
  lits : List String := []

inductive Item where
  /-- plain call `r = f()` (arguments not inspected by the analysis: none are passed) -/
  | call (f : String) (line : Nat)
  /-- plain call with arguments `r = f(args…, kw=…)` (literals are seen by the analysis since the `fix:` commit
  for plain calls overriding defaults) -/
  | callArgs (f : String) (args : List AstArg) (kwargs : List (String × AstArg))
      (rtA : List (Option RtExpr)) (rtK : List (String × Option RtExpr)) (line : Nat)
  /-- the function is named but not called in this source: `r = hof(f)` -/
  | ref (f : String) (line : Nat)
  /-- `r = dds.keep(path, f, args…, kw=…)`; `rtA`/`rtK` say how the run-time arguments are computed -/
  | keep (path : String) (f : String) (args : List AstArg) (kwargs : List (String × AstArg))
      (rtA : List (Option RtExpr)) (rtK : List (String × Option RtExpr)) (line : Nat)
  /-- `r = dds.load(path)` -/
  | load (path : String) (line : Nat)
  /-- `r = dds.eval(f)` inside an evaluated function (must be rejected) -/
  | evalCall (f : String) (line : Nat)

structure Fn where
  name : String
  lines : List String              -- `inspect.getsource(f).split("\n")`
  tag : String                     -- the literal that identifies this version of the body in its result
  params : List Param
  storePath : Option String        -- `@dds.data_function(path)`
  vars : List (String × PyVal)     -- tracked module variables read by the body, with their values
  exts : List (String × String)    -- non-accepted objects named in the body: local name ↦ canonical path
  items : List Item
  fails : Option String            -- the body raises this kind of exception after its items
  usesExt : Bool                   -- the result mentions the non-accepted companion module's `extf()`
  ws : Option Bool := none         -- the body ends with a statement whose meaning depends on its indentation only:
                                   -- `some true`: indented under `if False:` (not executed), `some false`: dedented (executed)

structure World where
  funs : List Fn
  extVersion : Nat

def World.find (W : World) (n : String) : Option Fn := W.funs.find? (fun f => f.name = n)

inductive DdsErr where
  | evalInEval | circularCall | overlappingPath | pathNotAbsolute | typeNotSupported | sequenceTooLong
  | missingArg            -- DDSException without code
  | missingPaths          -- DDSException from fetch_paths
  | loadBeforeProduce     -- DDSException: a path is loaded before the evaluation produces it
  | objectNotFound        -- a name of the abstract program is not defined (outside well-formed worlds)
  | assertion             -- AssertionError ("Missing dep", …)
  | notImplemented
  | keyError              -- KeyError (a kept path that the analysis did not register)
  | outOfFuel             -- model artefact: never reached for acyclic worlds (see `fuel_sufficient`)
  deriving DecidableEq, Repr

def ofArgErr : ArgErr → DdsErr
  | .notImplemented => .notImplemented
  | .missingArg => .missingArg
  | .hash .typeNotSupported => .typeNotSupported
  | .hash .sequenceTooLong => .sequenceTooLong
  | .hash .lowLevel => .assertion

def ofHashErr : HashErr → DdsErr
  | .typeNotSupported => .typeNotSupported
  | .sequenceTooLong => .sequenceTooLong
  | .lowLevel => .assertion

/-- `DDSPathUtils.create` on a string -/
def pathAbsolute (p : String) : Bool := p.startsWith "/"

/-- segments of a well-formed path string -/
def segsOf (p : String) : Segs := pathSegs p

end Dds
