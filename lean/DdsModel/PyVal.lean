import DdsModel.Sym
/-!
# The hashed value universe and `dds_hash` (`dds/fun_args.py`)

`ddsHash maxLen v` follows `_dds_hash0` case by case, in the order of its `isinstance` tests:
None, str, float, int (bool is an int), CanonicalPath, list, tuple, PurePosixPath, OrderedDict, dict,
dataclass, datetime family, otherwise `TYPE_NOT_SUPPORTED`.
-/
namespace Dds

inductive PyVal where
  | none
  | bool (b : Bool)
  | int (i : Int)
  | float (bits : UInt64)               -- IEEE-754 bits, as `struct.pack("!d")` sees them
  | str (s : String)
  | list (xs : List PyVal)
  | tuple (xs : List PyVal)
  | dict (kvs : List (PyVal × PyVal))    -- insertion order
  | odict (kvs : List (PyVal × PyVal))
  | dc (fields : List (String × PyVal))  -- dataclass instance: field names and values, in order
  | temporal (repr : String)             -- datetime/date/time/timedelta/timezone: its `repr`
  | ppath (s : String)                   -- PurePosixPath: its `str`
  | cpath (repr : String)                -- dds CanonicalPath: its `repr`
  | unsupported (ty : String)            -- any other type

inductive HashErr where
  | typeNotSupported | sequenceTooLong | lowLevel
  deriving DecidableEq, Repr

instance {ε α} [DecidableEq ε] [DecidableEq α] : DecidableEq (Except ε α)
  | .ok a, .ok b => if h : a = b then isTrue (by rw [h]) else isFalse (by intro e; cases e; exact h rfl)
  | .error a, .error b => if h : a = b then isTrue (by rw [h]) else isFalse (by intro e; cases e; exact h rfl)
  | .ok _, .error _ => isFalse (by intro e; cases e)
  | .error _, .ok _ => isFalse (by intro e; cases e)

/-- big-endian bytes of `n mod 256^k`, `k` bytes -/
def beBytes : Nat → Nat → List UInt8
  | 0, _ => []
  | k+1, n => beBytes k (n / 256) ++ [UInt8.ofNat (n % 256)]

/-- `struct.pack("!l", i)` for `-2^31 ≤ i < 2^31` (two's complement, 4 bytes) -/
def pack4 (i : Int) : List UInt8 := beBytes 4 (i % 4294967296).toNat
/-- `struct.pack("!d", x)` from the bits -/
def pack8 (bits : UInt64) : List UInt8 := beBytes 8 bits.toNat

def inInt32 (i : Int) : Bool := decide (-2147483648 ≤ i) && decide (i < 2147483648)

/-- Python `format(i, "+x")`: sign character, then lower-case hex digits of the magnitude
(no size limit in CPython, unlike the decimal conversion) -/
def intRepr (i : Int) : String := (if i < 0 then "-" else "+") ++ String.ofList (Nat.toDigits 16 i.natAbs)

/-- the hash of an int. In range: the 4 packed bytes. Out of range: since the `fix:` commit for C05
(previously `struct.error`, i.e. `.error .lowLevel`) the tagged signed hex text. -/
def hashInt (i : Int) : Except HashErr Sg :=
  if inInt32 i then .ok (hBytes (pack4 i)) else .ok (hStr ("__DDS_INT__" ++ intRepr i))

def noneSentinel : String := "__DDS_NONE__"

def checkLen (maxLen n : Nat) : Except HashErr Unit :=
  if n > maxLen then .error .sequenceTooLong else .ok ()

/-- digest of one `_hash_dict_tuple(k, v)` string, i.e. `_algo_str(hk + "|" + hv)` -/
def pairSg (hk hv : Sg) : Sg := .H [.sg hk, .lit (utf8 "|"), .sg hv]

mutual
def ddsHash (maxLen : Nat) : PyVal → Except HashErr Sg
  | .none => .ok (hStr noneSentinel)
  | .str s => .ok (hStr s)
  | .float b => .ok (hBytes (pack8 b))
  | .bool b => hashInt (if b then 1 else 0)
  | .int i => hashInt i
  | .cpath r => .ok (hStr r)
  | .list xs => do
      checkLen maxLen xs.length
      let hs ← ddsHashL maxLen xs
      pure (hJoin hs)
  | .tuple xs => do
      checkLen maxLen xs.length
      let hs ← ddsHashL maxLen xs
      pure (hJoin hs)
  | .ppath s => .ok (hStr s)
  | .odict kvs => do
      checkLen maxLen kvs.length
      let hs ← ddsHashKV maxLen kvs
      pure (hJoin hs)
  | .dict kvs => do
      checkLen maxLen kvs.length
      let hs ← ddsHashKV maxLen kvs
      pure (hJoin hs)
  | .dc fs => do
      checkLen maxLen fs.length
      let hs ← ddsHashF maxLen fs
      pure (hJoin hs)
  | .temporal r => .ok (hStr r)
  | .unsupported _ => .error .typeNotSupported
def ddsHashL (maxLen : Nat) : List PyVal → Except HashErr (List Sg)
  | [] => .ok []
  | x :: xs => do
      let h ← ddsHash maxLen x
      let hs ← ddsHashL maxLen xs
      pure (h :: hs)
/-- items of a dict: each becomes the digest of the string `hash(k) + "|" + hash(v)` -/
def ddsHashKV (maxLen : Nat) : List (PyVal × PyVal) → Except HashErr (List Sg)
  | [] => .ok []
  | (k, v) :: kvs => do
      let hk ← ddsHash maxLen k
      let hv ← ddsHash maxLen v
      let hs ← ddsHashKV maxLen kvs
      pure (pairSg hk hv :: hs)
/-- fields of a dataclass. NB: the code hashes all values first, then builds the items with
`_hash_dict_tuple(name, h)` where `h` is the *digest text* of the value, so the value is hashed twice. -/
def ddsHashF (maxLen : Nat) : List (String × PyVal) → Except HashErr (List Sg)
  | [] => .ok []
  | (n, v) :: fs => do
      let hv ← ddsHash maxLen v
      let hs ← ddsHashF maxLen fs
      pure (pairSg (hStr n) (hSg hv) :: hs)
end

/-! ## Canonical form: exactly what `dds_hash` can see of a value

`CVal` is the tree `dds_hash` actually hashes: atoms are byte strings, inner nodes are non-empty
sequences. `canonKF` maps a value to it; `hashC` hashes it. `ddsHash = hashC ∘ canonKF`
(theorem `ddsHash_eq_hashC`) and `hashC` is injective (`hashC_inj`), hence two values collide **iff**
their `canonKF` agree. -/
inductive CVal where
  | atom (bs : List UInt8)
  | seq (xs : List CVal)       -- only built non-empty

def intAtom (i : Int) : CVal :=
  if inInt32 i then .atom (pack4 i) else .atom (utf8 ("__DDS_INT__" ++ intRepr i))

def mkSeq (xs : List CVal) : CVal := if xs.isEmpty then .atom [] else .seq xs

mutual
def canonKF : PyVal → CVal
  | .none => .atom (utf8 noneSentinel)
  | .str s => .atom (utf8 s)
  | .float b => .atom (pack8 b)
  | .bool b => intAtom (if b then 1 else 0)
  | .int i => intAtom i
  | .cpath r => .atom (utf8 r)
  | .list xs => mkSeq (canonKFL xs)
  | .tuple xs => mkSeq (canonKFL xs)
  | .ppath s => .atom (utf8 s)
  | .odict kvs => mkSeq (canonKFKV kvs)
  | .dict kvs => mkSeq (canonKFKV kvs)
  | .dc fs => mkSeq (canonKFF fs)
  | .temporal r => .atom (utf8 r)
  | .unsupported _ => .atom []
def canonKFL : List PyVal → List CVal
  | [] => []
  | x :: xs => canonKF x :: canonKFL xs
def canonKFKV : List (PyVal × PyVal) → List CVal
  | [] => []
  | (k, v) :: kvs => .seq [canonKF k, canonKF v] :: canonKFKV kvs
def canonKFF : List (String × PyVal) → List CVal
  | [] => []
  | (n, v) :: fs => .seq [.atom (utf8 n), .seq [canonKF v]] :: canonKFF fs
end

mutual
def hashC : CVal → Sg
  | .atom bs => hBytes bs
  | .seq xs => hJoin (hashCL xs)
def hashCL : List CVal → List Sg
  | [] => []
  | x :: xs => hashC x :: hashCL xs
end

-- well-formed canonical values: sequences are non-empty
mutual
def CVal.wf : CVal → Prop
  | .atom _ => True
  | .seq xs => xs ≠ [] ∧ CVal.wfL xs
def CVal.wfL : List CVal → Prop
  | [] => True
  | x :: xs => CVal.wf x ∧ CVal.wfL xs
end

end Dds
