/-!
# Which names of a function body are module names (`dds/introspect.py`: `LocalVarsVisitor`, `_BoundNamesVisitor`,
`_ScopedVisitor`, and the visitors built on it: `ExternalVarsVisitor`, `IntroVisitor`, `IntroVisitorIndirect`)

The analysis looks a name of a function body up in the module — as a tracked variable, or as a called / referenced
function — only if the name is not *local* at the point where it is read. This file holds

* the syntax of the fragment of Python that matters for that decision (`Expr`, `Stmt`): names, attributes, calls and
  operators, lambdas, comprehensions, assignment expressions; assignments (also `for` / `with` targets), `del`, `global`,
  `nonlocal`, `except … as`, nested functions, sequencing (compound statements open no scope);
* `ddsNames`: the names the code looks up, computed as the code does since the `fix:` commit for nested scopes — one set
  of local names, extended when a nested scope is entered and restored when it is left;
* `pyGlobalReads`: the names Python itself resolves to the module (CPython's symbol table: the chain of enclosing
  function scopes, each with the names it binds and the names it declares `global`);
* `oldNames`: the computation before the fix (every name stored anywhere in the function, nested scopes included, counted
  as local everywhere).

`DdsProofs/Scope.lean` proves `ddsNames = pyGlobalReads` for every body, and that `oldNames` misses module names.
-/
namespace Dds.Scope

inductive Expr where
  /-- a name that is read -/
  | name (x : String)
  | const
  /-- `e.a` -/
  | attr (e : Expr) (a : String)
  /-- a call, an operator, a display, a subscript: the operands, two at a time -/
  | app (f a : Expr)
  /-- `lambda params: body` (default values are operands of the enclosing expression) -/
  | lam (params : List String) (body : Expr)
  /-- `[inner for targets in iter …]`: `iter` is the first iterable; `inner` holds everything evaluated inside the
  comprehension (conditions, further iterables, the element); `targets`: the targets of all its `for` clauses -/
  | comp (targets : List String) (iter inner : Expr)
  /-- `(x := e)` -/
  | walrus (x : String) (e : Expr)
  deriving Repr

inductive Stmt where
  /-- an expression evaluated in this scope: expression statement, `return e`, a condition, the header of a `with` -/
  | expr (e : Expr)
  /-- `targets = e`, `for targets in e`, `with e as targets`, `targets += e` -/
  | assign (targets : List String) (e : Expr)
  | del (x : String)
  | global (xs : List String)
  | nonlocal (xs : List String)
  /-- the name bound by `except E as x` -/
  | exceptAs (x : String)
  /-- a nested function; `header`: decorators, default values and annotations, evaluated in the enclosing scope -/
  | defn (fname : String) (params : List String) (header : Expr) (body : Stmt)
  | seq (a b : Stmt)
  | skip
  deriving Repr

/-- `_BoundNamesVisitor` on an expression: the targets of assignment expressions, through comprehensions but not through
lambdas -/
def boundE : Expr → List String
  | .name _ => []
  | .const => []
  | .attr e _ => boundE e
  | .app f a => boundE f ++ boundE a
  | .lam _ _ => []
  | .comp _ it inn => boundE it ++ boundE inn
  | .walrus x e => x :: boundE e

/-- `_BoundNamesVisitor.bound`: the names bound in one scope, not in the scopes nested in it -/
def boundS : Stmt → List String
  | .expr e => boundE e
  | .assign ts e => ts ++ boundE e
  | .del x => [x]
  | .global _ => []
  | .nonlocal _ => []
  | .exceptAs x => [x]
  | .defn n _ hdr _ => n :: boundE hdr
  | .seq a b => boundS a ++ boundS b
  | .skip => []

/-- `_BoundNamesVisitor.declared_global` -/
def globalsS : Stmt → List String
  | .global xs => xs
  | .seq a b => globalsS a ++ globalsS b
  | _ => []

/-- `_ScopedVisitor._visit_in_scope`: the local names inside a nested scope -/
def enter (L params bound globs : List String) : List String :=
  L.filter (fun x => x ∉ globs) ++ (params ++ bound).filter (fun x => x ∉ globs)

/-- the names of an expression that the visitors look up in the module, `L` being the local names at that point -/
def extE (L : List String) : Expr → List String
  | .name x => if x ∈ L then [] else [x]
  | .const => []
  | .attr e _ => extE L e
  | .app f a => extE L f ++ extE L a
  | .lam ps body => extE (enter L ps (boundE body) []) body
  | .comp ts it inn => extE L it ++ extE (enter L [] ts []) inn
  | .walrus _ e => extE L e

def extS (L : List String) : Stmt → List String
  | .expr e => extE L e
  | .assign _ e => extE L e
  | .del _ => []
  | .global _ => []
  | .nonlocal _ => []
  | .exceptAs _ => []
  | .defn _ ps hdr body => extE L hdr ++ extS (enter L ps (boundS body) (globalsS body)) body
  | .seq a b => extS L a ++ extS L b
  | .skip => []

/-- `get_local_vars` followed by the visit of the body: the names looked up in the module, in order -/
def ddsNames (params : List String) (body : Stmt) : List String :=
  extS (enter [] params (boundS body) (globalsS body)) body

/-! ## Python's own resolution -/

/-- one function-like scope: the names it binds (parameters included), the names it declares global -/
structure Sc where
  bound : List String
  globs : List String

/-- a name read in the innermost scope of the chain (innermost first) resolves to the module -/
def isGlobal : List Sc → String → Bool
  | [], _ => true
  | s :: rest, x => if x ∈ s.globs then true else if x ∈ s.bound then false else isGlobal rest x

def readsE (chain : List Sc) : Expr → List String
  | .name x => if isGlobal chain x then [x] else []
  | .const => []
  | .attr e _ => readsE chain e
  | .app f a => readsE chain f ++ readsE chain a
  | .lam ps body => readsE (⟨ps ++ boundE body, []⟩ :: chain) body
  | .comp ts it inn => readsE chain it ++ readsE (⟨ts, []⟩ :: chain) inn
  | .walrus _ e => readsE chain e

def readsS (chain : List Sc) : Stmt → List String
  | .expr e => readsE chain e
  | .assign _ e => readsE chain e
  | .del _ => []
  | .global _ => []
  | .nonlocal _ => []
  | .exceptAs _ => []
  | .defn _ ps hdr body => readsE chain hdr ++ readsS (⟨ps ++ boundS body, globalsS body⟩ :: chain) body
  | .seq a b => readsS chain a ++ readsS chain b
  | .skip => []

/-- the names of a function that Python reads from the module, in order of occurrence -/
def pyGlobalReads (params : List String) (body : Stmt) : List String :=
  readsS [⟨params ++ boundS body, globalsS body⟩] body

/-! ## Before the fix: every stored name of the function, wherever it is stored, is local everywhere -/

def storedE : Expr → List String
  | .name _ => []
  | .const => []
  | .attr e _ => storedE e
  | .app f a => storedE f ++ storedE a
  | .lam _ body => storedE body
  | .comp ts it inn => ts ++ storedE it ++ storedE inn
  | .walrus x e => x :: storedE e

def storedS : Stmt → List String
  | .expr e => storedE e
  | .assign ts e => ts ++ storedE e
  | .del _ => []
  | .global _ => []
  | .nonlocal _ => []
  | .exceptAs _ => []
  | .defn _ _ hdr body => storedE hdr ++ storedS body
  | .seq a b => storedS a ++ storedS b
  | .skip => []

def oldE (L : List String) : Expr → List String
  | .name x => if x ∈ L then [] else [x]
  | .const => []
  | .attr e _ => oldE L e
  | .app f a => oldE L f ++ oldE L a
  | .lam _ body => oldE L body
  | .comp _ it inn => oldE L it ++ oldE L inn
  | .walrus _ e => oldE L e

def oldS (L : List String) : Stmt → List String
  | .expr e => oldE L e
  | .assign _ e => oldE L e
  | .defn _ _ hdr body => oldE L hdr ++ oldS L body
  | .seq a b => oldS L a ++ oldS L b
  | _ => []

def oldNames (params : List String) (body : Stmt) : List String := oldS (params ++ storedS body) body

end Dds.Scope
