/-! Executable SHA-256 (concrete side only: used by `interp`; no theorem mentions it). -/
namespace Sha256
def K : Array UInt32 := #[
0x428a2f98,0x71374491,0xb5c0fbcf,0xe9b5dba5,0x3956c25b,0x59f111f1,0x923f82a4,0xab1c5ed5,
0xd807aa98,0x12835b01,0x243185be,0x550c7dc3,0x72be5d74,0x80deb1fe,0x9bdc06a7,0xc19bf174,
0xe49b69c1,0xefbe4786,0x0fc19dc6,0x240ca1cc,0x2de92c6f,0x4a7484aa,0x5cb0a9dc,0x76f988da,
0x983e5152,0xa831c66d,0xb00327c8,0xbf597fc7,0xc6e00bf3,0xd5a79147,0x06ca6351,0x14292967,
0x27b70a85,0x2e1b2138,0x4d2c6dfc,0x53380d13,0x650a7354,0x766a0abb,0x81c2c92e,0x92722c85,
0xa2bfe8a1,0xa81a664b,0xc24b8b70,0xc76c51a3,0xd192e819,0xd6990624,0xf40e3585,0x106aa070,
0x19a4c116,0x1e376c08,0x2748774c,0x34b0bcb5,0x391c0cb3,0x4ed8aa4a,0x5b9cca4f,0x682e6ff3,
0x748f82ee,0x78a5636f,0x84c87814,0x8cc70208,0x90befffa,0xa4506ceb,0xbef9a3f7,0xc67178f2]
def H0 : Array UInt32 := #[0x6a09e667,0xbb67ae85,0x3c6ef372,0xa54ff53a,0x510e527f,0x9b05688c,0x1f83d9ab,0x5be0cd19]
@[inline] def rotr (x : UInt32) (n : UInt32) : UInt32 := (x >>> n) ||| (x <<< (32 - n))
def pad (msg : ByteArray) : ByteArray := Id.run do
  let len := msg.size
  let mut m := msg.push 0x80
  while m.size % 64 != 56 do m := m.push 0
  let bits : UInt64 := (UInt64.ofNat len) * 8
  for i in [0:8] do
    m := m.push (UInt8.ofNat ((bits >>> (UInt64.ofNat (8*(7-i)))).toNat % 256))
  return m
def block (h : Array UInt32) (m : ByteArray) (off : Nat) : Array UInt32 := Id.run do
  let mut w : Array UInt32 := Array.mkEmpty 64
  for i in [0:16] do
    let b0 := (m.get! (off+4*i)).toUInt32; let b1 := (m.get! (off+4*i+1)).toUInt32
    let b2 := (m.get! (off+4*i+2)).toUInt32; let b3 := (m.get! (off+4*i+3)).toUInt32
    w := w.push ((b0 <<< 24) ||| (b1 <<< 16) ||| (b2 <<< 8) ||| b3)
  for i in [16:64] do
    let w15 := w[i-15]!; let w2 := w[i-2]!
    let s0 := rotr w15 7 ^^^ rotr w15 18 ^^^ (w15 >>> 3)
    let s1 := rotr w2 17 ^^^ rotr w2 19 ^^^ (w2 >>> 10)
    w := w.push (w[i-16]! + s0 + w[i-7]! + s1)
  let mut a := h[0]!; let mut b := h[1]!; let mut c := h[2]!; let mut d := h[3]!
  let mut e := h[4]!; let mut f := h[5]!; let mut g := h[6]!; let mut hh := h[7]!
  for i in [0:64] do
    let S1 := rotr e 6 ^^^ rotr e 11 ^^^ rotr e 25
    let ch := (e &&& f) ^^^ ((~~~ e) &&& g)
    let t1 := hh + S1 + ch + K[i]! + w[i]!
    let S0 := rotr a 2 ^^^ rotr a 13 ^^^ rotr a 22
    let maj := (a &&& b) ^^^ (a &&& c) ^^^ (b &&& c)
    let t2 := S0 + maj
    hh := g; g := f; f := e; e := d + t1; d := c; c := b; b := a; a := t1 + t2
  return #[h[0]!+a,h[1]!+b,h[2]!+c,h[3]!+d,h[4]!+e,h[5]!+f,h[6]!+g,h[7]!+hh]
def hexDigit (n : Nat) : Char := if n < 10 then Char.ofNat (48+n) else Char.ofNat (87+n)
def hash (msg : ByteArray) : String := Id.run do
  let m := pad msg
  let mut h := H0
  for i in [0:m.size/64] do h := block h m (i*64)
  let mut s := ""
  for x in h do
    for j in [0:8] do
      s := s.push (hexDigit ((x.toNat >>> (4*(7-j))) % 16))
  return s
end Sha256

namespace Sha256
/-- hex numeral → Nat (Python `int(s, 16)`) -/
def hexToNat (s : String) : Nat :=
  s.foldl (fun acc c =>
    let d := if '0' ≤ c ∧ c ≤ '9' then c.toNat - 48
             else if 'a' ≤ c ∧ c ≤ 'f' then c.toNat - 87
             else if 'A' ≤ c ∧ c ≤ 'F' then c.toNat - 55 else 0
    acc * 16 + d) 0

/-- Python `"{:x}".format(n)`: no zero padding -/
def natToHex (n : Nat) : String :=
  if n = 0 then "0" else
  let rec go (fuel : Nat) (n : Nat) (acc : List Char) : List Char :=
    match fuel with
    | 0 => acc
    | fuel+1 => if n = 0 then acc else go fuel (n / 16) (hexDigit (n % 16) :: acc)
  String.ofList (go 70 n [])
end Sha256
