import DdsModel.Args
/-!
# Signature composition (`dds/introspect.py`: `_build_return_sig`, `_fis_to_siglist`, context signature)
-/
namespace Dds

structure ArgCtx where
  named : List (String × Option Sg)
  inner : Option Sg

inductive SigErr where
  | assertion      -- an `assert` of the code fails (AssertionError)
  deriving DecidableEq, Repr

/-- `_fis_to_siglist` -/
def fisSigListFrom : Nat → List Sg → List (String × Sg)
  | _, [] => []
  | i, s :: ss => ("fun_dep_" ++ toString i, s) :: fisSigListFrom (i + 1) ss
def fisSigList (subs : List Sg) : List (String × Sg) := fisSigListFrom 0 subs

def allSome {α β} : List (α × Option β) → Option (List (α × β))
  | [] => some []
  | (a, some b) :: xs => (allSome xs).map ((a, b) :: ·)
  | (_, none) :: _ => none

/-- the `arg` pairs of `_build_return_sig` -/
def argPairs (a : ArgCtx) : Except SigErr (List (String × Sg)) :=
  match allSome a.named with
  | some kvs => .ok (kvs.map (fun (n, h) => ("arg_" ++ n, h)))
  | none => match a.inner with
    | some k => .ok [("arg_context", k)]
    | none => .error .assertion

/-- `_build_return_sig` (`none` when there is no pair at all) -/
def buildReturnSig (bodySig : Option Sg) (arg : ArgCtx) (deps : List (String × Sg)) (subs : List Sg)
    (extDeps : List (String × String)) (extVars : List (String × Sg)) : Except SigErr (Option Sg) := do
  let a ← argPairs arg
  let body := match bodySig with | none => [] | some b => [("body_sig", b)]
  pure (hashCommut (body ++ a ++ deps.map (fun (p, s) => ("dep_" ++ p, s)) ++ fisSigList subs
    ++ extDeps.map (fun (l, cp) => ("ext_dep_" ++ l, hStr ("<" ++ cp ++ ">")))
    ++ extVars.map (fun (l, s) => ("ext_variable_" ++ l, s))))

/-- the context signature of `inspect_call` -/
def contextSig (bodyPrefixHash inputSig : Sg) (interHash : Option Sg) : Option Sg :=
  hashCommut ([("body_sig", bodyPrefixHash), ("function_input_hash", inputSig)] ++
    (match interHash with | some h => [("function_inter_hash", h)] | none => []))

end Dds
