/-!
# The store interface and its dictionary specification (`dds/store.py`: `Store`, `MemoryStore`)

`Dict` is the specification every store is compared with; it is also, literally, `MemoryStore`
(two Python dicts). A blob value is `Option Nat`: `none` is Python's `None`, `some n` an opaque
non-`None` object. `fetch` of an absent key returns `None` (that is what the stores do).
-/
namespace Dds

abbrev Key := String
abbrev DPath := String
abbrev Val := Option Nat

inductive StoreOp where
  | store (k : Key) (v : Val)
  | has (k : Key)
  | fetch (k : Key)
  | sync (ps : List (DPath × Key))
  | fetchPaths (ps : List DPath)
  deriving DecidableEq, Repr

inductive Out where
  | unit
  | bool (b : Bool)
  | val (v : Val)
  | paths (ps : List (DPath × Key))
  | err                       -- DDSException (missing path)
  deriving DecidableEq, Repr

def aget {α} (l : List (String × α)) (k : String) : Option α :=
  match l with
  | [] => none
  | (k', v) :: l => if k' = k then some v else aget l k

def aset {α} (l : List (String × α)) (k : String) (v : α) : List (String × α) :=
  (k, v) :: l.filter (fun kv => kv.1 ≠ k)

structure Dict where
  blobs : List (Key × Val) := []
  paths : List (DPath × Key) := []

def syncAll (paths : List (DPath × Key)) (ps : List (DPath × Key)) : List (DPath × Key) :=
  ps.foldl (fun acc pk => aset acc pk.1 pk.2) paths

/-- `OrderedDict([(p, paths[p]) for p in ps])`: first occurrence order, duplicates collapsed -/
def resolveAll (paths : List (DPath × Key)) : List DPath → List DPath → Option (List (DPath × Key))
  | [], _ => some []
  | p :: ps, seen =>
    match aget paths p with
    | none => none
    | some k =>
      match resolveAll paths ps (p :: seen) with
      | none => none
      | some r => some (if p ∈ seen then r else (p, k) :: r)

def Dict.step (d : Dict) : StoreOp → Dict × Out
  | .store k v => ({ d with blobs := aset d.blobs k v }, .unit)
  | .has k => (d, .bool (aget d.blobs k).isSome)
  | .fetch k => (d, .val ((aget d.blobs k).getD none))
  | .sync ps => ({ d with paths := syncAll d.paths ps }, .unit)
  | .fetchPaths ps =>
    match resolveAll d.paths ps [] with
    | some r => (d, .paths r)
    | none => (d, .err)

/-- run a sequence of operations from a state, collecting the outputs -/
def runOps {σ} (step : σ → StoreOp → σ × Out) : σ → List StoreOp → σ × List Out
  | s, [] => (s, [])
  | s, op :: ops =>
    let (s', o) := step s op
    let (s'', os) := runOps step s' ops
    (s'', o :: os)

end Dds
