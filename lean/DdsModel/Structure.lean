import DdsModel.Graph
/-!
# `_plotting._structure`, line by line

An executable model of the graph construction of `dds/_plotting.py` (`_structure` / `traverse`), with its mutable
dictionaries as association lists threaded through the traversal: `nodes`, `all_refs`, `node_deps`, `deps`, `load_deps`.
Unlike `graphOf` (the *specification* of the nodes and of the solid / dashed edges, `DdsModel/Graph.lean`) it also
produces the dotted call-order edges, guarded — since the `fix:` commit for cycles of dotted edges — by `reaches`: an
implicit edge is added only if its target does not already reach its source along the edges recorded so far.

The head nodes of a call that is not kept are sorted by their signature in the code (`sorted(..., key=node_hash)`): the
model sorts by the real digest (`Sg.interp`), so that the order in which candidate edges are tried is the code's.
-/
namespace Dds

inductive EdgeTy where
  | direct | indirect | implicit
  deriving DecidableEq, Repr

structure GNode where
  path : String
  sig : Sg
  deriving DecidableEq

structure GEdge where
  src : String
  dst : String
  ty : EdgeTy

/-- the state of `_structure` -/
structure SSt where
  nodes : List (Sg × GNode) := []
  allRefs : List (String × Sg) := []
  nodeDeps : List (Sg × List Sg) := []
  deps : List ((Sg × Sg) × GEdge) := []
  loadDeps : List ((Sg × Sg) × GEdge) := []

def kvGet {κ α} [DecidableEq κ] (l : List (κ × α)) (k : κ) : Option α :=
  match l with
  | [] => none
  | (k', v) :: l => if k' = k then some v else kvGet l k

/-- `d[k] = v` on an ordered dictionary: an existing key keeps its position -/
def kvSet {κ α} [DecidableEq κ] (l : List (κ × α)) (k : κ) (v : α) : List (κ × α) :=
  match l with
  | [] => [(k, v)]
  | (k', v') :: l => if k' = k then (k, v) :: l else (k', v') :: kvSet l k v

def SSt.depsOf (st : SSt) (k : Sg) : List Sg := (kvGet st.nodeDeps k).getD []

/-- one round of the search: the targets of the edges that leave a node seen so far -/
def reachStep (edges : List (Sg × Sg)) (seen : List Sg) : List Sg :=
  edges.foldl (fun acc e => if e.1 ∈ acc then addNew acc e.2 else acc) seen

def reachSet (edges : List (Sg × Sg)) : Nat → List Sg → List Sg
  | 0, seen => seen
  | n + 1, seen => reachSet edges n (reachStep edges seen)

/-- `reaches(start, target)`: the target can be reached from the start along the edges -/
def reaches (edges : List (Sg × Sg)) (start target : Sg) : Bool :=
  decide (target ∈ reachSet edges (edges.length + 1) [start])

def SSt.edgeKeys (st : SSt) : List (Sg × Sg) := st.deps.map Prod.fst ++ st.loadDeps.map Prod.fst

/-- nodes by hash, first position, last value (`dict([(n.node_hash, n) ...]).values()`) -/
def dedupNodes (ns : List GNode) : List GNode :=
  (ns.foldl (fun (acc : List (Sg × GNode)) n => kvSet acc n.sig n) []).map Prod.snd

def insertNode (n : GNode) : List GNode → List GNode
  | [] => [n]
  | m :: ms => if n.sig.interp < m.sig.interp then n :: m :: ms else m :: insertNode n ms

/-- `sorted(..., key=lambda n: n.node_hash)` (stable insertion sort on the real digests) -/
def sortNodes (ns : List GNode) : List GNode := ns.foldr insertNode []

/-- the body of the two nested loops over `start_nodes` × `l1` for one context-dependent call -/
def implicitEdges (subSet : List Sg) (startNodes l1 : List GNode) (st : SSt) : SSt :=
  startNodes.foldl (fun st n1 =>
    l1.foldl (fun (st : SSt) n2 =>
      let k1 := n1.sig
      let k2 := n2.sig
      let st := if (kvGet st.nodeDeps k1).isNone then { st with nodeDeps := kvSet st.nodeDeps k1 [] } else st
      let st := if (kvGet st.nodeDeps k2).isNone then { st with nodeDeps := kvSet st.nodeDeps k2 [] } else st
      if k1 ≠ k2 ∧ (kvGet st.deps (k1, k2)).isNone ∧ k2 ∉ st.depsOf k1 ∧ k1 ∉ st.depsOf k2 ∧ k1 ∉ subSet ∧ k2 ∉ subSet ∧
          reaches st.edgeKeys k2 k1 = false then
        { st with deps := kvSet st.deps (k1, k2) ⟨n1.path, n2.path, .implicit⟩,
                  nodeDeps := kvSet st.nodeDeps k2 (addAll (addNew (st.depsOf k2) k1) (st.depsOf k1)) }
      else st) st) st

/-- the loop over `sub_calls[1:]` -/
def siblingLoop (arity : String → Nat) (subSet : List Sg) :
    List (List GNode × FIS) → List GNode → SSt → SSt
  | [], _, st => st
  | (l1, fi) :: rest, startNodes, st =>
    if arity fi.name = 0 then siblingLoop arity subSet rest (startNodes ++ l1) st
    else siblingLoop arity subSet rest l1 (implicitEdges subSet startNodes l1 st)

mutual
/-- `traverse(fis_)`: the head nodes of the call, and the state afterwards -/
def traverse (arity : String → Nat) (st : SSt) : FIS → Except String (List GNode × SSt)
  | .mk _ sig sp subs loads =>
    match traverseL arity st subs with
    | .error e => .error e
    | .ok (calls, st) =>
      let subNodes := sortNodes (dedupNodes (calls.flatMap Prod.fst))
      let subSet := subNodes.foldl (fun acc n => addAll acc (st.depsOf n.sig)) []
      let st := match calls with
        | [] => st
        | (l0, _) :: rest => siblingLoop arity subSet rest l0 st
      match sp with
      | none => .ok (subNodes, st)
      | some p =>
        let res : GNode := ⟨p, sig⟩
        let st := { st with nodes := kvSet st.nodes sig res, allRefs := kvSet st.allRefs p sig }
        let subSet := addAll subSet (subNodes.map GNode.sig)
        let st := { st with nodeDeps := kvSet st.nodeDeps sig subSet }
        let st := subNodes.foldl (fun (st : SSt) n =>
          let k := (n.sig, sig)
          let st := match kvGet st.deps k with
            | some e => if e.ty = EdgeTy.direct then st else { st with deps := kvSet st.deps k ⟨n.path, p, .direct⟩ }
            | none => { st with deps := kvSet st.deps k ⟨n.path, p, .direct⟩ }
          { st with nodeDeps := kvSet st.nodeDeps sig (addAll (st.depsOf sig) (st.depsOf n.sig)) }) st
        let rec loadLoop (ls : List String) (st : SSt) : Except String SSt :=
          match ls with
          | [] => .ok st
          | q :: ls =>
            match kvGet st.allRefs q with
            | none => .error ("assertion: " ++ q)
            | some sig2 =>
              let st := if (kvGet st.nodes sig2).isNone then { st with nodes := kvSet st.nodes sig2 ⟨q, sig2⟩ } else st
              let k := (sig2, sig)
              let st := if (kvGet st.loadDeps k).isNone then { st with loadDeps := kvSet st.loadDeps k ⟨q, p, .indirect⟩ } else st
              loadLoop ls st
        match loadLoop (loads.map Prod.fst) st with
        | .error e => .error e
        | .ok st => .ok ([res], st)
def traverseL (arity : String → Nat) (st : SSt) : List FIS → Except String (List (List GNode × FIS) × SSt)
  | [] => .ok ([], st)
  | f :: fs =>
    match traverse arity st f with
    | .error e => .error e
    | .ok (l, st) =>
      match traverseL arity st fs with
      | .error e => .error e
      | .ok (rest, st) => .ok ((l, f) :: rest, st)
end

structure SGraph where
  nodes : List String
  edges : List GEdge

/-- `_structure(fis, indirect_refs)` -/
def structureM (arity : String → Nat) (refs : List (String × Sg)) (fis : FIS) : Except String SGraph :=
  match traverse arity { allRefs := refs } fis with
  | .error e => .error e
  | .ok (_, st) => .ok { nodes := st.nodes.map (fun kv => kv.2.path), edges := st.deps.map Prod.snd ++ st.loadDeps.map Prod.snd }

end Dds
