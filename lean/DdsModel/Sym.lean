import DdsModel.Sha256
/-!
# Symbolic digests (DESIGN §3.1)

`Sg` is a term algebra for the digests dds computes.

* `H parts` — `sha256` of the concatenation of the parts; a part is either literal bytes or the
  64-character hex text of another digest.
* `X pairs` — `dds_hash_commut` of two or more `(key, digest)` pairs (XOR of `sha256(key ++ digest)`),
  kept sorted by key. A single pair is `H [lit key, sg digest]` (that *is* what the code returns for
  one pair), the empty list is `none`.

Normal form of part lists: no empty `lit`, no two adjacent `lit`s (all constructors below respect it).
`interp` is the concrete reading used by the correspondence check; no theorem mentions it.
-/
namespace Dds

mutual
inductive Sg where
  | H (parts : List Part)
  | X (pairs : List (String × Sg))
inductive Part where
  | lit (bs : List UInt8)
  | sg (d : Sg)
end

mutual
def Sg.dec : (a b : Sg) → Decidable (a = b)
  | .H a, .H b => match Part.decL a b with
    | isTrue h => isTrue (by rw [h])
    | isFalse h => isFalse (by intro e; cases e; exact h rfl)
  | .X a, .X b => match Sg.decP a b with
    | isTrue h => isTrue (by rw [h])
    | isFalse h => isFalse (by intro e; cases e; exact h rfl)
  | .H _, .X _ => isFalse (by intro e; cases e)
  | .X _, .H _ => isFalse (by intro e; cases e)
def Part.dec : (a b : Part) → Decidable (a = b)
  | .lit a, .lit b => if h : a = b then isTrue (by rw [h]) else isFalse (by intro e; cases e; exact h rfl)
  | .sg a, .sg b => match Sg.dec a b with
    | isTrue h => isTrue (by rw [h])
    | isFalse h => isFalse (by intro e; cases e; exact h rfl)
  | .lit _, .sg _ => isFalse (by intro e; cases e)
  | .sg _, .lit _ => isFalse (by intro e; cases e)
def Part.decL : (a b : List Part) → Decidable (a = b)
  | [], [] => isTrue rfl
  | [], _ :: _ => isFalse (by intro e; cases e)
  | _ :: _, [] => isFalse (by intro e; cases e)
  | x :: xs, y :: ys => match Part.dec x y, Part.decL xs ys with
    | isTrue h1, isTrue h2 => isTrue (by rw [h1, h2])
    | isFalse h, _ => isFalse (by intro e; cases e; exact h rfl)
    | _, isFalse h => isFalse (by intro e; cases e; exact h rfl)
def Sg.decP : (a b : List (String × Sg)) → Decidable (a = b)
  | [], [] => isTrue rfl
  | [], _ :: _ => isFalse (by intro e; cases e)
  | _ :: _, [] => isFalse (by intro e; cases e)
  | (k, x) :: xs, (l, y) :: ys =>
    if hk : k = l then
      match Sg.dec x y, Sg.decP xs ys with
      | isTrue h1, isTrue h2 => isTrue (by rw [hk, h1, h2])
      | isFalse h, _ => isFalse (by intro e; cases e; exact h rfl)
      | _, isFalse h => isFalse (by intro e; cases e; exact h rfl)
    else isFalse (by intro e; cases e; exact hk rfl)
end
instance : DecidableEq Sg := Sg.dec
instance : DecidableEq Part := Part.dec

/-- UTF-8 bytes of a string. -/
def utf8 (s : String) : List UInt8 := s.toUTF8.data.toList

/-- literal bytes as a part list in normal form (no empty literal). -/
def litPart (bs : List UInt8) : List Part := if bs = [] then [] else [.lit bs]

/-- `"|".join(digests)` as a part list. -/
def joinSg : List Sg → List Part
  | [] => []
  | [d] => [.sg d]
  | d :: e :: ds => .sg d :: .lit (utf8 "|") :: joinSg (e :: ds)

/-- `_algo_str(s)` -/
def hStr (s : String) : Sg := .H (litPart (utf8 s))
/-- `_algo_bytes(b)` -/
def hBytes (bs : List UInt8) : Sg := .H (litPart bs)
/-- `_algo_str(d)` where `d` is the hex text of a digest -/
def hSg (d : Sg) : Sg := .H [.sg d]
/-- `_algo_str("|".join(ds))` -/
def hJoin (ds : List Sg) : Sg := .H (joinSg ds)
/-- `sha256(key ++ digest)`: the per-pair digest inside `dds_hash_commut` (keys are never empty). -/
def kvSg (k : String) (v : Sg) : Sg := .H [.lit (utf8 k), .sg v]

/-- insertion of a pair into a key-sorted list -/
def insertKey (p : String × Sg) : List (String × Sg) → List (String × Sg)
  | [] => [p]
  | q :: qs => if p.1 ≤ q.1 then p :: q :: qs else q :: insertKey p qs

def sortKeys : List (String × Sg) → List (String × Sg)
  | [] => []
  | p :: ps => insertKey p (sortKeys ps)

/-- `dds_hash_commut`: `none` on the empty list, the pair digest for one pair, the XOR term otherwise. -/
def hashCommut : List (String × Sg) → Option Sg
  | [] => none
  | [(k, v)] => some (kvSg k v)
  | ps => some (.X (sortKeys ps))

/-! ### Concrete interpretation (executable; outside every theorem) -/

mutual
def Sg.interp : Sg → String
  | .H ps => Sha256.hash (Part.interpL ps ByteArray.empty)
  | .X pairs => Sha256.natToHex (Sg.interpP pairs 0)
def Part.interpL : List Part → ByteArray → ByteArray
  | [], acc => acc
  | .lit bs :: ps, acc => Part.interpL ps (bs.foldl ByteArray.push acc)
  | .sg d :: ps, acc => Part.interpL ps (acc ++ (Sg.interp d).toUTF8)
def Sg.interpP : List (String × Sg) → Nat → Nat
  | [], acc => acc
  | (k, v) :: ps, acc =>
      Sg.interpP ps (acc ^^^ Sha256.hexToNat (Sha256.hash (k.toUTF8 ++ (Sg.interp v).toUTF8)))
end

end Dds
