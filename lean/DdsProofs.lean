import DdsProofs.Props.C05
import DdsProofs.Props.C13
import DdsProofs.Props.C14
import DdsProofs.Props.C11
import DdsProofs.Props.C12
