import DdsProofs.Hash
