import DdsProofs.Props.C05
