import DdsProofs.Cone
/-!
# An accepted evaluation has no cycle and no nested `eval` (C11)

`CallPath W fn p`: `p` is a list of function names, each called / named / kept / evaluated by the previous one,
starting from the body of `fn`. `accepted_paths`: if the analysis of `fn` succeeds, then on every call path from `fn`
no function occurs twice, none is already on the call stack, and no function on it contains a `dds.eval`.
Contrapositive: every program with a reachable call cycle (of any length, through calls, references, keeps, data
functions) and every nested `eval` at any depth is rejected by the analysis — before any user code runs
(`C01.rejected_runs_nothing`).
-/
namespace Dds
open List

inductive CallPath (W : World) : Fn → List String → Prop
  | nil (fn : Fn) : CallPath W fn []
  | cons (fn : Fn) (it : Item) (f : String) (g : Fn) (rest : List String) :
      it ∈ fn.items → it.calleeName = some f → W.find f = some g → CallPath W g rest → CallPath W fn (f :: rest)

/-- the callee `f` has been analysed successfully from this body -/
def Analysed (W : World) (rec : Analyse) (stack : List String) (f : String) : Prop :=
  ∃ g refs c r, W.find f = some g ∧ f ∉ stack ∧ rec refs (stack ++ [f]) g c = .ok r

theorem CallStep.analysed {m : Nat} {W : World} {rec : Analyse} {fn : Fn} {isig : Sg} {stack : List String} {st : VisitSt}
    {f : String} {args : List AstArg} {kwargs : List (String × AstArg)} {line : Nat} {g : Fn} {c : Option Sg}
    {named : List (String × Option Sg)} {fis : FIS} {rf : Refs}
    (h : CallStep m W rec fn isig stack st f args kwargs line g c named fis rf) : Analysed W rec stack f :=
  ⟨g, st.refs, ⟨named, c⟩, (fis, rf), h.find, h.fresh, h.sub⟩

theorem visitItem_analysed {m : Nat} {W : World} {rec : Analyse} {fn : Fn} {isig : Sg} {stack : List String}
    {st st' : VisitSt} {it : Item} (h : visitItem m W rec fn isig stack st it = .ok st')
    (hinv : ∀ f ∈ st.seen, Analysed W rec stack f) :
    ¬ it.isEval ∧ (∀ f, it.calleeName = some f → Analysed W rec stack f) ∧ (∀ f ∈ st'.seen, Analysed W rec stack f) := by
  cases it with
  | call f l =>
    obtain ⟨g, c, named, fis, rf, hc, rfl⟩ := plain_inv (by simpa [visitItem] using h)
    refine ⟨by simp [Item.isEval], ?_, hinv⟩
    intro f' hf'; simp only [Item.calleeName, Option.some.injEq] at hf'; subst hf'; exact hc.analysed
  | callArgs f a k ra rk l =>
    obtain ⟨g, c, named, fis, rf, hc, rfl⟩ := plain_inv (by simpa [visitItem] using h)
    refine ⟨by simp [Item.isEval], ?_, hinv⟩
    intro f' hf'; simp only [Item.calleeName, Option.some.injEq] at hf'; subst hf'; exact hc.analysed
  | keep path f a k ra rk l =>
    obtain ⟨g, c, named, fis, rf, hc, _, rfl⟩ := keep_inv h
    refine ⟨by simp [Item.isEval], ?_, hinv⟩
    intro f' hf'; simp only [Item.calleeName, Option.some.injEq] at hf'; subst hf'; exact hc.analysed
  | ref f l =>
    rcases ref_inv h with ⟨hin, rfl⟩ | ⟨_, g, c, named, fis, rf, hc, rfl⟩
    · refine ⟨by simp [Item.isEval], ?_, hinv⟩
      intro f' hf'; simp only [Item.calleeName, Option.some.injEq] at hf'; subst hf'; exact hinv _ hin
    · refine ⟨by simp [Item.isEval], ?_, ?_⟩
      · intro f' hf'; simp only [Item.calleeName, Option.some.injEq] at hf'; subst hf'; exact hc.analysed
      · intro f' hf'
        rcases mem_cons.mp hf' with rfl | hf'
        · exact hc.analysed
        · exact hinv _ hf'
  | load path l =>
    unfold visitItem at h
    by_cases hp : pathAbsolute path = true
    · simp only [hp, Bool.not_true, Bool.false_eq_true, if_false, Except.ok.injEq] at h
      subst h
      exact ⟨by simp [Item.isEval], by intro f hf; simp [Item.calleeName] at hf, hinv⟩
    · simp [hp] at h
  | evalCall f l => simp [visitItem] at h

theorem visitItems_analysed {m : Nat} {W : World} {rec : Analyse} {fn : Fn} {isig : Sg} {stack : List String} :
    ∀ {its : List Item} {st st' : VisitSt}, visitItems m W rec fn isig stack st its = .ok st' →
      (∀ f ∈ st.seen, Analysed W rec stack f) →
      ∀ it ∈ its, ¬ it.isEval ∧ ∀ f, it.calleeName = some f → Analysed W rec stack f
  | [], _, _, _, _, it, hit => absurd hit (by simp)
  | a :: its, st, st', h, hinv, it, hit => by
    obtain ⟨t, h1, h2⟩ := visitItems_cons_inv h
    obtain ⟨e1, e2, e3⟩ := visitItem_analysed h1 hinv
    rcases mem_cons.mp hit with rfl | hit
    · exact ⟨e1, e2⟩
    · exact visitItems_analysed h2 e3 it hit

/-- **an accepted evaluation has no cycle and no nested eval** -/
theorem accepted_paths {m : Nat} {W : World} : ∀ (fuel : Nat) {refs : Refs} {stack : List String} {fn : Fn} {ctx : ArgCtx}
    {r : FIS × Refs}, analyse m W fuel refs stack fn ctx = .ok r →
    (∀ it ∈ fn.items, ¬ it.isEval) ∧
    ∀ p, CallPath W fn p → p.Nodup ∧ (∀ n ∈ p, n ∉ stack) ∧ (∀ n ∈ p, ∀ g, W.find n = some g → ∀ it ∈ g.items, ¬ it.isEval)
  | 0, _, _, _, _, _, h => absurd h analyse_zero
  | fuel + 1, refs, stack, fn, ctx, (fis, r'), h => by
    obtain ⟨ev, io, sv, b, d, ret, a⟩ := analyse_inv h
    have hall := visitItems_analysed a.hvisit (fun f hf => absurd hf (by simp))
    refine ⟨fun it hit => (hall it hit).1, ?_⟩
    intro p hp
    cases hp with
    | nil => exact ⟨nodup_nil, fun n hn => absurd hn (by simp), fun n hn => absurd hn (by simp)⟩
    | cons _ it f g rest hit hcal hfind hrest =>
      obtain ⟨g', refs', c, r2, hf', hfresh, hsub⟩ := (hall it hit).2 f hcal
      rw [hfind] at hf'
      cases hf'
      obtain ⟨k0, k⟩ := accepted_paths fuel hsub
      obtain ⟨k1, k2, k3⟩ := k rest hrest
      refine ⟨?_, ?_, ?_⟩
      · rw [nodup_cons]
        exact ⟨fun hin => k2 f hin (by simp), k1⟩
      · intro n hn
        rcases mem_cons.mp hn with rfl | hn
        · exact hfresh
        · exact fun hs => k2 n hn (mem_append_left _ hs)
      · intro n hn g2 hg2
        rcases mem_cons.mp hn with rfl | hn
        · rw [hfind] at hg2; cases hg2; exact k0
        · exact k3 n hn g2 hg2

end Dds
