import DdsModel.Eval
import DdsProofs.Hash
import DdsProofs.Args
/-!
# Inversion lemmas for the analysis (`visitItem`, `visitItems`, `analyse`)

What a successful analysis step must have computed. The proofs of `SigSound` and `Memo` only use these
lemmas (never the `do` blocks of the definitions).
-/
namespace Dds
open List

theorem liftA_ok {α} {x : Except ArgErr α} {a : α} (h : liftA x = .ok a) : x = .ok a := by
  cases x with
  | ok b => simpa [liftA] using h
  | error e => simp [liftA] at h

theorem liftH_ok {α} {x : Except HashErr α} {a : α} (h : liftH x = .ok a) : x = .ok a := by
  cases x with
  | ok b => simpa [liftH] using h
  | error e => simp [liftH] at h

theorem liftS_ok {α} {x : Except SigErr α} {a : α} (h : liftS x = .ok a) : x = .ok a := by
  cases x with
  | ok b => simpa [liftS] using h
  | error e => simp [liftS] at h

/-- a successful call-like step of the visitor: what was computed -/
structure CallStep (m : Nat) (W : World) (rec : Analyse) (fn : Fn) (inputSig : Sg) (stack : List String)
    (st : VisitSt) (f : String) (args : List AstArg) (kwargs : List (String × AstArg)) (line : Nat)
    (g : Fn) (ctx : Option Sg) (named : List (String × Option Sg)) (fis : FIS) (refs : Refs) : Prop where
  site : siteCtx m fn inputSig st.inters line st.refs st.loads = .ok ctx
  find : W.find f = some g
  fresh : f ∉ stack
  hnamed : getArgCtxAst m g.params args kwargs = .ok named
  sub : rec st.refs (stack ++ [f]) g ⟨named, ctx⟩ = .ok (fis, refs)

theorem plain_inv {m : Nat} {W : World} {rec : Analyse} {fn : Fn} {inputSig : Sg} {stack : List String}
    {st st' : VisitSt} {f : String} {args : List AstArg} {kwargs : List (String × AstArg)} {line : Nat}
    (h : visitItem.plain m W rec fn inputSig stack st f args kwargs line = .ok st') :
    ∃ g ctx named fis refs, CallStep m W rec fn inputSig stack st f args kwargs line g ctx named fis refs ∧
      st' = { st with inters := st.inters ++ [fis], refs := refs } := by
  unfold visitItem.plain at h
  obtain ⟨ctx, hsite, h⟩ := bind_ok h
  cases hf : W.find f with
  | none => simp [hf] at h
  | some g =>
    simp only [hf] at h
    by_cases hs : f ∈ stack
    · simp [hs] at h
    · simp only [hs, if_false] at h
      obtain ⟨named, hn, h⟩ := bind_ok h
      obtain ⟨⟨fis, refs⟩, hr, h⟩ := bind_ok h
      simp only [pure, Except.pure, Except.ok.injEq] at h
      exact ⟨g, ctx, named, fis, refs, ⟨hsite, hf, hs, liftA_ok hn, hr⟩, h.symm⟩

theorem keep_inv {m : Nat} {W : World} {rec : Analyse} {fn : Fn} {inputSig : Sg} {stack : List String}
    {st st' : VisitSt} {path f : String} {args : List AstArg} {kwargs : List (String × AstArg)}
    {rtA : List (Option RtExpr)} {rtK : List (String × Option RtExpr)} {line : Nat}
    (h : visitItem m W rec fn inputSig stack st (.keep path f args kwargs rtA rtK line) = .ok st') :
    ∃ g ctx named fis refs, CallStep m W rec fn inputSig stack st f args kwargs line g ctx named fis refs ∧
      pathAbsolute path = true ∧
      st' = { st with inters := st.inters ++ [fis.withPath path], refs := aset refs path fis.retSig } := by
  unfold visitItem at h
  obtain ⟨ctx, hsite, h⟩ := bind_ok h
  by_cases hp : pathAbsolute path = true
  · simp only [hp, Bool.not_true, Bool.false_eq_true, if_false] at h
    cases hf : W.find f with
    | none => simp [hf] at h
    | some g =>
      simp only [hf] at h
      by_cases hs : f ∈ stack
      · simp [hs] at h
      · simp only [hs, if_false] at h
        obtain ⟨named, hn, h⟩ := bind_ok h
        obtain ⟨⟨fis, refs⟩, hr, h⟩ := bind_ok h
        simp only [pure, Except.pure, Except.ok.injEq] at h
        exact ⟨g, ctx, named, fis, refs, ⟨hsite, hf, hs, liftA_ok hn, hr⟩, hp, h.symm⟩
  · simp [hp] at h

/-- a successful analysis of one function: what was computed -/
structure AnalyseOk (m : Nat) (W : World) (fuel : Nat) (refs : Refs) (stack : List String) (fn : Fn) (argCtx : ArgCtx)
    (fis : FIS) (refs' : Refs) (extVars : List (String × Sg)) (inputO : Option Sg) (st : VisitSt) (bodySig : Sg)
    (deps : List (String × Sg)) (ret : Sg) : Prop where
  hvars : hashVars m fn.vars = .ok extVars
  hinput : buildReturnSig none argCtx [] [] fn.exts extVars = .ok inputO
  hvisit : visitItems m W (analyse m W fuel) fn (inputO.getD (hJoin [])) stack { refs := refs } fn.items = .ok st
  hbody : hashLines m fn.lines = .ok bodySig
  hdeps : lookupRefs st.refs (dedupStr st.loads) = .ok deps
  hret : buildReturnSig (some bodySig) argCtx deps (st.inters.map FIS.retSig) fn.exts extVars = .ok (some ret)
  hfis : fis = FIS.mk fn.name ret fn.storePath st.inters deps
  hrefs : refs' = (match fn.storePath with | some p => aset st.refs p ret | none => st.refs)

theorem analyse_inv {m : Nat} {W : World} {fuel : Nat} {refs : Refs} {stack : List String} {fn : Fn} {argCtx : ArgCtx}
    {fis : FIS} {refs' : Refs} (h : analyse m W (fuel + 1) refs stack fn argCtx = .ok (fis, refs')) :
    ∃ extVars inputO st bodySig deps ret,
      AnalyseOk m W fuel refs stack fn argCtx fis refs' extVars inputO st bodySig deps ret := by
  unfold analyse at h
  obtain ⟨extVars, h1, h⟩ := bind_ok h
  obtain ⟨inputO, h2, h⟩ := bind_ok h
  obtain ⟨st, h3, h⟩ := bind_ok h
  obtain ⟨bodySig, h4, h⟩ := bind_ok h
  obtain ⟨deps, h5, h⟩ := bind_ok h
  obtain ⟨retO, h6, h⟩ := bind_ok h
  cases retO with
  | none => simp at h
  | some ret =>
    simp only [pure, Except.pure, Except.ok.injEq, Prod.mk.injEq] at h
    exact ⟨extVars, inputO, st, bodySig, deps, ret, ⟨h1, liftS_ok h2, h3, h4, h5, liftS_ok h6, h.1.symm, h.2.symm⟩⟩

theorem analyse_zero {m : Nat} {W : World} {refs : Refs} {stack : List String} {fn : Fn} {argCtx : ArgCtx}
    {r : FIS × Refs} : analyse m W 0 refs stack fn argCtx ≠ .ok r := by
  simp [analyse]

theorem AnalyseOk.retSig {m W fuel refs stack fn argCtx fis refs' extVars inputO st bodySig deps ret}
    (h : AnalyseOk m W fuel refs stack fn argCtx fis refs' extVars inputO st bodySig deps ret) :
    fis.retSig = ret := by rw [h.hfis]; rfl

end Dds
