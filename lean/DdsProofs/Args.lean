import DdsProofs.SymLemmas
import DdsModel.Sig
/-! Lemmas for C13: both routes of the code compute `hashBinding ∘ bind`. -/
namespace Dds
open List

def hashSome (m : Nat) (v : PyVal) : Except ArgErr (Option Sg) := do
  let h ← liftHash (ddsHash m v); pure (some h)

theorem argDirect_eq (m : Nat) (args : List PyVal) (kw : List (String × PyVal)) (idx : Nat) (p : Param)
    (hp : p.kind = .posOrKw) :
    argDirect m args kw idx p =
      (match bindOne args kw idx p with
       | some v => hashSome m v
       | none => .error .missingArg) := by
  unfold argDirect bindOne hashSome
  simp only [hp, ne_eq, not_true_eq_false, false_and, if_false]
  cases args[idx]? with
  | some v => rfl
  | none =>
    cases lookupKw p.name kw with
    | some v => rfl
    | none => cases p.default with
      | some d => rfl
      | none => simp

theorem getArgCtxFrom_eq (m : Nat) (args : List PyVal) (kw : List (String × PyVal)) :
    ∀ (ps : List Param) (idx : Nat), plainParams ps = true →
      getArgCtxFrom m args kw idx ps = hashBinding m (bindFrom args kw idx ps)
  | [], _, _ => rfl
  | p :: ps, idx, h => by
    simp only [plainParams, all_cons, Bool.and_eq_true, decide_eq_true_eq] at h
    have ih := getArgCtxFrom_eq m args kw ps (idx + 1) (by simpa [plainParams] using h.2)
    simp only [getArgCtxFrom, bindFrom, argDirect_eq m args kw idx p h.1, ih]
    cases bindOne args kw idx p with
    | none => rfl
    | some v =>
      simp only [hashBinding, hashSome]
      cases liftHash (ddsHash m v) with
      | error e => rfl
      | ok hv => rfl

theorem getArgCtx_eq (m : Nat) (ps : List Param) (args : List PyVal) (kw : List (String × PyVal))
    (h : plainParams ps = true) : getArgCtx m ps args kw = hashBinding m (bind ps args kw) :=
  getArgCtxFrom_eq m args kw ps 0 h

theorem lookupKw_map {α β} (f : α → β) (n : String) : ∀ (l : List (String × α)),
    lookupKw n (l.map (fun kv => (kv.1, f kv.2))) = (lookupKw n l).map f
  | [] => rfl
  | (k, v) :: l => by
    simp only [map_cons, lookupKw]
    split
    · rfl
    · exact lookupKw_map f n l

def constArgs (args : List PyVal) : List AstArg := args.map .const
def constKw (kw : List (String × PyVal)) : List (String × AstArg) := kw.map (fun kv => (kv.1, .const kv.2))

theorem argAst_const_eq (m : Nat) (args : List PyVal) (kw : List (String × PyVal)) (idx : Nat) (p : Param)
    (hp : p.kind = .posOrKw) :
    argAst m (constArgs args) (constKw kw) idx p =
      (match bindOne args kw idx p with
       | some v => hashSome m v
       | none => .ok none) := by
  unfold argAst bindOne hashSome constArgs constKw
  simp only [hp, ne_eq, not_true_eq_false, false_and, if_false, getElem?_map, lookupKw_map]
  cases args[idx]? with
  | some v => rfl
  | none =>
    cases lookupKw p.name kw with
    | some v => rfl
    | none => cases p.default with
      | some d => rfl
      | none => rfl

theorem getArgCtxAstFrom_const (m : Nat) (args : List PyVal) (kw : List (String × PyVal)) :
    ∀ (ps : List Param) (idx : Nat) (c : List (String × Option Sg)), plainParams ps = true →
      getArgCtxFrom m args kw idx ps = .ok c →
      getArgCtxAstFrom m (constArgs args) (constKw kw) idx ps = .ok c
  | [], _, c, _, h => by simpa [getArgCtxFrom, getArgCtxAstFrom] using h
  | p :: ps, idx, c, hp, h => by
    simp only [plainParams, all_cons, Bool.and_eq_true, decide_eq_true_eq] at hp
    simp only [getArgCtxFrom, argDirect_eq m args kw idx p hp.1] at h
    simp only [getArgCtxAstFrom, argAst_const_eq m args kw idx p hp.1]
    cases hb : bindOne args kw idx p with
    | none =>
      rw [hb] at h
      exact absurd h (by intro h'; cases h')
    | some v =>
      rw [hb] at h
      obtain ⟨hv, e1, h⟩ := bind_ok h
      obtain ⟨rest, e2, h⟩ := bind_ok h
      have ih := getArgCtxAstFrom_const m args kw ps (idx + 1) rest (by simpa [plainParams] using hp.2) e2
      show (hashSome m v >>= fun h => getArgCtxAstFrom m (constArgs args) (constKw kw) (idx + 1) ps >>= fun rest => pure ((p.name, h) :: rest)) = .ok c
      have e1' : hashSome m v = .ok hv := e1
      rw [e1', ih]
      exact h

/-- canonical form of a binding: what its signature can see -/
def canonBinding : List (String × Option PyVal) → List (String × Option CVal)
  | [] => []
  | (n, v) :: bs => (n, v.map canonKF) :: canonBinding bs

theorem liftHash_ok {α} {x : Except HashErr α} {a : α} (h : liftHash x = .ok a) : x = .ok a := by
  cases x <;> simp_all [liftHash]

theorem hashBinding_inj (m : Nat) : ∀ (b₁ b₂ : List (String × Option PyVal)) (c : List (String × Option Sg)),
    hashBinding m b₁ = .ok c → hashBinding m b₂ = .ok c → canonBinding b₁ = canonBinding b₂
  | [], [], _, _, _ => rfl
  | [], (n, some v) :: bs, c, h1, h2 => by
    simp only [hashBinding, pure, Except.pure, Except.ok.injEq] at h1
    obtain ⟨_, _, h2⟩ := bind_ok h2
    obtain ⟨_, _, h2⟩ := bind_ok h2
    simp [pure, Except.pure, ← h1] at h2
  | [], (n, none) :: bs, c, h1, h2 => by simp [hashBinding] at h2
  | (n, some v) :: bs, [], c, h1, h2 => by
    simp only [hashBinding, pure, Except.pure, Except.ok.injEq] at h2
    obtain ⟨_, _, h1⟩ := bind_ok h1
    obtain ⟨_, _, h1⟩ := bind_ok h1
    simp [pure, Except.pure, ← h2] at h1
  | (n, none) :: bs, _, c, h1, h2 => by simp [hashBinding] at h1
  | (n, some v) :: bs, (n', none) :: bs', c, h1, h2 => by simp [hashBinding] at h2
  | (n, some v) :: bs, (n', some v') :: bs', c, h1, h2 => by
    obtain ⟨hv, e1, h1⟩ := bind_ok h1
    obtain ⟨r1, e1', h1⟩ := bind_ok h1
    obtain ⟨hv', e2, h2⟩ := bind_ok h2
    obtain ⟨r2, e2', h2⟩ := bind_ok h2
    simp only [pure, Except.pure, Except.ok.injEq] at h1 h2
    rw [← h1] at h2
    simp only [cons.injEq, Prod.mk.injEq, Option.some.injEq] at h2
    obtain ⟨⟨hn, hh⟩, hr⟩ := h2
    subst hn hh hr
    have := inj_canon m v' v hv' (liftHash_ok e2) (liftHash_ok e1)
    simp only [canonBinding, Option.map_some, this, hashBinding_inj m bs bs' _ e1' e2']
where
  inj_canon (m : Nat) (a b : PyVal) (h : Sg) (ea : ddsHash m a = .ok h) (eb : ddsHash m b = .ok h) :
      canonKF a = canonKF b := by
    have ha := ddsHash_eq_hashC m a h ea
    have hb := ddsHash_eq_hashC m b h eb
    exact hashC_inj _ _ (canonKF_wf a) (canonKF_wf b) (ha ▸ hb)

/-! ### the `arg_` pairs inside the signature -/

theorem perm_same_keys_eq : ∀ (l₁ l₂ : List (String × Sg)), l₁.map Prod.fst = l₂.map Prod.fst →
    KeysNodup l₁ → l₁ ~ l₂ → l₁ = l₂
  | [], [], _, _, _ => rfl
  | [], _ :: _, h, _, _ => by simp at h
  | _ :: _, [], h, _, _ => by simp at h
  | (k, v) :: t₁, (k', v') :: t₂, hk, hn, hp => by
    simp only [map_cons, cons.injEq] at hk
    obtain ⟨hk1, hk2⟩ := hk
    subst hk1
    have hmem : (k, v) ∈ (k, v') :: t₂ := hp.subset mem_cons_self
    have hn' := hn
    unfold KeysNodup at hn'
    simp only [map_cons, nodup_cons, mem_map, not_exists, not_and] at hn'
    have hv : v = v' := by
      rcases mem_cons.mp hmem with h | h
      · exact (Prod.mk.injEq _ _ _ _ ▸ h).2
      · exfalso
        have : k ∈ t₂.map Prod.fst := mem_map.mpr ⟨_, h, rfl⟩
        rw [← hk2] at this
        obtain ⟨x, hx, hx2⟩ := mem_map.mp this
        exact hn'.1 x hx hx2
    subst hv
    rw [perm_same_keys_eq t₁ t₂ hk2 hn'.2 (perm_cons _ |>.mp hp)]

end Dds

namespace Dds
open List

theorem ok_bind {ε α β} (a : α) (f : α → Except ε β) : (Except.ok a >>= f) = f a := rfl

theorem allSome_map_some (c : List (String × Sg)) :
    allSome (c.map (fun p => (p.1, some p.2))) = some c := by
  induction c with
  | nil => rfl
  | cons p c ih => obtain ⟨n, h⟩ := p; simp [allSome, ih]

theorem argPairs_known (c : List (String × Sg)) (i : Option Sg) :
    argPairs ⟨c.map (fun p => (p.1, some p.2)), i⟩ = .ok (c.map (fun p => ("arg_" ++ p.1, p.2))) := by
  simp [argPairs, allSome_map_some]

theorem buildReturnSig_args_inj (body : Option Sg) (deps : List (String × Sg)) (subs : List Sg)
    (ed : List (String × String)) (ev : List (String × Sg))
    (c₁ c₂ : List (String × Sg)) (i₁ i₂ : Option Sg)
    (hnames : c₁.map Prod.fst = c₂.map Prod.fst) (hnd : (c₁.map Prod.fst).Nodup)
    (h : buildReturnSig body ⟨c₁.map (fun p => (p.1, some p.2)), i₁⟩ deps subs ed ev =
         buildReturnSig body ⟨c₂.map (fun p => (p.1, some p.2)), i₂⟩ deps subs ed ev) :
    c₁ = c₂ := by
  unfold buildReturnSig at h
  rw [argPairs_known, argPairs_known] at h
  simp only [ok_bind, pure, Except.pure, Except.ok.injEq] at h
  have hp := hashCommut_inj h
  simp only [append_assoc] at hp
  have hp2 := (perm_append_left_iff _).mp hp
  have hp3 := (perm_append_right_iff _).mp hp2
  -- the two `arg_` lists have the same keys in the same order, without repetition
  have hk : (c₁.map (fun p => ("arg_" ++ p.1, p.2))).map Prod.fst = (c₂.map (fun p => ("arg_" ++ p.1, p.2))).map Prod.fst := by
    have : ∀ c : List (String × Sg), (c.map (fun p => ("arg_" ++ p.1, p.2))).map Prod.fst = (c.map Prod.fst).map ("arg_" ++ ·) := by
      intro c; simp [map_map, Function.comp_def]
    rw [this, this, hnames]
  have hn : KeysNodup (c₁.map (fun p => ("arg_" ++ p.1, p.2))) := by
    unfold KeysNodup
    have : (c₁.map (fun p => ("arg_" ++ p.1, p.2))).map Prod.fst = (c₁.map Prod.fst).map ("arg_" ++ ·) := by
      simp [map_map, Function.comp_def]
    rw [this]
    exact Pairwise.map _ (fun a b hab h' => hab ((String.append_right_inj _).mp h')) hnd
  have heq := perm_same_keys_eq _ _ hk hn hp3
  -- undo the renaming
  have hinj : Function.Injective (fun p : String × Sg => ("arg_" ++ p.1, p.2)) := by
    intro a b hab
    simp only [Prod.mk.injEq] at hab
    exact Prod.ext ((String.append_right_inj _).mp hab.1) hab.2
  exact (map_inj_right hinj).mp heq

end Dds
