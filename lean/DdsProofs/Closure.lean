import DdsProofs.Memo
import DdsProofs.Cone
/-!
# The blob set is closed under kept sub-calls (C04 value clause, C02 re-evaluation)

`Covered bl f`: every kept call of the interaction tree `f` (the node itself and everything below it) has a blob under
its signature. `Closed S`: for every blob of the store, the kept calls below *any* analysed call with that signature
are covered too. A successful run under dds on a real (non-noop) store covers the tree it ran and keeps the store
closed (`cov_fn`); consequently after a successful evaluation every requested path has its blob (`C04`), and a
re-evaluation finds every kept call in the store (`C02`).
-/
namespace Dds
open List

mutual
def Covered (bl : List (Sg × RVal)) : FIS → Prop
  | .mk _ s p subs _ => (p ≠ none → (sgGet bl s).isSome = true) ∧ CoveredL bl subs
def CoveredL (bl : List (Sg × RVal)) : List FIS → Prop
  | [] => True
  | f :: fs => Covered bl f ∧ CoveredL bl fs
end

mutual
theorem Covered.mono {bl bl' : List (Sg × RVal)} (h : ∀ k, (sgGet bl k).isSome = true → (sgGet bl' k).isSome = true) :
    ∀ (f : FIS), Covered bl f → Covered bl' f
  | .mk _ s p subs _, hc => by
    simp only [Covered] at hc ⊢
    exact ⟨fun hp => h s (hc.1 hp), CoveredL.mono h subs hc.2⟩
theorem CoveredL.mono {bl bl' : List (Sg × RVal)} (h : ∀ k, (sgGet bl k).isSome = true → (sgGet bl' k).isSome = true) :
    ∀ (fs : List FIS), CoveredL bl fs → CoveredL bl' fs
  | [], _ => trivial
  | f :: fs, hc => by
    simp only [CoveredL] at hc ⊢
    exact ⟨Covered.mono h f hc.1, CoveredL.mono h fs hc.2⟩
end

mutual
theorem Covered.shape {bl : List (Sg × RVal)} : ∀ (f g : FIS), SameShape f g → Covered bl f → Covered bl g
  | .mk _ s1 p1 subs1 _, .mk _ s2 p2 subs2 _, hs, hc => by
    simp only [SameShape] at hs
    simp only [Covered] at hc ⊢
    obtain ⟨rfl, rfl, _, h3⟩ := hs
    exact ⟨hc.1, CoveredL.shape subs1 subs2 h3 hc.2⟩
theorem CoveredL.shape {bl : List (Sg × RVal)} : ∀ (fs gs : List FIS), SameShapeL fs gs → CoveredL bl fs → CoveredL bl gs
  | [], [], _, _ => trivial
  | f :: fs, g :: gs, hs, hc => by
    simp only [SameShapeL] at hs
    simp only [CoveredL] at hc ⊢
    exact ⟨Covered.shape f g hs.1 hc.1, CoveredL.shape fs gs hs.2 hc.2⟩
  | [], _ :: _, hs, _ => by simp [SameShapeL] at hs
  | _ :: _, [], hs, _ => by simp [SameShapeL] at hs
end

theorem CoveredL.append {bl : List (Sg × RVal)} : ∀ (fs gs : List FIS), CoveredL bl fs → CoveredL bl gs → CoveredL bl (fs ++ gs)
  | [], _, _, h => h
  | f :: fs, gs, h1, h2 => by
    simp only [cons_append, CoveredL] at h1 ⊢
    exact ⟨h1.1, CoveredL.append fs gs h1.2 h2⟩

/-! ## Closed stores -/

def BlobGrows (S S' : PStore) : Prop := ∀ k, (sgGet S.blobs k).isSome = true → (sgGet S'.blobs k).isSome = true

theorem BlobGrows.refl (S : PStore) : BlobGrows S S := fun _ h => h
theorem BlobGrows.trans {A B C : PStore} (h1 : BlobGrows A B) (h2 : BlobGrows B C) : BlobGrows A C := fun k h => h2 k (h1 k h)

theorem grows_storeBlob (S : PStore) (k : Sg) (v : RVal) : BlobGrows S (S.storeBlob k v) := by
  intro k' h
  unfold PStore.storeBlob
  by_cases hn : S.noop = true
  · simp only [hn, if_true]; exact h
  · simp only [hn, Bool.false_eq_true, if_false]
    by_cases hk : k' = k
    · subst hk; simp [sgGet]
    · have : sgGet ((k, v) :: S.blobs.filter (fun kv => kv.1 ≠ k)) k' = sgGet (S.blobs.filter (fun kv => kv.1 ≠ k)) k' := by
        simp [sgGet, Ne.symm hk]
      rw [this, sgGet_filter_ne _ _ _ hk]; exact h

/-- for every blob, the kept calls below any analysed call with its signature have their blobs too -/
def Closed (U : Universe) (m : Nat) (S : PStore) : Prop :=
  ∀ k, (sgGet S.blobs k).isSome = true →
    ∀ (W : World) (fn : Fn) (ctx : ArgCtx) (fuel : Nat) (refs : Refs) (stack : List String) (fis : FIS) (r : Refs),
      U.world W → U.fns fn → analyse m W fuel refs stack fn ctx = .ok (fis, r) → fis.retSig = k →
      CoveredL S.blobs fis.subs

theorem closed_empty (U : Universe) (m : Nat) (noop : Bool) : Closed U m { noop := noop } := by
  intro k h; simp [sgGet] at h

/-- storing the result of an analysed call whose kept sub-calls are covered keeps the store closed -/
theorem Closed.storeBlob {U : Universe} {m : Nat} {S : PStore} (hS : Closed U m S)
    {W : World} {fn : Fn} {ctx : ArgCtx} {fuel : Nat} {refs : Refs} {stack : List String} {fis : FIS} {r : Refs}
    (hW : U.world W) (hU : U.fns fn) (ha : analyse m W fuel refs stack fn ctx = .ok (fis, r))
    (hc : CoveredL S.blobs fis.subs) (v : RVal) : Closed U m (S.storeBlob fis.retSig v) := by
  intro k hk W' fn' ctx' fuel' refs' stack' fis' r' hW' hU' ha' hs'
  have hg := grows_storeBlob S fis.retSig v
  by_cases hkk : k = fis.retSig
  · -- any analysed call with this signature has the shape of the one just run
    have hsh := sig_shape U m fuel fuel' W W' _ _ _ _ fn fn' _ _ fis fis' _ _ hW hW' hU hU' ha ha' (by rw [hs', hkk])
    obtain ⟨n1, s1, p1, subs1, l1⟩ := fis
    obtain ⟨n2, s2, p2, subs2, l2⟩ := fis'
    simp only [SameShape] at hsh
    exact CoveredL.mono hg _ (CoveredL.shape subs1 subs2 hsh.2.2.2 hc)
  · have hold : (sgGet S.blobs k).isSome = true := by
      by_cases hn : S.noop = true
      · simpa [PStore.storeBlob, hn] using hk
      · cases hg' : sgGet (S.storeBlob fis.retSig v).blobs k with
        | none => simp [hg'] at hk
        | some w =>
          rcases sgGet_storeBlob S _ _ _ _ hg' with ⟨e, _⟩ | h
          · exact absurd e hkk
          · simp [h]
    exact CoveredL.mono hg _ (hS k hold W' fn' ctx' fuel' refs' stack' fis' r' hW' hU' ha' hs')

/-! ## A successful run covers its tree -/

theorem covered_iff (bl : List (Sg × RVal)) (f : FIS) :
    Covered bl f ↔ (f.storePath ≠ none → (sgGet bl f.retSig).isSome = true) ∧ CoveredL bl f.subs := by
  obtain ⟨n, s, p, subs, l⟩ := f
  simp only [Covered, FIS.storePath, FIS.retSig, FIS.subs]

def CovFn (U : Universe) (m : Nat) (W : World) (paths : List (String × Sg)) (fuel : Nat) : Prop :=
  ∀ (fn : Fn) (ctx : ArgCtx) (env : Env) (refs : Refs) (stack : List String) (fis : FIS) (r : Refs) (st : XSt),
    U.fns fn → analyse m W fuel refs stack fn ctx = .ok (fis, r) → FIS.pathsOKL paths fis.subs →
    st.store.noop = false → Closed U m st.store →
    Closed U m (runFn W paths fuel st fn env).2.store ∧ BlobGrows st.store (runFn W paths fuel st fn env).2.store ∧
    (∀ v, (runFn W paths fuel st fn env).1 = .ok v → CoveredL (runFn W paths fuel st fn env).2.store.blobs fis.subs)

theorem cov_keep (U : Universe) {m : Nat} {W : World} {paths : List (String × Sg)} {fuel : Nat}
    (hIH : CovFn U m W paths fuel) (hW : U.world W)
    {g : Fn} {ctx : ArgCtx} {env' : Env} {refs : Refs} {stack : List String} {fis : FIS} {rf : Refs} {xst : XSt} {path : String}
    (hU : U.fns g) (ha : analyse m W fuel refs stack g ctx = .ok (fis, rf))
    (hkey : aget paths path = some fis.retSig) (hsubs : FIS.pathsOKL paths fis.subs)
    (hn : xst.store.noop = false) (hC : Closed U m xst.store) :
    Closed U m (keepExec paths (runFn W paths fuel) xst path g env').2.store ∧
    BlobGrows xst.store (keepExec paths (runFn W paths fuel) xst path g env').2.store ∧
    (∀ v, (keepExec paths (runFn W paths fuel) xst path g env').1 = .ok v →
      (sgGet (keepExec paths (runFn W paths fuel) xst path g env').2.store.blobs fis.retSig).isSome = true ∧
      CoveredL (keepExec paths (runFn W paths fuel) xst path g env').2.store.blobs fis.subs) := by
  unfold keepExec
  simp only [hkey]
  cases hb : sgGet xst.store.blobs fis.retSig with
  | some v =>
    simp only
    refine ⟨hC, BlobGrows.refl _, fun _ _ => ⟨by simp [hb], ?_⟩⟩
    exact hC fis.retSig (by simp [hb]) W g ctx fuel refs stack fis rf hW hU ha rfl
  | none =>
    simp only
    obtain ⟨h1, h2, h3⟩ := hIH g ctx env' refs stack fis rf xst hU ha hsubs hn hC
    have hno := runFn_noop W paths fuel xst g env'
    cases hr : runFn W paths fuel xst g env' with
    | mk res st' =>
      rw [hr] at h1 h2 h3 hno
      cases res with
      | error e => exact ⟨h1, h2, fun v hv => by cases hv⟩
      | ok v =>
        simp only at h1 h2 h3 hno ⊢
        have hcov := h3 v rfl
        have hn' : st'.store.noop = false := by rw [hno]; exact hn
        refine ⟨Closed.storeBlob h1 hW hU ha hcov v, BlobGrows.trans h2 (grows_storeBlob _ _ _), fun _ _ => ⟨?_, ?_⟩⟩
        · rw [sgGet_storeBlob_self _ _ _ hn']; rfl
        · exact CoveredL.mono (grows_storeBlob _ _ _) _ hcov

/-- the functions already referenced by name: analysed, their kept paths resolved -/
def SeenCov (m : Nat) (W : World) (paths : List (String × Sg)) (fuel : Nat) (seen : List String) : Prop :=
  ∀ f ∈ seen, ∃ (g : Fn) (ctx : ArgCtx) (fis : FIS) (rf refs0 : Refs) (stack0 : List String),
    W.find f = some g ∧ analyse m W fuel refs0 stack0 g ctx = .ok (fis, rf) ∧ FIS.pathsOK paths fis

/-- a call made while running: the store stays closed, grows, and on success the call's node is covered -/
theorem cov_call (U : Universe) {m : Nat} {W : World} {paths : List (String × Sg)} {fuel : Nat}
    (hIH : CovFn U m W paths fuel) (hW : U.world W)
    {f : String} {g : Fn} {ctx : ArgCtx} {refs : Refs} {stack : List String} {fis : FIS} {rf : Refs} {xst : XSt}
    (hfind : W.find f = some g) (ha : analyse m W fuel refs stack g ctx = .ok (fis, rf))
    (kp : Option String)
    (hkey : ∀ path, (kp = some path ∨ (kp = none ∧ g.storePath = some path)) → aget paths path = some fis.retSig)
    (hsubs : FIS.pathsOKL paths fis.subs) (hn : xst.store.noop = false) (hC : Closed U m xst.store)
    (pos : List RVal) (kw : List (String × RVal)) :
    Closed U m (runCall W paths (runFn W paths fuel) xst f pos kw kp).2.store ∧
    BlobGrows xst.store (runCall W paths (runFn W paths fuel) xst f pos kw kp).2.store ∧
    (∀ v, (runCall W paths (runFn W paths fuel) xst f pos kw kp).1 = .ok v →
      ((kp ≠ none ∨ g.storePath ≠ none) →
        (sgGet (runCall W paths (runFn W paths fuel) xst f pos kw kp).2.store.blobs fis.retSig).isSome = true) ∧
      CoveredL (runCall W paths (runFn W paths fuel) xst f pos kw kp).2.store.blobs fis.subs) := by
  have hU := U.find hW hfind
  simp only [runCall, hfind]
  cases hb : bindRun g.params pos kw 0 with
  | none => exact ⟨hC, BlobGrows.refl _, fun v hv => by cases hv⟩
  | some env' =>
    simp only
    cases kp with
    | some path =>
      obtain ⟨k1, k2, k3⟩ := cov_keep U hIH hW (env' := env') hU ha (hkey path (Or.inl rfl)) hsubs hn hC
      exact ⟨k1, k2, fun v hv => ⟨fun _ => (k3 v hv).1, (k3 v hv).2⟩⟩
    | none =>
      simp only [callExec]
      cases hp : g.storePath with
      | some path =>
        obtain ⟨k1, k2, k3⟩ := cov_keep U hIH hW (env' := env') hU ha (hkey path (Or.inr ⟨rfl, hp⟩)) hsubs hn hC
        exact ⟨k1, k2, fun v hv => ⟨fun _ => (k3 v hv).1, (k3 v hv).2⟩⟩
      | none =>
        obtain ⟨k1, k2, k3⟩ := hIH g ctx env' refs stack fis rf xst hU ha hsubs hn hC
        exact ⟨k1, k2, fun v hv => ⟨fun h => by rcases h with h | h <;> exact absurd rfl h, k3 v hv⟩⟩

theorem covered_node {bl : List (Sg × RVal)} {f : FIS} {sp : Option String}
    (hsp : f.storePath = sp) (h1 : sp ≠ none → (sgGet bl f.retSig).isSome = true) (h2 : CoveredL bl f.subs) : Covered bl f :=
  (covered_iff bl f).mpr ⟨fun h => h1 (hsp ▸ h), h2⟩

theorem cov_items (U : Universe) {m : Nat} {W : World} {paths : List (String × Sg)} {fuel : Nat}
    (hIH : CovFn U m W paths fuel) (hW : U.world W) (fn : Fn) (isig : Sg) (stack : List String) (env : Env) :
    ∀ (its : List Item), (∀ it ∈ its, ¬ it.isEval) → ∀ (s sfin : VisitSt) (results : List RVal) (xst : XSt),
      visitItems m W (analyse m W fuel) fn isig stack s its = .ok sfin →
      FIS.pathsOKL paths sfin.inters → SeenCov m W paths fuel s.seen →
      xst.store.noop = false → Closed U m xst.store → CoveredL xst.store.blobs s.inters →
      Closed U m (runItems W (some paths) (runFn W paths fuel) fn env xst results its).2.store ∧
      BlobGrows xst.store (runItems W (some paths) (runFn W paths fuel) fn env xst results its).2.store ∧
      (∀ rs, (runItems W (some paths) (runFn W paths fuel) fn env xst results its).1 = .ok rs →
        CoveredL (runItems W (some paths) (runFn W paths fuel) fn env xst results its).2.store.blobs sfin.inters)
  | [], _, s, sfin, results, xst, hv, _, _, _, hC, hcov => by
    simp only [visitItems, Except.ok.injEq] at hv
    subst hv
    exact ⟨hC, BlobGrows.refl _, fun _ _ => hcov⟩
  | it :: its, hnl, s, sfin, results, xst, hrest, hok, hseen, hn, hC, hcov => by
    obtain ⟨t, hv, hr⟩ := visitItems_cons_inv hrest
    rw [runItems_cons]
    have hnl' : ∀ x ∈ its, ¬ x.isEval := fun x hx => hnl x (mem_cons_of_mem _ hx)
    have claim : Closed U m (runItemRes W paths (runFn W paths fuel) env xst results it).2.store ∧
        BlobGrows xst.store (runItemRes W paths (runFn W paths fuel) env xst results it).2.store ∧
        (∀ v, (runItemRes W paths (runFn W paths fuel) env xst results it).1 = .ok v →
          CoveredL (runItemRes W paths (runFn W paths fuel) env xst results it).2.store.blobs t.inters) ∧
        SeenCov m W paths fuel t.seen := by
      -- a call-like item whose FIS `node` (built from `fis`) is appended
      have one : ∀ (f : String) (g : Fn) (c : ArgCtx) (fis node : FIS) (rf refs0 : Refs) (stack0 : List String) (kp : Option String)
          (pos : List RVal) (kw : List (String × RVal)),
          W.find f = some g → analyse m W fuel refs0 stack0 g c = .ok (fis, rf) →
          node ∈ sfin.inters → node.retSig = fis.retSig → node.subs = fis.subs →
          node.storePath = (match kp with | some p => some p | none => g.storePath) →
          Closed U m (runCall W paths (runFn W paths fuel) xst f pos kw kp).2.store ∧
          BlobGrows xst.store (runCall W paths (runFn W paths fuel) xst f pos kw kp).2.store ∧
          (∀ v, (runCall W paths (runFn W paths fuel) xst f pos kw kp).1 = .ok v →
            CoveredL (runCall W paths (runFn W paths fuel) xst f pos kw kp).2.store.blobs (s.inters ++ [node])) := by
        intro f g c fis node rf refs0 stack0 kp pos kw hfind ha hin hsig hsubs hsp
        obtain ⟨k1, k2⟩ := (pathsOK_iff paths node).mp (pathsOKL_mem hok hin)
        rw [hsig] at k1; rw [hsubs] at k2
        obtain ⟨c1, c2, c3⟩ := cov_call U hIH hW hfind ha kp
          (fun path hp => by
            apply k1 path
            rw [hsp]
            rcases hp with rfl | ⟨rfl, hp⟩
            · rfl
            · exact hp) k2 hn hC pos kw
        refine ⟨c1, c2, fun v hv => ?_⟩
        obtain ⟨d1, d2⟩ := c3 v hv
        refine CoveredL.append _ _ (CoveredL.mono c2 _ hcov) ⟨?_, trivial⟩
        refine covered_node hsp ?_ (hsubs ▸ d2)
        intro hne
        rw [hsig]
        apply d1
        cases kp with
        | some p => exact Or.inl (by simp)
        | none => exact Or.inr hne
      cases it with
      | call f l =>
        obtain ⟨g, c, named, fis, rf, hstep, e⟩ := plain_inv (by simpa [visitItem] using hv)
        have hin : fis ∈ sfin.inters := mem_final_inters hr (by rw [e]; simp)
        obtain ⟨o1, o2, o3⟩ := one f g ⟨named, c⟩ fis fis rf _ _ none [] [] hstep.find hstep.sub hin rfl rfl
          (analyse_storePath hstep.sub)
        refine ⟨o1, o2, ?_, by rw [e]; exact hseen⟩
        rw [e]; exact o3
      | callArgs f args kwargs rtA rtK l =>
        obtain ⟨g, c, named, fis, rf, hstep, e⟩ := plain_inv (by simpa [visitItem] using hv)
        have hin : fis ∈ sfin.inters := mem_final_inters hr (by rw [e]; simp)
        obtain ⟨o1, o2, o3⟩ := one f g ⟨named, c⟩ fis fis rf _ _ none (zipArgs results env args rtA) (zipKw results env kwargs rtK)
          hstep.find hstep.sub hin rfl rfl (analyse_storePath hstep.sub)
        refine ⟨o1, o2, ?_, by rw [e]; exact hseen⟩
        rw [e]; exact o3
      | keep path f args kwargs rtA rtK l =>
        obtain ⟨g, c, named, fis, rf, hstep, _, e⟩ := keep_inv hv
        have hin : fis.withPath path ∈ sfin.inters := mem_final_inters hr (by rw [e]; simp)
        obtain ⟨o1, o2, o3⟩ := one f g ⟨named, c⟩ fis (fis.withPath path) rf _ _ (some path)
          (zipArgs results env args rtA) (zipKw results env kwargs rtK) hstep.find hstep.sub hin rfl rfl rfl
        refine ⟨o1, o2, ?_, by rw [e]; exact hseen⟩
        rw [e]; exact o3
      | ref f l =>
        rcases ref_inv hv with ⟨hin, e⟩ | ⟨hnot, g, c, named, fis, rf, hstep, e⟩
        · obtain ⟨g, c, fis, rf, refs0, stack0, hfind, ha, hfok⟩ := hseen f hin
          obtain ⟨k1, k2⟩ := (pathsOK_iff paths fis).mp hfok
          obtain ⟨c1, c2, _⟩ := cov_call U hIH hW hfind ha none
            (fun path hp => by
              rcases hp with hp | ⟨_, hp⟩
              · cases hp
              · exact k1 path (by rw [analyse_storePath ha, hp])) k2 hn hC [] []
          refine ⟨c1, c2, fun v _ => ?_, by rw [e]; exact hseen⟩
          rw [e]; exact CoveredL.mono c2 _ hcov
        · have hin : fis ∈ sfin.inters := mem_final_inters hr (by rw [e]; simp)
          obtain ⟨o1, o2, o3⟩ := one f g ⟨named, c⟩ fis fis rf _ _ none [] [] hstep.find hstep.sub hin rfl rfl
            (analyse_storePath hstep.sub)
          refine ⟨o1, o2, ?_, ?_⟩
          · rw [e]; exact o3
          · rw [e]
            intro f' hf'
            rcases mem_cons.mp hf' with rfl | hf'
            · exact ⟨g, ⟨named, c⟩, fis, rf, s.refs, stack ++ [f'], hstep.find, hstep.sub, pathsOKL_mem hok hin⟩
            · exact hseen f' hf'
      | load path l =>
        have e := load_inv hv
        have hst : (runItemRes W paths (runFn W paths fuel) env xst results (.load path l)).2 = xst := by
          simp only [runItemRes]; split <;> rfl
        rw [hst, e]
        exact ⟨hC, BlobGrows.refl _, fun _ _ => hcov, hseen⟩
      | evalCall f l => exact absurd (by simp [Item.isEval]) (hnl _ mem_cons_self)
    obtain ⟨c1, c2, c3, c4⟩ := claim
    have hno := runItemRes_noop W paths (runFn W paths fuel) (runFn_noop W paths fuel) env xst results it
    cases hR : runItemRes W paths (runFn W paths fuel) env xst results it with
    | mk rv xst' =>
      rw [hR] at c1 c2 c3 hno
      cases rv with
      | error e => exact ⟨c1, c2, fun rs hrs => by cases hrs⟩
      | ok v =>
        simp only at c1 c2 c3 hno ⊢
        obtain ⟨i1, i2, i3⟩ := cov_items U hIH hW fn isig stack env its hnl' t sfin (results ++ [v]) xst' hr hok c4
          (by rw [hno]; exact hn) c1 (c3 v rfl)
        exact ⟨i1, BlobGrows.trans c2 i2, i3⟩

/-- **a successful run covers its tree**: the store stays closed and, on success, every kept call of the tree that was
run has its blob -/
theorem cov_fn (U : Universe) (m : Nat) (W : World) (paths : List (String × Sg)) (hW : U.world W) :
    ∀ fuel, CovFn U m W paths fuel
  | 0 => by
    intro fn ctx env refs stack fis r st _ ha
    exact absurd ha analyse_zero
  | k + 1 => by
    intro fn ctx env refs stack fis r st hU ha hsubs hn hC
    obtain ⟨ev, io, sv, b, d, ret, a⟩ := analyse_inv ha
    have hsubs' : FIS.pathsOKL paths sv.inters := by
      have : fis.subs = sv.inters := by rw [a.hfis]; rfl
      rw [← this]; exact hsubs
    obtain ⟨r1, r2⟩ := runFn_succ W paths k st fn env
    obtain ⟨c1, c2, c3⟩ := cov_items U (cov_fn U m W paths hW k) hW fn _ stack env fn.items (U.noEval fn hU)
      _ sv [] { st with log := st.log ++ [fn.name] } a.hvisit hsubs' (fun f hf => absurd hf (by simp)) hn hC trivial
    rw [r2]
    refine ⟨c1, c2, fun v hv => ?_⟩
    have hsub : fis.subs = sv.inters := by rw [a.hfis]; rfl
    rw [hsub]
    rw [r1] at hv
    cases hri : (runItems W (some paths) (runFn W paths k) fn env { st with log := st.log ++ [fn.name] } [] fn.items).1 with
    | error e => rw [hri] at hv; simp [bodyOutcome] at hv
    | ok rs => exact c3 rs hri

/-! ## One evaluation: every requested path has its blob -/

theorem odSet_get {acc acc' : List (String × Sg)} {q : String} {s : Sg} (h : odSet acc q s = .ok acc') (p : String) (k : Sg)
    (hp : aget acc' p = some k) : aget acc p = some k ∨ (p = q ∧ k = s) := by
  unfold odSet at h
  cases hg : aget acc q with
  | some v0 =>
    simp only [hg] at h
    by_cases hv : v0 = s
    · simp only [hv, if_true, Except.ok.injEq] at h; subst h; exact Or.inl hp
    · simp [hv] at h
  | none =>
    simp only [hg, Except.ok.injEq] at h
    subst h
    rw [aget_append_none _ _ _ _ hg] at hp
    by_cases hpq : p = q
    · simp only [hpq, if_true, Option.some.injEq] at hp; exact Or.inr ⟨hpq, hp.symm⟩
    · simp only [hpq, if_false] at hp; exact Or.inl hp

mutual
theorem allStorePaths_cov {bl : List (Sg × RVal)} : ∀ (f : FIS) (acc paths : List (String × Sg)),
    allStorePaths acc f = .ok paths → Covered bl f →
    (∀ p k, aget acc p = some k → (sgGet bl k).isSome = true) →
    ∀ p k, aget paths p = some k → (sgGet bl k).isSome = true
  | .mk n s sp subs loads, acc, paths, h, hc, hacc => by
    unfold allStorePaths at h
    simp only [Covered] at hc
    cases sp with
    | none =>
      simp only at h
      exact allStorePathsL_cov subs acc paths h hc.2 hacc
    | some q =>
      simp only at h
      cases ho : odSet acc q s with
      | error e => simp [ho] at h
      | ok acc' =>
        simp only [ho] at h
        refine allStorePathsL_cov subs acc' paths h hc.2 ?_
        intro p k hp
        rcases odSet_get ho p k hp with h1 | ⟨_, rfl⟩
        · exact hacc p k h1
        · exact hc.1 (by simp)
theorem allStorePathsL_cov {bl : List (Sg × RVal)} : ∀ (fs : List FIS) (acc paths : List (String × Sg)),
    allStorePathsL acc fs = .ok paths → CoveredL bl fs →
    (∀ p k, aget acc p = some k → (sgGet bl k).isSome = true) →
    ∀ p k, aget paths p = some k → (sgGet bl k).isSome = true
  | [], acc, paths, h, _, hacc => by
    simp only [allStorePathsL, Except.ok.injEq] at h
    subst h; exact hacc
  | f :: fs, acc, paths, h, hc, hacc => by
    unfold allStorePathsL at h
    simp only [CoveredL] at hc
    cases hf : allStorePaths acc f with
    | error e => simp [hf] at h
    | ok acc' =>
      simp only [hf] at h
      exact allStorePathsL_cov fs acc' paths h hc.2 (allStorePaths_cov f acc acc' hf hc.1 hacc)
end

/-- **after a successful evaluation on a real store, the whole tree is covered**: the store is closed and every kept
call of the evaluation — the root included when it is kept — has its blob -/
theorem evalStep_covered (U : Universe) (m : Nat) (W : World) (S : PStore) (rq : Request)
    (hW : U.world W) (hC : Closed U m S) (hn : S.noop = false)
    {fn : Fn} {env : Env} {fis' : FIS} {paths : List (String × Sg)}
    (ha : analysisPhase m W S rq = .ok (fn, env, fis', paths)) (hs : Stage.eval ∈ rq.stages)
    {v : RVal} (hv : (evalStep m W S rq).value = .ok (some v)) :
    Closed U m (evalStep m W S rq).store ∧ Covered (evalStep m W S rq).store.blobs fis' := by
  obtain ⟨named, refs0, fis, r, P⟩ := analysisPhase_inv ha
  have hU := U.find hW P.hfind
  have hsig : fis'.retSig = fis.retSig := by rw [P.hfis]; cases entryPathOf rq fn <;> rfl
  have hsubs' : fis'.subs = fis.subs := by rw [P.hfis]; cases entryPathOf rq fn <;> rfl
  obtain ⟨k1, k2⟩ := (pathsOK_iff paths fis').mp ((allStorePaths_ok fis' [] paths P.hpaths).2 paths (fun _ _ h => h))
  rw [hsubs'] at k2
  rw [hsig] at k1
  -- the store before the commit of the paths
  have key : ∃ st : XSt, ((evalStep m W S rq).store = st.store ∨ (evalStep m W S rq).store = st.store.sync paths) ∧
      Closed U m st.store ∧ Covered st.store.blobs fis' := by
    simp only [evalStep, ha, hs, not_true_eq_false, if_false] at hv ⊢
    rw [hsig] at hv ⊢
    cases hb : sgGet S.blobs fis.retSig with
    | some w =>
      refine ⟨{ store := S }, ?_, hC, ?_⟩
      · simp only; split <;> simp
      · refine (covered_iff _ _).mpr ⟨fun _ => by rw [hsig]; simp [hb], ?_⟩
        rw [hsubs']
        exact hC fis.retSig (by simp [hb]) W fn _ _ _ _ fis r hW hU P.hana rfl
    | none =>
      simp only [hb] at hv ⊢
      obtain ⟨c1, c2, c3⟩ := cov_fn U m W paths hW W.fuel fn ⟨named, none⟩ env refs0 [] fis r { store := S } hU P.hana k2 hn hC
      have hno := runFn_noop W paths W.fuel { store := S } fn env
      cases hr : runFn W paths W.fuel { store := S } fn env with
      | mk rv st =>
        rw [hr] at c1 c2 c3 hno
        simp only [hr] at hv ⊢
        cases rv with
        | error e => simp at hv
        | ok w =>
          simp only at hv ⊢ c1 c2 c3 hno
          have hcov := c3 w rfl
          have hn' : st.store.noop = false := by rw [hno]; exact hn
          cases hp : fis'.storePath with
          | none =>
            refine ⟨st, ?_, c1, (covered_iff _ _).mpr ⟨fun h => absurd hp h, by rw [hsubs']; exact hcov⟩⟩
            simp only; split <;> simp
          | some pth =>
            simp only [k1 pth hp]
            refine ⟨{ st with store := st.store.storeBlob fis.retSig w }, ?_, Closed.storeBlob c1 hW hU P.hana hcov w, ?_⟩
            · simp only; split <;> simp
            · refine (covered_iff _ _).mpr ⟨fun _ => ?_, ?_⟩
              · rw [hsig, sgGet_storeBlob_self _ _ _ hn']; rfl
              · rw [hsubs']; exact CoveredL.mono (grows_storeBlob _ _ _) _ hcov
  obtain ⟨st, h1, h2, h3⟩ := key
  rcases h1 with h1 | h1 <;> rw [h1]
  · exact ⟨h2, h3⟩
  · refine ⟨?_, by rw [sync_blobs]; exact h3⟩
    intro k hk W' fn' ctx' fuel' refs' stack' fis'' r' hW' hU' ha' hs'
    rw [sync_blobs] at hk ⊢
    exact h2 k hk W' fn' ctx' fuel' refs' stack' fis'' r' hW' hU' ha' hs'

/-- … hence every path the analysis requested has its blob -/
theorem requested_paths_stored (U : Universe) (m : Nat) (W : World) (S : PStore) (rq : Request)
    (hW : U.world W) (hC : Closed U m S) (hn : S.noop = false)
    {fn : Fn} {env : Env} {fis' : FIS} {paths : List (String × Sg)}
    (ha : analysisPhase m W S rq = .ok (fn, env, fis', paths)) (hs : Stage.eval ∈ rq.stages)
    {v : RVal} (hv : (evalStep m W S rq).value = .ok (some v)) (p : String) (k : Sg) (hp : aget paths p = some k) :
    (sgGet (evalStep m W S rq).store.blobs k).isSome = true := by
  obtain ⟨_, _, _, _, P⟩ := analysisPhase_inv ha
  exact allStorePaths_cov fis' [] paths P.hpaths (evalStep_covered U m W S rq hW hC hn ha hs hv).2
    (fun p k h => by simp [aget] at h) p k hp

theorem sync_noop (S : PStore) (ps : List (String × Sg)) : (S.sync ps).noop = S.noop := by
  unfold PStore.sync; split <;> rfl

theorem Closed.sync {U : Universe} {m : Nat} {S : PStore} (h : Closed U m S) (ps : List (String × Sg)) :
    Closed U m (S.sync ps) := by
  intro k hk W' fn' ctx' fuel' refs' stack' fis'' r' hW' hU' ha' hs'
  rw [sync_blobs] at hk ⊢
  exact h k hk W' fn' ctx' fuel' refs' stack' fis'' r' hW' hU' ha' hs'

/-- every evaluation — accepted or rejected, complete or restricted, successful or failed — keeps a real store closed -/
theorem closed_evalStep (U : Universe) (m : Nat) (W : World) (S : PStore) (rq : Request)
    (hW : U.world W) (hC : Closed U m S) (hn : S.noop = false) :
    Closed U m (evalStep m W S rq).store ∧ (evalStep m W S rq).store.noop = false := by
  cases ha : analysisPhase m W S rq with
  | error e => simp only [evalStep, ha]; exact ⟨hC, hn⟩
  | ok res =>
    obtain ⟨fn, env, fis', paths⟩ := res
    by_cases hs : Stage.eval ∈ rq.stages
    · obtain ⟨named, refs0, fis, r, P⟩ := analysisPhase_inv ha
      have hU := U.find hW P.hfind
      have hsig : fis'.retSig = fis.retSig := by rw [P.hfis]; cases entryPathOf rq fn <;> rfl
      have hsubs' : fis'.subs = fis.subs := by rw [P.hfis]; cases entryPathOf rq fn <;> rfl
      obtain ⟨k1, k2⟩ := (pathsOK_iff paths fis').mp ((allStorePaths_ok fis' [] paths P.hpaths).2 paths (fun _ _ h => h))
      rw [hsubs'] at k2
      rw [hsig] at k1
      have key : ∃ st : XSt, ((evalStep m W S rq).store = st.store ∨ (evalStep m W S rq).store = st.store.sync paths) ∧
          Closed U m st.store ∧ st.store.noop = false := by
        simp only [evalStep, ha, hs, not_true_eq_false, if_false]
        rw [hsig]
        cases hb : sgGet S.blobs fis.retSig with
        | some w =>
          refine ⟨{ store := S }, ?_, hC, hn⟩
          simp only; split <;> simp
        | none =>
          simp only
          obtain ⟨c1, c2, c3⟩ := cov_fn U m W paths hW W.fuel fn ⟨named, none⟩ env refs0 [] fis r { store := S } hU P.hana k2 hn hC
          have hno := runFn_noop W paths W.fuel { store := S } fn env
          cases hr : runFn W paths W.fuel { store := S } fn env with
          | mk rv st =>
            rw [hr] at c1 c2 c3 hno
            simp only at c1 c2 c3 hno ⊢
            have hn' : st.store.noop = false := by rw [hno]; exact hn
            cases rv with
            | error e => exact ⟨st, Or.inl rfl, c1, hn'⟩
            | ok w =>
              simp only
              cases hp : fis'.storePath with
              | none =>
                refine ⟨st, ?_, c1, hn'⟩
                simp only; split <;> simp
              | some pth =>
                simp only [k1 pth hp]
                refine ⟨{ st with store := st.store.storeBlob fis.retSig w }, ?_,
                  Closed.storeBlob c1 hW hU P.hana (c3 w rfl) w, by rw [storeBlob_noop]; exact hn'⟩
                simp only; split <;> simp
      obtain ⟨st, h1, h2, h3⟩ := key
      rcases h1 with h1 | h1 <;> rw [h1]
      · exact ⟨h2, h3⟩
      · exact ⟨h2.sync paths, by rw [sync_noop]; exact h3⟩
    · simp only [evalStep, ha, hs, not_false_eq_true, if_true]; exact ⟨hC, hn⟩

theorem closed_history (U : Universe) (m : Nat) : ∀ (hist : List HStep) (S : PStore), Closed U m S → S.noop = false →
    (∀ s ∈ hist, U.world s.world) → Closed U m (runHistory m S hist) ∧ (runHistory m S hist).noop = false
  | [], _, hC, hn, _ => ⟨hC, hn⟩
  | s :: ss, S, hC, hn, hok => by
    obtain ⟨h1, h2⟩ := closed_evalStep U m s.world S s.rq (hok s mem_cons_self) hC hn
    exact closed_history U m ss _ h1 h2 (fun t ht => hok t (mem_cons_of_mem _ ht))

/-! ## The path map has distinct paths -/

theorem odSet_keys {acc acc' : List (String × Sg)} {q : String} {s : Sg} (h : odSet acc q s = .ok acc')
    (hnd : (acc.map Prod.fst).Nodup) : (acc'.map Prod.fst).Nodup := by
  unfold odSet at h
  cases hg : aget acc q with
  | some v0 =>
    simp only [hg] at h
    by_cases hv : v0 = s
    · simp only [hv, if_true, Except.ok.injEq] at h; subst h; exact hnd
    · simp [hv] at h
  | none =>
    simp only [hg, Except.ok.injEq] at h
    subst h
    rw [map_append, nodup_append]
    refine ⟨hnd, by simp, ?_⟩
    intro a ha b hb
    simp only [map_cons, map_nil, mem_singleton] at hb
    subst hb
    intro e; subst e
    obtain ⟨⟨a1, a2⟩, hm, rfl⟩ := mem_map.mp ha
    -- a key of `acc` cannot be absent from it
    have : ∀ (l : List (String × Sg)) (k : String) (v : Sg), (k, v) ∈ l → aget l k ≠ none := by
      intro l
      induction l with
      | nil => intro k v h; cases h
      | cons x l ih =>
        intro k v h
        obtain ⟨x1, x2⟩ := x
        simp only [aget]
        by_cases hx : x1 = k
        · simp [hx]
        · simp only [hx, if_false]
          rcases mem_cons.mp h with h | h
          · simp only [Prod.mk.injEq] at h; exact absurd h.1.symm hx
          · exact ih k v h
    exact this acc a1 a2 hm hg

mutual
theorem allStorePaths_nodup : ∀ (f : FIS) (acc paths : List (String × Sg)), allStorePaths acc f = .ok paths →
    (acc.map Prod.fst).Nodup → (paths.map Prod.fst).Nodup
  | .mk n s sp subs loads, acc, paths, h, hnd => by
    unfold allStorePaths at h
    cases sp with
    | none => simp only at h; exact allStorePathsL_nodup subs acc paths h hnd
    | some q =>
      simp only at h
      cases ho : odSet acc q s with
      | error e => simp [ho] at h
      | ok acc' =>
        simp only [ho] at h
        exact allStorePathsL_nodup subs acc' paths h (odSet_keys ho hnd)
theorem allStorePathsL_nodup : ∀ (fs : List FIS) (acc paths : List (String × Sg)), allStorePathsL acc fs = .ok paths →
    (acc.map Prod.fst).Nodup → (paths.map Prod.fst).Nodup
  | [], acc, paths, h, hnd => by
    simp only [allStorePathsL, Except.ok.injEq] at h
    subst h; exact hnd
  | f :: fs, acc, paths, h, hnd => by
    unfold allStorePathsL at h
    cases hf : allStorePaths acc f with
    | error e => simp [hf] at h
    | ok acc' =>
      simp only [hf] at h
      exact allStorePathsL_nodup fs acc' paths h (allStorePaths_nodup f acc acc' hf hnd)
end

/-! ## Re-evaluation: when the tree is covered, nothing is written -/

def HitFn (m : Nat) (W : World) (paths : List (String × Sg)) (fuel : Nat) : Prop :=
  ∀ (fn : Fn) (ctx : ArgCtx) (env : Env) (refs : Refs) (stack : List String) (fis : FIS) (r : Refs) (st : XSt),
    analyse m W fuel refs stack fn ctx = .ok (fis, r) → FIS.pathsOKL paths fis.subs →
    CoveredL st.store.blobs fis.subs → (∀ it ∈ fn.items, ¬ it.isEval) →
    (runFn W paths fuel st fn env).2.store = st.store

theorem hit_call {m : Nat} {W : World} {paths : List (String × Sg)} {fuel : Nat} (hIH : HitFn m W paths fuel)
    (hnl : ∀ f g, W.find f = some g → ∀ it ∈ g.items, ¬ it.isEval)
    {f : String} {g : Fn} {ctx : ArgCtx} {refs : Refs} {stack : List String} {fis : FIS} {rf : Refs} {xst : XSt}
    (hfind : W.find f = some g) (ha : analyse m W fuel refs stack g ctx = .ok (fis, rf))
    (kp : Option String)
    (hkey : ∀ path, (kp = some path ∨ (kp = none ∧ g.storePath = some path)) →
      aget paths path = some fis.retSig ∧ (sgGet xst.store.blobs fis.retSig).isSome = true)
    (hsubs : FIS.pathsOKL paths fis.subs) (hcov : CoveredL xst.store.blobs fis.subs)
    (pos : List RVal) (kw : List (String × RVal)) :
    (runCall W paths (runFn W paths fuel) xst f pos kw kp).2.store = xst.store := by
  simp only [runCall, hfind]
  cases hb : bindRun g.params pos kw 0 with
  | none => rfl
  | some env' =>
    simp only
    have hk : ∀ path, aget paths path = some fis.retSig → (sgGet xst.store.blobs fis.retSig).isSome = true →
        (keepExec paths (runFn W paths fuel) xst path g env').2.store = xst.store := by
      intro path h1 h2
      unfold keepExec
      simp only [h1]
      cases hbl : sgGet xst.store.blobs fis.retSig with
      | some v => rfl
      | none => simp [hbl] at h2
    cases kp with
    | some path => exact hk path (hkey path (Or.inl rfl)).1 (hkey path (Or.inl rfl)).2
    | none =>
      simp only [callExec]
      cases hp : g.storePath with
      | some path => exact hk path (hkey path (Or.inr ⟨rfl, hp⟩)).1 (hkey path (Or.inr ⟨rfl, hp⟩)).2
      | none => exact hIH g ctx env' refs stack fis rf xst ha hsubs hcov (hnl f g hfind)

/-- the functions already referenced by name: analysed, their kept paths resolved, their trees covered -/
def SeenHit (m : Nat) (W : World) (paths : List (String × Sg)) (fuel : Nat) (bl : List (Sg × RVal)) (seen : List String) : Prop :=
  ∀ f ∈ seen, ∃ (g : Fn) (ctx : ArgCtx) (fis : FIS) (rf refs0 : Refs) (stack0 : List String),
    W.find f = some g ∧ analyse m W fuel refs0 stack0 g ctx = .ok (fis, rf) ∧ FIS.pathsOK paths fis ∧ Covered bl fis

theorem hit_items {m : Nat} {W : World} {paths : List (String × Sg)} {fuel : Nat} (hIH : HitFn m W paths fuel)
    (hnlW : ∀ f g, W.find f = some g → ∀ it ∈ g.items, ¬ it.isEval)
    (fn : Fn) (isig : Sg) (stack : List String) (env : Env) :
    ∀ (its : List Item), (∀ it ∈ its, ¬ it.isEval) → ∀ (s sfin : VisitSt) (results : List RVal) (xst : XSt),
      visitItems m W (analyse m W fuel) fn isig stack s its = .ok sfin →
      FIS.pathsOKL paths sfin.inters → CoveredL xst.store.blobs sfin.inters →
      SeenHit m W paths fuel xst.store.blobs s.seen →
      (runItems W (some paths) (runFn W paths fuel) fn env xst results its).2.store = xst.store
  | [], _, _, _, _, _, _, _, _, _ => rfl
  | it :: its, hnl, s, sfin, results, xst, hrest, hok, hcov, hseen => by
    obtain ⟨t, hv, hr⟩ := visitItems_cons_inv hrest
    rw [runItems_cons]
    have hnl' : ∀ x ∈ its, ¬ x.isEval := fun x hx => hnl x (mem_cons_of_mem _ hx)
    have cov_mem : ∀ node, node ∈ sfin.inters → Covered xst.store.blobs node := by
      intro node hin
      have : ∀ (l : List FIS), CoveredL xst.store.blobs l → node ∈ l → Covered xst.store.blobs node := by
        intro l
        induction l with
        | nil => intro _ h; cases h
        | cons x l ih =>
          intro hc hm
          simp only [CoveredL] at hc
          rcases mem_cons.mp hm with rfl | hm
          · exact hc.1
          · exact ih hc.2 hm
      exact this _ hcov hin
    have one : ∀ (f : String) (g : Fn) (c : ArgCtx) (fis node : FIS) (rf refs0 : Refs) (stack0 : List String) (kp : Option String)
        (pos : List RVal) (kw : List (String × RVal)),
        W.find f = some g → analyse m W fuel refs0 stack0 g c = .ok (fis, rf) →
        node ∈ sfin.inters → node.retSig = fis.retSig → node.subs = fis.subs →
        node.storePath = (match kp with | some p => some p | none => g.storePath) →
        (runCall W paths (runFn W paths fuel) xst f pos kw kp).2.store = xst.store := by
      intro f g c fis node rf refs0 stack0 kp pos kw hfind ha hin hsig hsubs hsp
      obtain ⟨k1, k2⟩ := (pathsOK_iff paths node).mp (pathsOKL_mem hok hin)
      obtain ⟨c1, c2⟩ := (covered_iff _ _).mp (cov_mem node hin)
      rw [hsig] at k1 c1; rw [hsubs] at k2 c2
      refine hit_call hIH hnlW hfind ha kp (fun path hp => ?_) k2 c2 pos kw
      have hsp' : node.storePath = some path := by
        rw [hsp]
        rcases hp with rfl | ⟨rfl, hp⟩
        · rfl
        · exact hp
      exact ⟨k1 path hsp', c1 (by rw [hsp']; simp)⟩
    have claim : (runItemRes W paths (runFn W paths fuel) env xst results it).2.store = xst.store ∧
        SeenHit m W paths fuel xst.store.blobs t.seen := by
      cases it with
      | call f l =>
        obtain ⟨g, c, named, fis, rf, hstep, e⟩ := plain_inv (by simpa [visitItem] using hv)
        have hin : fis ∈ sfin.inters := mem_final_inters hr (by rw [e]; simp)
        exact ⟨one f g ⟨named, c⟩ fis fis rf _ _ none [] [] hstep.find hstep.sub hin rfl rfl (analyse_storePath hstep.sub),
          by rw [e]; exact hseen⟩
      | callArgs f args kwargs rtA rtK l =>
        obtain ⟨g, c, named, fis, rf, hstep, e⟩ := plain_inv (by simpa [visitItem] using hv)
        have hin : fis ∈ sfin.inters := mem_final_inters hr (by rw [e]; simp)
        exact ⟨one f g ⟨named, c⟩ fis fis rf _ _ none _ _ hstep.find hstep.sub hin rfl rfl (analyse_storePath hstep.sub),
          by rw [e]; exact hseen⟩
      | keep path f args kwargs rtA rtK l =>
        obtain ⟨g, c, named, fis, rf, hstep, _, e⟩ := keep_inv hv
        have hin : fis.withPath path ∈ sfin.inters := mem_final_inters hr (by rw [e]; simp)
        exact ⟨one f g ⟨named, c⟩ fis (fis.withPath path) rf _ _ (some path) _ _ hstep.find hstep.sub hin rfl rfl rfl,
          by rw [e]; exact hseen⟩
      | ref f l =>
        rcases ref_inv hv with ⟨hin, e⟩ | ⟨hnot, g, c, named, fis, rf, hstep, e⟩
        · obtain ⟨g, c, fis, rf, refs0, stack0, hfind, ha, hfok, hfcov⟩ := hseen f hin
          obtain ⟨k1, k2⟩ := (pathsOK_iff paths fis).mp hfok
          obtain ⟨c1, c2⟩ := (covered_iff _ _).mp hfcov
          refine ⟨hit_call hIH hnlW hfind ha none (fun path hp => ?_) k2 c2 [] [], by rw [e]; exact hseen⟩
          rcases hp with hp | ⟨_, hp⟩
          · cases hp
          · have : fis.storePath = some path := by rw [analyse_storePath ha, hp]
            exact ⟨k1 path this, c1 (by rw [this]; simp)⟩
        · have hin : fis ∈ sfin.inters := mem_final_inters hr (by rw [e]; simp)
          refine ⟨one f g ⟨named, c⟩ fis fis rf _ _ none [] [] hstep.find hstep.sub hin rfl rfl (analyse_storePath hstep.sub), ?_⟩
          rw [e]
          intro f' hf'
          rcases mem_cons.mp hf' with rfl | hf'
          · exact ⟨g, ⟨named, c⟩, fis, rf, s.refs, stack ++ [f'], hstep.find, hstep.sub, pathsOKL_mem hok hin, cov_mem fis hin⟩
          · exact hseen f' hf'
      | load path l =>
        have e := load_inv hv
        have hst : (runItemRes W paths (runFn W paths fuel) env xst results (.load path l)).2 = xst := by
          simp only [runItemRes]; split <;> rfl
        rw [hst, e]
        exact ⟨rfl, hseen⟩
      | evalCall f l => exact absurd (by simp [Item.isEval]) (hnl _ mem_cons_self)
    obtain ⟨c1, c2⟩ := claim
    cases hR : runItemRes W paths (runFn W paths fuel) env xst results it with
    | mk rv xst' =>
      rw [hR] at c1
      simp only at c1
      cases rv with
      | error e => exact c1
      | ok v =>
        simp only
        rw [hit_items hIH hnlW fn isig stack env its hnl' t sfin _ xst' hr hok (by rw [c1]; exact hcov) (by rw [c1]; exact c2)]
        exact c1

/-- **when every kept call of the tree is in the store, running the function writes nothing** -/
theorem hit_fn (m : Nat) (W : World) (paths : List (String × Sg))
    (hnlW : ∀ f g, W.find f = some g → ∀ it ∈ g.items, ¬ it.isEval) : ∀ fuel, HitFn m W paths fuel
  | 0 => by
    intro fn ctx env refs stack fis r st ha
    exact absurd ha analyse_zero
  | k + 1 => by
    intro fn ctx env refs stack fis r st ha hsubs hcov hnl
    obtain ⟨ev, io, sv, b, d, ret, a⟩ := analyse_inv ha
    have hsub : fis.subs = sv.inters := by rw [a.hfis]; rfl
    rw [hsub] at hsubs hcov
    rw [(runFn_succ W paths k st fn env).2]
    exact hit_items (hit_fn m W paths hnlW k) hnlW fn _ stack env fn.items hnl _ sv []
      { st with log := st.log ++ [fn.name] } a.hvisit hsubs hcov (fun f hf => absurd hf (by simp))

/-- an evaluation whose whole tree is covered by the store writes no blob: nothing is recomputed -/
theorem covered_eval_writes_nothing (U : Universe) (m : Nat) (W : World) (S : PStore) (rq : Request) (hW : U.world W)
    {fn : Fn} {env : Env} {fis' : FIS} {paths : List (String × Sg)}
    (ha : analysisPhase m W S rq = .ok (fn, env, fis', paths)) (hcov : Covered S.blobs fis') :
    (evalStep m W S rq).store.blobs = S.blobs := by
  obtain ⟨named, refs0, fis, r, P⟩ := analysisPhase_inv ha
  have hsig : fis'.retSig = fis.retSig := by rw [P.hfis]; cases entryPathOf rq fn <;> rfl
  have hsubs' : fis'.subs = fis.subs := by rw [P.hfis]; cases entryPathOf rq fn <;> rfl
  obtain ⟨k1, k2⟩ := (pathsOK_iff paths fis').mp ((allStorePaths_ok fis' [] paths P.hpaths).2 paths (fun _ _ h => h))
  obtain ⟨c1, c2⟩ := (covered_iff _ _).mp hcov
  rw [hsubs'] at k2 c2
  by_cases hs : Stage.eval ∈ rq.stages
  · simp only [evalStep, ha, hs, not_true_eq_false, if_false]
    cases hb : sgGet S.blobs fis'.retSig with
    | some w => simp only; split <;> simp [sync_blobs]
    | none =>
      simp only
      have hnl : ∀ f g, W.find f = some g → ∀ it ∈ g.items, ¬ it.isEval := fun f g hf => U.noEval g (U.find hW hf)
      have hst := hit_fn m W paths hnl W.fuel fn ⟨named, none⟩ env refs0 [] fis r { store := S } P.hana k2 c2
        (U.noEval fn (U.find hW P.hfind))
      cases hr : runFn W paths W.fuel { store := S } fn env with
      | mk rv st =>
        rw [hr] at hst
        simp only at hst ⊢
        cases rv with
        | error e => simp [hst]
        | ok w =>
          simp only
          cases hp : fis'.storePath with
          | none => simp only; split <;> simp [sync_blobs, hst]
          | some pth =>
            -- a kept root that is covered has its blob: this branch is the hit above
            have := c1 (by rw [hp]; simp)
            simp [hb] at this
  · simp only [evalStep, ha, hs, not_false_eq_true, if_true]

/-- **re-evaluation recomputes nothing** (also when the root is not kept): after a successful evaluation on a real store,
an evaluation whose root has the same signature and the same kind of entry finds every kept call in the store -/
theorem reeval_writes_nothing (U : Universe) (m : Nat) (W W' : World) (S : PStore) (rq rq' : Request)
    (hW : U.world W) (hW' : U.world W') (hC : Closed U m S) (hn : S.noop = false)
    {fn : Fn} {env : Env} {fis1 : FIS} {paths : List (String × Sg)}
    (ha : analysisPhase m W S rq = .ok (fn, env, fis1, paths)) (hs : Stage.eval ∈ rq.stages)
    {v : RVal} (hv : (evalStep m W S rq).value = .ok (some v))
    {fn' : Fn} {env' : Env} {fis2 : FIS} {paths' : List (String × Sg)}
    (ha' : analysisPhase m W' (evalStep m W S rq).store rq' = .ok (fn', env', fis2, paths'))
    (hsig : fis2.retSig = fis1.retSig) (hsp : fis2.storePath = fis1.storePath) :
    (evalStep m W' (evalStep m W S rq).store rq').store.blobs = (evalStep m W S rq).store.blobs := by
  obtain ⟨_, hcov⟩ := evalStep_covered U m W S rq hW hC hn ha hs hv
  obtain ⟨named, refs0, fa, r, P⟩ := analysisPhase_inv ha
  obtain ⟨named', refs0', fb, r', P'⟩ := analysisPhase_inv ha'
  have e1 : fis1.retSig = fa.retSig ∧ fis1.subs = fa.subs := by rw [P.hfis]; cases entryPathOf rq fn <;> exact ⟨rfl, rfl⟩
  have e2 : fis2.retSig = fb.retSig ∧ fis2.subs = fb.subs := by rw [P'.hfis]; cases entryPathOf rq' fn' <;> exact ⟨rfl, rfl⟩
  have hsh := sig_shape U m W.fuel W'.fuel W W' _ _ _ _ fn fn' _ _ fa fb _ _ hW hW' (U.find hW P.hfind) (U.find hW' P'.hfind)
    P.hana P'.hana (by rw [← e1.1, ← e2.1, hsig])
  have hsubs : SameShapeL fa.subs fb.subs := by
    obtain ⟨n1, s1, p1, subs1, l1⟩ := fa
    obtain ⟨n2, s2, p2, subs2, l2⟩ := fb
    simp only [SameShape] at hsh
    exact hsh.2.2.2
  obtain ⟨c1, c2⟩ := (covered_iff _ _).mp hcov
  refine covered_eval_writes_nothing U m W' _ rq' hW' ha' ((covered_iff _ _).mpr ⟨?_, ?_⟩)
  · rw [hsp, hsig]; exact c1
  · rw [e2.2]; rw [e1.2] at c2; exact CoveredL.shape _ _ hsubs c2

end Dds
