import DdsModel.Codec
import DdsProofs.Lru
import DdsProofs.Hash
/-! Lemmas for C17 / C19. -/
namespace Dds
open List

theorem protocols_preserved (r : Registry) (c : Codec) (op : RegOp)
    (h : aget r.protocols c.ref = some c) (hop : op.codec.ref = c.ref → op.codec = c) :
    aget (r.apply op).protocols c.ref = some c := by
  cases op with
  | addCodec c' =>
    simp only [Registry.apply, Registry.addCodec]
    by_cases hr : c'.ref = c.ref
    · have : c' = c := hop hr
      subst this; exact aget_aset_eq _ _ _
    · rw [aget_aset_ne _ _ _ _ (Ne.symm hr)]; exact h
  | addFileCodec c' =>
    simp only [Registry.apply, Registry.addFileCodec]
    split
    · exact h
    · rename_i hnone
      by_cases hr : c'.ref = c.ref
      · rw [hr, h] at hnone; simp at hnone
      · rw [aget_aset_ne _ _ _ _ (Ne.symm hr)]; exact h

theorem protocols_preserved_all (c : Codec) : ∀ (ops : List RegOp) (r : Registry),
    aget r.protocols c.ref = some c → (∀ op ∈ ops, op.codec.ref = c.ref → op.codec = c) →
    aget (ops.foldl Registry.apply r).protocols c.ref = some c
  | [], _, h, _ => h
  | op :: ops, r, h, hops => by
    simp only [foldl_cons]
    exact protocols_preserved_all c ops _ (protocols_preserved r c op h (hops op mem_cons_self))
      (fun o ho => hops o (mem_cons_of_mem _ ho))

/-! ### DBFS commits -/

theorem dbfs_sync_none (s : DbfsSt) (ps : List (DPath × Key)) : s.syncAll .noCommit ps = (s, true) := by
  cases ps with
  | nil => rfl
  | cons pk ps => obtain ⟨p, k⟩ := pk; rfl

/-- the key of the last pair of `ps` whose path is `q` -/
def lastKey : List (DPath × Key) → DPath → Option Key
  | [], _ => none
  | (p, k) :: ps, q => match lastKey ps q with
    | some k' => some k'
    | none => if p = q then some k else none

theorem aget_aset {α} (l : List (String × α)) (k k' : String) (v : α) :
    aget (aset l k v) k' = if k = k' then some v else aget l k' := by
  by_cases h : k = k'
  · subst h; simp [aget_aset_eq]
  · simp only [h, if_false]; exact aget_aset_ne _ _ _ _ (Ne.symm h)

theorem aget_syncAll : ∀ (ps : List (DPath × Key)) (paths : List (DPath × Key)) (q : DPath),
    aget (syncAll paths ps) q = (lastKey ps q).orElse (fun _ => aget paths q)
  | [], _, _ => rfl
  | (p, k) :: ps, paths, q => by
    have ih := aget_syncAll ps (aset paths p k) q
    simp only [syncAll, foldl_cons] at ih ⊢
    rw [ih, lastKey]
    cases lastKey ps q with
    | some k' => rfl
    | none => simp only [Option.orElse, aget_aset]; split <;> rfl

theorem dbfs_sync_link : ∀ (ps : List (DPath × Key)) (s : DbfsSt),
    (s.syncAll .linkOnly ps).2 = true ∧ (s.syncAll .linkOnly ps).1.data = s.data ∧
    (s.syncAll .linkOnly ps).1.blobs = s.blobs ∧ (s.syncAll .linkOnly ps).1.metas = s.metas ∧
    ∀ q, aget (s.syncAll .linkOnly ps).1.redirect q = (lastKey ps q).orElse (fun _ => aget s.redirect q)
  | [], s => ⟨rfl, rfl, rfl, rfl, fun _ => rfl⟩
  | (p, k) :: ps, s => by
    simp only [DbfsSt.syncAll]
    split
    · rename_i heq
      obtain ⟨h1, h2, h3, h4, h5⟩ := dbfs_sync_link ps s
      refine ⟨h1, h2, h3, h4, ?_⟩
      intro q
      rw [h5 q, lastKey]
      cases lastKey ps q with
      | some k' => rfl
      | none =>
        by_cases hpq : p = q
        · subst hpq; simp [Option.orElse, heq]
        · simp [Option.orElse, hpq]
    · obtain ⟨h1, h2, h3, h4, h5⟩ := dbfs_sync_link ps { s with redirect := aset s.redirect p k }
      refine ⟨h1, h2, h3, h4, ?_⟩
      intro q
      rw [h5 q, lastKey]
      cases lastKey ps q with
      | some k' => rfl
      | none => simp only [Option.orElse, aget_aset]; split <;> rfl

/-- under FULL every recorded path has a byte-identical copy of its blob under the data directory -/
def DbfsFullInv (s : DbfsSt) : Prop :=
  ∀ p k, aget s.redirect p = some k → ∃ b, aget s.blobs k = some b ∧ aget s.data p = some b

theorem dbfs_sync_full : ∀ (ps : List (DPath × Key)) (s : DbfsSt), DbfsFullInv s →
    (∀ pk ∈ ps, (aget s.metas pk.2).isSome ∧ (aget s.blobs pk.2).isSome) →
    (s.syncAll .full ps).2 = true ∧ DbfsFullInv (s.syncAll .full ps).1 ∧
    (s.syncAll .full ps).1.blobs = s.blobs ∧ (s.syncAll .full ps).1.metas = s.metas ∧
    ∀ q, aget (s.syncAll .full ps).1.redirect q = (lastKey ps q).orElse (fun _ => aget s.redirect q)
  | [], s, hinv, _ => ⟨rfl, hinv, rfl, rfl, fun _ => rfl⟩
  | (p, k) :: ps, s, hinv, hst => by
    have hrest : ∀ pk ∈ ps, (aget s.metas pk.2).isSome ∧ (aget s.blobs pk.2).isSome :=
      fun pk h => hst pk (mem_cons_of_mem _ h)
    simp only [DbfsSt.syncAll]
    split
    · rename_i heq
      obtain ⟨h1, h2, h3, h4, h5⟩ := dbfs_sync_full ps s hinv hrest
      refine ⟨h1, h2, h3, h4, ?_⟩
      intro q
      rw [h5 q, lastKey]
      cases lastKey ps q with
      | some k' => rfl
      | none =>
        by_cases hpq : p = q
        · subst hpq; simp [Option.orElse, heq]
        · simp [Option.orElse, hpq]
    · obtain ⟨hm, hb⟩ := hst (p, k) mem_cons_self
      simp only at hm hb
      cases hmk : aget s.metas k with
      | none => simp [hmk] at hm
      | some r =>
        cases hbk : aget s.blobs k with
        | none => simp [hbk] at hb
        | some b =>
          simp only []
          have hinv' : DbfsFullInv { s with data := aset s.data p b, redirect := aset s.redirect p k } := by
            intro p' k' h'
            simp only [aget_aset] at h' ⊢
            split at h'
            · rename_i hpp
              simp only [Option.some.injEq] at h'
              subst h' hpp
              exact ⟨b, hbk, by simp⟩
            · rename_i hpp
              obtain ⟨b', hb1, hb2⟩ := hinv p' k' h'
              exact ⟨b', hb1, by simp [hpp, hb2]⟩
          obtain ⟨h1, h2, h3, h4, h5⟩ := dbfs_sync_full ps _ hinv' hrest
          refine ⟨h1, h2, h3, h4, ?_⟩
          intro q
          rw [h5 q, lastKey]
          cases lastKey ps q with
          | some k' => rfl
          | none => simp only [Option.orElse, aget_aset]; split <;> rfl

end Dds
