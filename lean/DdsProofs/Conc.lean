import DdsModel.Conc
import DdsProofs.LocalStore
/-! The inductive invariant of the write protocol, preserved by every micro-operation of every process
under every schedule (C06, C07). -/
namespace Dds
open List

theorem tget_tset_eq {α} (l : List (TmpName × α)) (k : TmpName) (v : α) : tget (tset l k v) k = some v := by
  simp [tset, tget]

theorem tget_filter_ne {α} (l : List (TmpName × α)) (k k' : TmpName) (h : k' ≠ k) :
    tget (l.filter (fun kv => kv.1 ≠ k)) k' = tget l k' := by
  induction l with
  | nil => rfl
  | cons a l ih =>
    obtain ⟨k2, v2⟩ := a
    by_cases h2 : k2 = k
    · subst h2
      have : (filter (fun kv : TmpName × α => decide (kv.1 ≠ k2)) ((k2, v2) :: l)) = filter (fun kv => decide (kv.1 ≠ k2)) l := by
        simp
      rw [this, ih]
      simp [tget, Ne.symm h]
    · have : (filter (fun kv : TmpName × α => decide (kv.1 ≠ k)) ((k2, v2) :: l)) = (k2, v2) :: filter (fun kv => decide (kv.1 ≠ k)) l := by
        simp [h2]
      rw [this]
      simp only [tget, ih]

theorem tget_tset_ne {α} (l : List (TmpName × α)) (k k' : TmpName) (v : α) (h : k' ≠ k) :
    tget (tset l k v) k' = tget l k' := by
  simp only [tset, tget, Ne.symm h, if_false]
  exact tget_filter_ne l k k' h

theorem tget_tdel_ne {α} (l : List (TmpName × α)) (k k' : TmpName) (h : k' ≠ k) :
    tget (tdel l k) k' = tget l k' := tget_filter_ne l k k' h

theorem halves_append (b : Bytes) : (halves b).1 ++ (halves b).2 = b := by
  simp [halves]

/-- everything published on the disk is complete and correct -/
structure DiskInv (V : Truth) (d : Disk) : Prop where
  blob_ok : ∀ k b, aget d.blobs k = some b → b = V.content k
  meta_ok : ∀ k m, aget d.metas k = some m → m = V.metaOf k ∧ (aget d.blobs k).isSome
  link_ok : ∀ l k, lget d.links l = some k → (aget d.metas k).isSome

/-- `d'` has published at least what `d` has -/
def Grows (d d' : Disk) : Prop :=
  (∀ k, (aget d.blobs k).isSome → (aget d'.blobs k).isSome) ∧ (∀ k, (aget d.metas k).isSome → (aget d'.metas k).isSome)

/-- the local assertion of a process about the disk -/
structure ProcInv (V : Truth) (d : Disk) (p : Proc) : Prop where
  /-- stores already completed by this process are published -/
  done_ok : ∀ j k, j < p.idx → p.reqs[j]? = some (.store k) → (aget d.metas k).isSome
  /-- every sync still to come has its key published, or stored by an earlier pending request -/
  sync_ready : ∀ j l k, p.idx ≤ j → p.reqs[j]? = some (.sync l k) →
      (aget d.metas k).isSome ∨ ∃ i k', p.idx ≤ i ∧ i < j ∧ p.reqs[i]? = some (.store k') ∧ k' = k
  /-- the temporary file / link of the current request is what the program counter says -/
  tmp_full : ∀ k, p.reqs[p.idx]? = some (.store k) → p.pc = 3 → tget d.tmpFiles (p.id, p.idx) = some (V.content k)
  blob_pub : ∀ k, p.reqs[p.idx]? = some (.store k) → 4 ≤ p.pc → (aget d.blobs k).isSome
  tmp_meta : ∀ k, p.reqs[p.idx]? = some (.store k) → 6 ≤ p.pc → (tget d.tmpFiles (p.id, p.idx)).isSome
  tmp_link : ∀ l k, p.reqs[p.idx]? = some (.sync l k) → 2 ≤ p.pc → tget d.tmpLinks (p.id, p.idx) = some k

def SysInv (V : Truth) (s : Sys) : Prop :=
  DiskInv V s.disk ∧ (∀ p ∈ s.procs, ProcInv V s.disk p) ∧ s.procs.Pairwise (fun a b => a.id ≠ b.id)

theorem microStep_id (V : Truth) (d : Disk) (p : Proc) :
    (microStep V d p).2.id = p.id ∧ (microStep V d p).2.reqs = p.reqs := by
  unfold microStep
  cases p.reqs[p.idx]? with
  | none => exact ⟨rfl, rfl⟩
  | some r =>
    cases r with
    | store k =>
      simp only []
      split <;> try exact ⟨rfl, rfl⟩
      · split <;> exact ⟨rfl, rfl⟩
      · split <;> exact ⟨rfl, rfl⟩
    | sync l k =>
      simp only []
      split <;> try exact ⟨rfl, rfl⟩
      · split <;> exact ⟨rfl, rfl⟩

end Dds

namespace Dds
open List

theorem Grows.refl (d : Disk) : Grows d d := ⟨fun _ h => h, fun _ h => h⟩

theorem isSome_aset {α} (l : List (String × α)) (k k' : String) (v : α) (h : (aget l k').isSome) :
    (aget (aset l k v) k').isSome := by
  by_cases hk : k' = k
  · subst hk; simp [aget_aset_eq]
  · rw [aget_aset_ne _ _ _ _ hk]; exact h

/-- a process that did not move keeps its assertion when the disk only grows and its own temporaries are untouched -/
theorem ProcInv.frame {V : Truth} {d d' : Disk} {q : Proc} (h : ProcInv V d q) (hg : Grows d d')
    (hf : ∀ n, tget d'.tmpFiles (q.id, n) = tget d.tmpFiles (q.id, n))
    (hl : ∀ n, tget d'.tmpLinks (q.id, n) = tget d.tmpLinks (q.id, n)) : ProcInv V d' q where
  done_ok := fun j k hj hr => hg.2 k (h.done_ok j k hj hr)
  sync_ready := fun j l k hj hr => by
    rcases h.sync_ready j l k hj hr with h1 | h1
    · exact Or.inl (hg.2 k h1)
    · exact Or.inr h1
  tmp_full := fun k hr hp => by rw [hf]; exact h.tmp_full k hr hp
  blob_pub := fun k hr hp => hg.1 k (h.blob_pub k hr hp)
  tmp_meta := fun k hr hp => by rw [hf]; exact h.tmp_meta k hr hp
  tmp_link := fun l k hr hp => by rw [hl]; exact h.tmp_link l k hr hp

/-- what one micro-operation of `p` does to the rest of the world -/
structure StepFrame (d d' : Disk) (p : Proc) : Prop where
  grows : Grows d d'
  files : ∀ t : TmpName, t.1 ≠ p.id → tget d'.tmpFiles t = tget d.tmpFiles t
  links : ∀ t : TmpName, t.1 ≠ p.id → tget d'.tmpLinks t = tget d.tmpLinks t

theorem ne_of_fst_ne {t : TmpName} {a b : Nat} (h : t.1 ≠ a) : t ≠ (a, b) := by
  intro e; rw [e] at h; exact h rfl

end Dds

namespace Dds
open List

section OwnStep
variable (V : Truth) (d : Disk) (p : Proc)

/-- a step that only touches the temporary file of the current request and moves the program counter -/
theorem own_tmp_step (k : Key) (b : Bytes) (pc' : Nat)
    (hreq : p.reqs[p.idx]? = some (.store k)) (hd : DiskInv V d) (hp : ProcInv V d p)
    (hfull : pc' = 3 → b = V.content k) (hblob : 4 ≤ pc' → 4 ≤ p.pc) :
    let d' : Disk := { d with tmpFiles := tset d.tmpFiles (p.id, p.idx) b }
    let p' : Proc := { p with pc := pc' }
    DiskInv V d' ∧ ProcInv V d' p' ∧ StepFrame d d' p := by
  refine ⟨⟨hd.blob_ok, hd.meta_ok, hd.link_ok⟩, ?_, ⟨Grows.refl d, ?_, fun _ _ => rfl⟩⟩
  · exact {
      done_ok := hp.done_ok
      sync_ready := hp.sync_ready
      tmp_full := fun k' hr hpc => by
        have hk : k' = k := by
          have h1 : p.reqs[p.idx]? = some (.store k') := hr
          rw [hreq] at h1; cases h1; rfl
        subst hk
        simp only [tget_tset_eq]
        rw [hfull hpc]
      blob_pub := fun k' hr hpc => hp.blob_pub k' hr (hblob hpc)
      tmp_meta := fun k' hr hpc => by simp [tget_tset_eq]
      tmp_link := fun l k' hr hpc => by
        have h1 : p.reqs[p.idx]? = some (.sync l k') := hr
        rw [hreq] at h1; cases h1 }
  · intro t ht
    exact tget_tset_ne _ _ _ _ (ne_of_fst_ne ht)

end OwnStep
end Dds

namespace Dds
open List

section Publish
variable (V : Truth) (d : Disk) (p : Proc)

theorem req_store_inj {k k' : Key} (h : p.reqs[p.idx]? = some (.store k)) (h' : p.reqs[p.idx]? = some (.store k')) : k' = k := by
  rw [h] at h'; cases h'; rfl

/-- `os.replace(tmp, blobs/k)` -/
theorem own_publish_blob (k : Key)
    (hreq : p.reqs[p.idx]? = some (.store k)) (hd : DiskInv V d) (hp : ProcInv V d p) (hpc : p.pc = 3) :
    let d' : Disk := { d with blobs := aset d.blobs k (V.content k), tmpFiles := tdel d.tmpFiles (p.id, p.idx) }
    let p' : Proc := { p with pc := 4 }
    DiskInv V d' ∧ ProcInv V d' p' ∧ StepFrame d d' p := by
  have hg : Grows d { d with blobs := aset d.blobs k (V.content k), tmpFiles := tdel d.tmpFiles (p.id, p.idx) } :=
    ⟨fun k' h => isSome_aset _ _ _ _ h, fun _ h => h⟩
  refine ⟨⟨?_, ?_, hd.link_ok⟩, ?_, ⟨hg, ?_, fun _ _ => rfl⟩⟩
  · intro k' b hb
    by_cases hk : k' = k
    · subst hk; simp only [aget_aset_eq, Option.some.injEq] at hb; exact hb.symm
    · simp only [aget_aset_ne _ _ _ _ hk] at hb; exact hd.blob_ok k' b hb
  · intro k' m hm
    obtain ⟨h1, h2⟩ := hd.meta_ok k' m hm
    exact ⟨h1, hg.1 k' h2⟩
  · exact {
      done_ok := hp.done_ok
      sync_ready := hp.sync_ready
      tmp_full := fun k' hr hpc' => by simp at hpc'
      blob_pub := fun k' hr _ => by
        have := req_store_inj p hreq hr; subst this
        simp [aget_aset_eq]
      tmp_meta := fun k' hr hpc' => by simp at hpc'
      tmp_link := fun l k' hr _ => by
        have h1 : p.reqs[p.idx]? = some (.sync l k') := hr
        rw [hreq] at h1; cases h1 }
  · intro t ht
    exact tget_tdel_ne _ _ _ (ne_of_fst_ne ht)

/-- `os.replace(tmp, blobs/k.meta)`: the request is complete -/
theorem own_publish_meta (k : Key)
    (hreq : p.reqs[p.idx]? = some (.store k)) (hd : DiskInv V d) (hp : ProcInv V d p) (hpc : 6 ≤ p.pc) :
    let d' : Disk := { d with metas := aset d.metas k (V.metaOf k), tmpFiles := tdel d.tmpFiles (p.id, p.idx) }
    let p' : Proc := { p with idx := p.idx + 1, pc := 0 }
    DiskInv V d' ∧ ProcInv V d' p' ∧ StepFrame d d' p := by
  have hg : Grows d { d with metas := aset d.metas k (V.metaOf k), tmpFiles := tdel d.tmpFiles (p.id, p.idx) } :=
    ⟨fun _ h => h, fun k' h => isSome_aset _ _ _ _ h⟩
  have hblob := hp.blob_pub k hreq (by omega)
  refine ⟨⟨hd.blob_ok, ?_, ?_⟩, ?_, ⟨hg, ?_, fun _ _ => rfl⟩⟩
  · intro k' m hm
    by_cases hk : k' = k
    · subst hk; simp only [aget_aset_eq, Option.some.injEq] at hm; exact ⟨hm.symm, hblob⟩
    · simp only [aget_aset_ne _ _ _ _ hk] at hm; exact hd.meta_ok k' m hm
  · intro l k' hl
    exact hg.2 k' (hd.link_ok l k' hl)
  · exact {
      done_ok := fun j k' hj hr => by
        by_cases hji : j = p.idx
        · subst hji
          have := req_store_inj p hreq hr; subst this
          simp [aget_aset_eq]
        · exact hg.2 k' (hp.done_ok j k' (by simp at hj; omega) hr)
      sync_ready := fun j l k' hj hr => by
        have hj' : p.idx ≤ j := by simp at hj; omega
        rcases hp.sync_ready j l k' hj' hr with h1 | ⟨i, k2, hi1, hi2, hi3, hi4⟩
        · exact Or.inl (hg.2 k' h1)
        · by_cases hii : i = p.idx
          · subst hii
            have := req_store_inj p hreq hi3; subst this; subst hi4
            exact Or.inl (by simp [aget_aset_eq])
          · exact Or.inr ⟨i, k2, by simp; omega, hi2, hi3, hi4⟩
      tmp_full := fun k' hr hpc' => by simp at hpc'
      blob_pub := fun k' hr hpc' => by simp at hpc'
      tmp_meta := fun k' hr hpc' => by simp at hpc'
      tmp_link := fun l k' hr hpc' => by simp at hpc' }
  · intro t ht
    exact tget_tdel_ne _ _ _ (ne_of_fst_ne ht)

theorem req_sync_inj {l l' : Loc} {k k' : Key} (h : p.reqs[p.idx]? = some (.sync l k))
    (h' : p.reqs[p.idx]? = some (.sync l' k')) : l' = l ∧ k' = k := by
  rw [h] at h'; cases h'; exact ⟨rfl, rfl⟩

/-- `os.symlink(blob, tmp)` -/
theorem own_tmp_link (l : Loc) (k : Key)
    (hreq : p.reqs[p.idx]? = some (.sync l k)) (hd : DiskInv V d) (hp : ProcInv V d p) :
    let d' : Disk := { d with tmpLinks := tset d.tmpLinks (p.id, p.idx) k }
    let p' : Proc := { p with pc := 2 }
    DiskInv V d' ∧ ProcInv V d' p' ∧ StepFrame d d' p := by
  refine ⟨⟨hd.blob_ok, hd.meta_ok, hd.link_ok⟩, ?_, ⟨Grows.refl d, fun _ _ => rfl, ?_⟩⟩
  · exact {
      done_ok := hp.done_ok
      sync_ready := hp.sync_ready
      tmp_full := fun k' hr _ => by
        have h1 : p.reqs[p.idx]? = some (.store k') := hr
        rw [hreq] at h1; cases h1
      blob_pub := fun k' hr _ => by
        have h1 : p.reqs[p.idx]? = some (.store k') := hr
        rw [hreq] at h1; cases h1
      tmp_meta := fun k' hr _ => by
        have h1 : p.reqs[p.idx]? = some (.store k') := hr
        rw [hreq] at h1; cases h1
      tmp_link := fun l' k' hr _ => by
        obtain ⟨_, hk⟩ := req_sync_inj p hreq hr
        subst hk
        simp [tget_tset_eq] }
  · intro t ht
    exact tget_tset_ne _ _ _ _ (ne_of_fst_ne ht)

/-- `os.replace(tmp link, location)`: the request is complete -/
theorem own_publish_link (l : Loc) (k : Key)
    (hreq : p.reqs[p.idx]? = some (.sync l k)) (hd : DiskInv V d) (hp : ProcInv V d p) :
    let d' : Disk := { d with links := lset d.links l k, tmpLinks := tdel d.tmpLinks (p.id, p.idx) }
    let p' : Proc := { p with idx := p.idx + 1, pc := 0 }
    DiskInv V d' ∧ ProcInv V d' p' ∧ StepFrame d d' p := by
  have hmeta : (aget d.metas k).isSome := by
    rcases hp.sync_ready p.idx l k (Nat.le_refl _) hreq with h | ⟨i, _, h1, h2, _, _⟩
    · exact h
    · omega
  refine ⟨⟨hd.blob_ok, hd.meta_ok, ?_⟩, ?_, ⟨Grows.refl d, fun _ _ => rfl, ?_⟩⟩
  · intro l' k' hl
    by_cases hll : l' = l
    · subst hll; simp only [lget_lset_eq, Option.some.injEq] at hl; subst hl; exact hmeta
    · simp only [lget_lset_ne _ _ _ _ hll] at hl; exact hd.link_ok l' k' hl
  · exact {
      done_ok := fun j k' hj hr => by
        by_cases hji : j = p.idx
        · subst hji
          have h1 : p.reqs[p.idx]? = some (.store k') := hr
          rw [hreq] at h1; cases h1
        · exact hp.done_ok j k' (by simp at hj; omega) hr
      sync_ready := fun j l' k' hj hr => by
        have hj' : p.idx ≤ j := by simp at hj; omega
        rcases hp.sync_ready j l' k' hj' hr with h1 | ⟨i, k2, hi1, hi2, hi3, hi4⟩
        · exact Or.inl h1
        · by_cases hii : i = p.idx
          · subst hii
            have h1 : p.reqs[p.idx]? = some (.store k2) := hi3
            rw [hreq] at h1; cases h1
          · exact Or.inr ⟨i, k2, by simp; omega, hi2, hi3, hi4⟩
      tmp_full := fun k' hr hpc' => by simp at hpc'
      blob_pub := fun k' hr hpc' => by simp at hpc'
      tmp_meta := fun k' hr hpc' => by simp at hpc'
      tmp_link := fun l k' hr hpc' => by simp at hpc' }
  · intro t ht
    exact tget_tdel_ne _ _ _ (ne_of_fst_ne ht)

end Publish
end Dds

namespace Dds
open List

theorem own_step (V : Truth) (d : Disk) (p : Proc) (hd : DiskInv V d) (hp : ProcInv V d p) :
    DiskInv V (microStep V d p).1 ∧ ProcInv V (microStep V d p).1 (microStep V d p).2 ∧
    StepFrame d (microStep V d p).1 p := by
  cases hreq : p.reqs[p.idx]? with
  | none =>
    have : microStep V d p = (d, p) := by simp [microStep, hreq]
    rw [this]
    exact ⟨hd, hp, ⟨Grows.refl d, fun _ _ => rfl, fun _ _ => rfl⟩⟩
  | some r =>
    cases r with
    | store k =>
      have hpcs : p.pc = 0 ∨ p.pc = 1 ∨ p.pc = 2 ∨ p.pc = 3 ∨ p.pc = 4 ∨ p.pc = 5 ∨ ∃ n, p.pc = n + 6 := by
        by_cases h : p.pc < 6
        · omega
        · exact Or.inr (Or.inr (Or.inr (Or.inr (Or.inr (Or.inr ⟨p.pc - 6, by omega⟩)))))
      rcases hpcs with h | h | h | h | h | h | ⟨n, h⟩
      · have : microStep V d p = ({ d with tmpFiles := tset d.tmpFiles (p.id, p.idx) [] }, { p with pc := 1 }) := by
          simp [microStep, hreq, h]
        rw [this]
        exact own_tmp_step V d p k [] 1 hreq hd hp (by omega) (by omega)
      · have : microStep V d p = ({ d with tmpFiles := tset d.tmpFiles (p.id, p.idx) (halves (V.content k)).1 }, { p with pc := 2 }) := by
          simp [microStep, hreq, h]
        rw [this]
        exact own_tmp_step V d p k _ 2 hreq hd hp (by omega) (by omega)
      · have : microStep V d p = ({ d with tmpFiles := tset d.tmpFiles (p.id, p.idx) ((halves (V.content k)).1 ++ (halves (V.content k)).2) }, { p with pc := 3 }) := by
          simp [microStep, hreq, h]
        rw [this]
        exact own_tmp_step V d p k _ 3 hreq hd hp (fun _ => halves_append _) (by omega)
      · have ht := hp.tmp_full k hreq h
        have : microStep V d p = ({ d with blobs := aset d.blobs k (V.content k), tmpFiles := tdel d.tmpFiles (p.id, p.idx) }, { p with pc := 4 }) := by
          simp [microStep, hreq, h, ht]
        rw [this]
        exact own_publish_blob V d p k hreq hd hp h
      · have : microStep V d p = ({ d with tmpFiles := tset d.tmpFiles (p.id, p.idx) [] }, { p with pc := 5 }) := by
          simp [microStep, hreq, h]
        rw [this]
        exact own_tmp_step V d p k [] 5 hreq hd hp (by omega) (by omega)
      · have : microStep V d p = ({ d with tmpFiles := tset d.tmpFiles (p.id, p.idx) (V.metaOf k).toUTF8.data.toList }, { p with pc := 6 }) := by
          simp [microStep, hreq, h]
        rw [this]
        exact own_tmp_step V d p k _ 6 hreq hd hp (by omega) (by omega)
      · have ht := hp.tmp_meta k hreq (by omega)
        obtain ⟨b, hb⟩ := Option.isSome_iff_exists.mp ht
        have : microStep V d p = ({ d with metas := aset d.metas k (V.metaOf k), tmpFiles := tdel d.tmpFiles (p.id, p.idx) }, { p with idx := p.idx + 1, pc := 0 }) := by
          simp [microStep, hreq, h, hb]
        rw [this]
        exact own_publish_meta V d p k hreq hd hp (by omega)
    | sync l k =>
      have hpcs : p.pc = 0 ∨ p.pc = 1 ∨ ∃ n, p.pc = n + 2 := by
        by_cases h : p.pc < 2
        · omega
        · exact Or.inr (Or.inr ⟨p.pc - 2, by omega⟩)
      rcases hpcs with h | h | ⟨n, h⟩
      · have : microStep V d p = (d, { p with pc := 1 }) := by simp [microStep, hreq, h]
        rw [this]
        refine ⟨hd, ?_, ⟨Grows.refl d, fun _ _ => rfl, fun _ _ => rfl⟩⟩
        exact {
          done_ok := hp.done_ok
          sync_ready := hp.sync_ready
          tmp_full := fun k' hr hpc' => by simp at hpc'
          blob_pub := fun k' hr hpc' => by simp at hpc'
          tmp_meta := fun k' hr hpc' => by simp at hpc'
          tmp_link := fun l' k' hr hpc' => by simp at hpc' }
      · have : microStep V d p = ({ d with tmpLinks := tset d.tmpLinks (p.id, p.idx) k }, { p with pc := 2 }) := by
          simp [microStep, hreq, h]
        rw [this]
        exact own_tmp_link V d p l k hreq hd hp
      · have ht := hp.tmp_link l k hreq (by omega)
        have : microStep V d p = ({ d with links := lset d.links l k, tmpLinks := tdel d.tmpLinks (p.id, p.idx) }, { p with idx := p.idx + 1, pc := 0 }) := by
          simp [microStep, hreq, h, ht]
        rw [this]
        exact own_publish_link V d p l k hreq hd hp

end Dds

namespace Dds
open List

theorem inv_step (V : Truth) (s : Sys) (i : Nat) (h : SysInv V s) : SysInv V (s.stepAt V i) := by
  unfold Sys.stepAt
  cases hp : s.procs[i]? with
  | none => simpa using h
  | some p =>
    obtain ⟨hd, hps, hdist⟩ := h
    have hi : i < s.procs.length := by
      rcases List.getElem?_eq_some_iff.mp hp with ⟨hi, _⟩; exact hi
    have hpe : s.procs[i] = p := by
      rcases List.getElem?_eq_some_iff.mp hp with ⟨_, he⟩; exact he
    have hpm : p ∈ s.procs := mem_of_getElem? hp
    obtain ⟨hd', hp', hfr⟩ := own_step V s.disk p hd (hps p hpm)
    have hid := (microStep_id V s.disk p).1
    have hdd := pairwise_iff_getElem.mp hdist
    simp only []
    refine ⟨hd', ?_, ?_⟩
    · intro q hq
      rcases getElem_of_mem hq with ⟨j, hj, hjq⟩
      simp only [length_set] at hj
      rw [getElem_set] at hjq
      split at hjq
      · rw [← hjq]; exact hp'
      · rename_i hne
        have hqm : q ∈ s.procs := by rw [← hjq]; exact getElem_mem hj
        have hidne : q.id ≠ p.id := by
          rcases Nat.lt_or_gt_of_ne hne with hlt | hgt
          · have := hdd i j hi hj hlt; rw [hpe, hjq] at this; exact fun e => this e.symm
          · have := hdd j i hj hi hgt; rw [hpe, hjq] at this; exact this
        exact (hps q hqm).frame hfr.grows (fun n => hfr.files (q.id, n) hidne) (fun n => hfr.links (q.id, n) hidne)
    · rw [pairwise_iff_getElem]
      intro a b ha hb hab
      simp only [length_set] at ha hb
      simp only [getElem_set]
      by_cases hia : i = a <;> by_cases hib : i = b
      · omega
      · subst hia
        have := hdd i b hi hb hab; rw [hpe] at this
        simp only [if_true, if_neg hib, hid]; exact this
      · subst hib
        have := hdd a i ha hi hab; rw [hpe] at this
        simp only [if_true, if_neg hia, hid]; exact this
      · simp only [hia, hib, if_false]; exact hdd a b ha hb hab

theorem inv_run (V : Truth) : ∀ (sched : List Nat) (s : Sys), SysInv V s → SysInv V (s.run V sched)
  | [], _, h => h
  | i :: is, s, h => inv_run V is _ (inv_step V s i h)

/-- a reader that finds a blob present gets the right, complete content and metadata -/
theorem reader_correct (V : Truth) (d : Disk) (h : DiskInv V d) (k : Key) (hk : d.hasBlob k = true) :
    d.fetch k = some (V.content k, V.metaOf k) := by
  unfold Disk.hasBlob at hk
  unfold Disk.fetch
  cases hb : aget d.blobs k with
  | none => simp [hb] at hk
  | some b =>
    cases hm : aget d.metas k with
    | none => simp [hm] at hk
    | some m => simp [h.blob_ok k b hb, (h.meta_ok k m hm).1]

/-- a committed path always resolves to a key whose blob is complete -/
theorem resolve_complete (V : Truth) (d : Disk) (h : DiskInv V d) (l : Loc) (k : Key) (hl : d.resolve l = some k) :
    d.hasBlob k = true := by
  have hm := h.link_ok l k hl
  obtain ⟨m, hm'⟩ := Option.isSome_iff_exists.mp hm
  have hb := (h.meta_ok k m hm').2
  simp [Disk.hasBlob, hm, hb]

/-- dropping processes (they were killed) keeps the invariant: nothing on the disk depends on them -/
theorem inv_kill (V : Truth) (d : Disk) (ps : List Proc) (alive : Proc → Bool) (h : SysInv V ⟨d, ps⟩) :
    SysInv V ⟨d, ps.filter alive⟩ :=
  ⟨h.1, fun p hp => h.2.1 p (mem_filter.mp hp).1, h.2.2.sublist filter_sublist⟩

/-- a process started later on whatever the disk holds (fresh id, its syncs refer to keys it stores itself or
that are already published) joins the invariant -/
theorem inv_spawn (V : Truth) (d : Disk) (ps : List Proc) (q : Proc) (h : SysInv V ⟨d, ps⟩)
    (hfresh : ∀ p ∈ ps, p.id ≠ q.id) (hidx : q.idx = 0) (hpc : q.pc = 0)
    (hready : ∀ (j : Nat) l k, q.reqs[j]? = some (Req.sync l k) →
      (aget d.metas k).isSome ∨ ∃ (i : Nat) (k' : Key), i < j ∧ q.reqs[i]? = some (Req.store k') ∧ k' = k) :
    SysInv V ⟨d, ps ++ [q]⟩ := by
  refine ⟨h.1, ?_, ?_⟩
  · intro p hp
    rcases mem_append.mp hp with hp | hp
    · exact h.2.1 p hp
    · simp only [mem_singleton] at hp
      subst hp
      exact {
        done_ok := fun j k hj _ => by omega
        sync_ready := fun j l k _ hr => by
          rcases hready j l k hr with h1 | ⟨i, k', h1, h2, h3⟩
          · exact Or.inl h1
          · exact Or.inr ⟨i, k', by omega, h1, h2, h3⟩
        tmp_full := fun k _ hp3 => by omega
        blob_pub := fun k _ hp4 => by omega
        tmp_meta := fun k _ hp6 => by omega
        tmp_link := fun l k _ hp2 => by omega }
  · rw [pairwise_append]
    exact ⟨h.2.2, pairwise_singleton _ _, fun a ha b hb => by simp only [mem_singleton] at hb; subst hb; exact hfresh a ha⟩

end Dds

namespace Dds
open List

/-- a micro-operation changes the published links at most at the location of the process's current sync
request, to that request's key -/
theorem microStep_links (V : Truth) (d : Disk) (p : Proc) (hp : ProcInv V d p) :
    (microStep V d p).1.links = d.links ∨
    ∃ l k, p.reqs[p.idx]? = some (.sync l k) ∧ (microStep V d p).1.links = lset d.links l k := by
  unfold microStep
  cases hreq : p.reqs[p.idx]? with
  | none => exact Or.inl rfl
  | some r =>
    cases r with
    | store k =>
      simp only []
      split <;> try exact Or.inl rfl
      · split <;> exact Or.inl rfl
      · split <;> exact Or.inl rfl
    | sync l k =>
      simp only []
      split <;> try exact Or.inl rfl
      · rename_i hpc1 hpc2
        have h2 : 2 ≤ p.pc := by
          rcases Nat.lt_or_ge p.pc 2 with h | h
          · exfalso
            have : p.pc = 0 ∨ p.pc = 1 := by omega
            rcases this with h0 | h1
            · exact hpc1 h0
            · exact hpc2 h1
          · exact h
        have ht := hp.tmp_link l k hreq h2
        simp only [ht]
        exact Or.inr ⟨l, k, rfl, rfl⟩

theorem stepAt_reqs (V : Truth) (s : Sys) (i : Nat) (l : Loc) (k : Key)
    (h : ∃ p ∈ (s.stepAt V i).procs, Req.sync l k ∈ p.reqs) : ∃ p ∈ s.procs, Req.sync l k ∈ p.reqs := by
  unfold Sys.stepAt at h
  cases hp : s.procs[i]? with
  | none => simpa [hp] using h
  | some p =>
    simp only [hp] at h
    obtain ⟨q, hq, hqr⟩ := h
    rcases mem_or_eq_of_mem_set hq with hq' | hq'
    · exact ⟨q, hq', hqr⟩
    · subst hq'
      rw [(microStep_id V s.disk p).2] at hqr
      exact ⟨p, mem_of_getElem? hp, hqr⟩

theorem reqs_stepAt (V : Truth) (s : Sys) (i : Nat) (l : Loc) (k : Key)
    (h : ∃ p ∈ s.procs, Req.sync l k ∈ p.reqs) : ∃ p ∈ (s.stepAt V i).procs, Req.sync l k ∈ p.reqs := by
  unfold Sys.stepAt
  cases hp : s.procs[i]? with
  | none => simpa using h
  | some p =>
    simp only []
    obtain ⟨q, hq, hqr⟩ := h
    have hi : i < s.procs.length := by
      rcases List.getElem?_eq_some_iff.mp hp with ⟨hi, _⟩; exact hi
    have hpe : s.procs[i] = p := by
      rcases List.getElem?_eq_some_iff.mp hp with ⟨_, he⟩; exact he
    rcases getElem_of_mem hq with ⟨j, hj, hjq⟩
    by_cases hij : i = j
    · subst hij
      refine ⟨(microStep V s.disk p).2, ?_, ?_⟩
      · exact mem_iff_getElem.mpr ⟨i, by simpa using hi, by simp⟩
      · rw [(microStep_id V s.disk p).2, ← hpe, hjq]; exact hqr
    · refine ⟨q, ?_, hqr⟩
      exact mem_iff_getElem.mpr ⟨j, by simpa using hj, by simp [getElem_set, hij, hjq]⟩

/-- at every moment a path resolves to the key it had before or to a key some process is committing it to -/
theorem resolve_old_or_requested (V : Truth) : ∀ (sched : List Nat) (s : Sys), SysInv V s → ∀ (l : Loc) (k : Key),
    (s.run V sched).disk.resolve l = some k →
    s.disk.resolve l = some k ∨ ∃ p ∈ s.procs, Req.sync l k ∈ p.reqs
  | [], _, _, _, _, h => Or.inl h
  | i :: is, s, hinv, l, k, h => by
    have hinv' := inv_step V s i hinv
    rcases resolve_old_or_requested V is (s.stepAt V i) hinv' l k h with h1 | h1
    · -- the link was already there after step i: either it was there before, or step i wrote it
      unfold Sys.stepAt at h1
      cases hp : s.procs[i]? with
      | none => simp only [hp] at h1; exact Or.inl h1
      | some p =>
        simp only [hp] at h1
        have hpm : p ∈ s.procs := mem_of_getElem? hp
        rcases microStep_links V s.disk p (hinv.2.1 p hpm) with he | ⟨l', k', hreq, he⟩
        · simp only [Disk.resolve, he] at h1; exact Or.inl h1
        · simp only [Disk.resolve, he] at h1
          by_cases hll : l = l'
          · subst hll
            rw [lget_lset_eq] at h1
            cases h1
            exact Or.inr ⟨p, hpm, mem_of_getElem? hreq⟩
          · rw [lget_lset_ne _ _ _ _ hll] at h1; exact Or.inl h1
    · exact Or.inr (stepAt_reqs V s i l k h1)

end Dds
