import DdsProofs.AnalyseInv
import DdsProofs.Memo
/-!
# Edits outside the dependency cone are invisible (C02, C14)

The *cone* of a call is a set of function names closed under "is called / named / kept by". If two versions of the code
agree on every function of the cone, then the analysis (both passes, the load-order check), the run under dds and
plain execution of any function of the cone are **identical** in the two versions: same signatures, same executed
bodies, same values, same store. Hence unrelated definitions and edits never cause a recomputation and never change
a result.
-/
namespace Dds
open List

def Item.calleeName : Item → Option String
  | .call f _ | .ref f _ | .evalCall f _ => some f
  | .callArgs f _ _ _ _ _ => some f
  | .keep _ f _ _ _ _ _ => some f
  | .load _ _ => none

/-- the functions named in the body of `fn` are in `cone` -/
def Fn.callsIn (fn : Fn) (cone : List String) : Prop := ∀ it ∈ fn.items, ∀ f, it.calleeName = some f → f ∈ cone

/-- `cone` is closed under calls (in `W`) -/
def ConeClosed (W : World) (cone : List String) : Prop := ∀ n ∈ cone, ∀ g, W.find n = some g → g.callsIn cone

/-- the two versions agree on the functions of the cone -/
def AgreeOn (W1 W2 : World) (cone : List String) : Prop := ∀ n ∈ cone, W1.find n = W2.find n

/-! ## The analysis -/

theorem plain_congr {m : Nat} {W1 W2 : World} {rec1 rec2 : Analyse} {fn : Fn} {isig : Sg} {stack : List String}
    (st : VisitSt) (f : String) (args : List AstArg) (kwargs : List (String × AstArg)) (line : Nat)
    (hfind : W1.find f = W2.find f)
    (hrec : ∀ g, W1.find f = some g → ∀ refs stk ctx, rec1 refs stk g ctx = rec2 refs stk g ctx) :
    visitItem.plain m W1 rec1 fn isig stack st f args kwargs line = visitItem.plain m W2 rec2 fn isig stack st f args kwargs line := by
  unfold visitItem.plain
  rw [← hfind]
  cases siteCtx m fn isig st.inters line st.refs st.loads with
  | error e => rfl
  | ok ctx =>
    simp only [ok_bind]
    cases hf : W1.find f with
    | none => rfl
    | some g =>
      simp only
      by_cases hs : f ∈ stack
      · simp [hs]
      · simp only [hs, if_false]
        cases liftA (getArgCtxAst m g.params args kwargs) with
        | error e => rfl
        | ok named =>
          simp only [ok_bind]
          rw [hrec g hf]

theorem visitItem_congr {m : Nat} {W1 W2 : World} {rec1 rec2 : Analyse} {fn : Fn} {isig : Sg} {stack : List String}
    (st : VisitSt) (it : Item)
    (hfind : ∀ f, it.calleeName = some f → W1.find f = W2.find f)
    (hrec : ∀ f, it.calleeName = some f → ∀ g, W1.find f = some g → ∀ refs stk ctx, rec1 refs stk g ctx = rec2 refs stk g ctx) :
    visitItem m W1 rec1 fn isig stack st it = visitItem m W2 rec2 fn isig stack st it := by
  cases it with
  | call f l => simp only [visitItem]; exact plain_congr st f [] [] l (hfind f rfl) (hrec f rfl)
  | callArgs f a k ra rk l => simp only [visitItem]; exact plain_congr st f a k l (hfind f rfl) (hrec f rfl)
  | ref f l =>
    simp only [visitItem]
    by_cases hs : f ∈ st.seen
    · simp [hs]
    · simp only [hs, if_false]; rw [plain_congr st f [] [] l (hfind f rfl) (hrec f rfl)]
  | keep path f a k ra rk l =>
    simp only [visitItem]
    rw [← hfind f rfl]
    cases siteCtx m fn isig st.inters l st.refs st.loads with
    | error e => rfl
    | ok ctx =>
      simp only [ok_bind]
      by_cases hp : pathAbsolute path = true
      · simp only [hp, Bool.not_true, Bool.false_eq_true, if_false]
        cases hf : W1.find f with
        | none => rfl
        | some g =>
          simp only
          by_cases hs : f ∈ stack
          · simp [hs]
          · simp only [hs, if_false]
            cases liftA (getArgCtxAst m g.params a k) with
            | error e => rfl
            | ok named =>
              simp only [ok_bind]
              rw [hrec f rfl g hf]
      · simp [hp]
  | load path l => rfl
  | evalCall f l => rfl

theorem visitItems_congr {m : Nat} {W1 W2 : World} {rec1 rec2 : Analyse} {fn : Fn} {isig : Sg} {stack : List String} :
    ∀ (its : List Item) (st : VisitSt),
      (∀ it ∈ its, ∀ f, it.calleeName = some f → W1.find f = W2.find f) →
      (∀ it ∈ its, ∀ f, it.calleeName = some f → ∀ g, W1.find f = some g → ∀ refs stk ctx, rec1 refs stk g ctx = rec2 refs stk g ctx) →
      visitItems m W1 rec1 fn isig stack st its = visitItems m W2 rec2 fn isig stack st its
  | [], _, _, _ => rfl
  | it :: its, st, hfind, hrec => by
    simp only [visitItems]
    rw [visitItem_congr st it (hfind it mem_cons_self) (hrec it mem_cons_self)]
    cases visitItem m W2 rec2 fn isig stack st it with
    | error e => rfl
    | ok t =>
      simp only [ok_bind]
      exact visitItems_congr its t (fun x hx => hfind x (mem_cons_of_mem _ hx)) (fun x hx => hrec x (mem_cons_of_mem _ hx))

/-- **the analysis of a call depends on its cone only** -/
theorem analyse_congr {m : Nat} {W1 W2 : World} {cone : List String} (hag : AgreeOn W1 W2 cone) (hcl : ConeClosed W1 cone) :
    ∀ (fuel : Nat) (refs : Refs) (stack : List String) (fn : Fn) (ctx : ArgCtx), fn.callsIn cone →
      analyse m W1 fuel refs stack fn ctx = analyse m W2 fuel refs stack fn ctx
  | 0, _, _, _, _, _ => rfl
  | fuel + 1, refs, stack, fn, ctx, hfn => by
    unfold analyse
    have hv : ∀ isig, visitItems m W1 (analyse m W1 fuel) fn isig stack { refs := refs } fn.items =
        visitItems m W2 (analyse m W2 fuel) fn isig stack { refs := refs } fn.items := by
      intro isig
      refine visitItems_congr fn.items _ (fun it hit f hf => hag f (hfn it hit f hf)) ?_
      intro it hit f hf g hg refs' stk ctx'
      exact analyse_congr hag hcl fuel refs' stk g ctx' (hcl f (hfn it hit f hf) g hg)
    simp only [hv]

/-! ## The indirect pre-pass and the load-order check -/

theorem indirect_sub_congr {W1 W2 : World} {rec1 rec2 : IndRec} {stack : List String} (st : IndSt) (f : String)
    (hfind : W1.find f = W2.find f)
    (hrec : ∀ g, W1.find f = some g → ∀ stk s, rec1 stk s g = rec2 stk s g) :
    indirectItems.sub W1 rec1 stack st f = indirectItems.sub W2 rec2 stack st f := by
  unfold indirectItems.sub
  rw [← hfind]
  cases hf : W1.find f with
  | none => rfl
  | some g =>
    simp only
    by_cases hs : f ∈ stack
    · simp [hs]
    · simp only [hs, if_false]; exact hrec g hf _ _

theorem indirectItems_congr {W1 W2 : World} {rec1 rec2 : IndRec} {stack : List String} :
    ∀ (its : List Item) (st : IndSt) (seen : List String),
      (∀ it ∈ its, ∀ f, it.calleeName = some f → W1.find f = W2.find f) →
      (∀ it ∈ its, ∀ f, it.calleeName = some f → ∀ g, W1.find f = some g → ∀ stk s, rec1 stk s g = rec2 stk s g) →
      indirectItems W1 rec1 stack st seen its = indirectItems W2 rec2 stack st seen its
  | [], _, _, _, _ => rfl
  | it :: its, st, seen, hfind, hrec => by
    have ih := fun st' seen' => indirectItems_congr (W1 := W1) (W2 := W2) (rec1 := rec1) (rec2 := rec2) (stack := stack) its st' seen'
      (fun x hx => hfind x (mem_cons_of_mem _ hx)) (fun x hx => hrec x (mem_cons_of_mem _ hx))
    cases it with
    | call f l =>
      simp only [indirectItems]
      rw [indirect_sub_congr st f (hfind _ mem_cons_self f rfl) (hrec _ mem_cons_self f rfl)]
      cases indirectItems.sub W2 rec2 stack st f with
      | error e => rfl
      | ok st' => simp only [ok_bind]; exact ih _ _
    | callArgs f a k ra rk l =>
      simp only [indirectItems]
      rw [indirect_sub_congr st f (hfind _ mem_cons_self f rfl) (hrec _ mem_cons_self f rfl)]
      cases indirectItems.sub W2 rec2 stack st f with
      | error e => rfl
      | ok st' => simp only [ok_bind]; exact ih _ _
    | ref f l =>
      simp only [indirectItems]
      by_cases hs : f ∈ seen
      · simp only [hs, if_true]; exact ih _ _
      · simp only [hs, if_false]
        rw [indirect_sub_congr st f (hfind _ mem_cons_self f rfl) (hrec _ mem_cons_self f rfl)]
        cases indirectItems.sub W2 rec2 stack st f with
        | error e => rfl
        | ok st' => simp only [ok_bind]; exact ih _ _
    | keep path f a k ra rk l =>
      simp only [indirectItems]
      by_cases hp : pathAbsolute path = true
      · simp only [hp, Bool.not_true, Bool.false_eq_true, if_false]
        rw [indirect_sub_congr st f (hfind _ mem_cons_self f rfl) (hrec _ mem_cons_self f rfl)]
        cases indirectItems.sub W2 rec2 stack st f with
        | error e => rfl
        | ok st' => simp only [ok_bind]; exact ih _ _
      · simp [hp]
    | load path l =>
      simp only [indirectItems]
      by_cases hp : pathAbsolute path = true
      · simp only [hp, Bool.not_true, Bool.false_eq_true, if_false]; exact ih _ _
      · simp [hp]
    | evalCall f l => rfl

theorem indirectFn_congr {W1 W2 : World} {cone : List String} (hag : AgreeOn W1 W2 cone) (hcl : ConeClosed W1 cone) :
    ∀ (fuel : Nat) (stack : List String) (st : IndSt) (fn : Fn), fn.callsIn cone →
      indirectFn W1 fuel stack st fn = indirectFn W2 fuel stack st fn
  | 0, _, _, _, _ => rfl
  | fuel + 1, stack, st, fn, hfn => by
    unfold indirectFn
    by_cases hs : fn.name ∈ st.2
    · simp [hs]
    · simp only [hs, if_false]
      rw [indirectItems_congr fn.items _ _ (fun it hit f hf => hag f (hfn it hit f hf))
        (fun it hit f hf g hg stk s => indirectFn_congr hag hcl fuel stk s g (hcl f (hfn it hit f hf) g hg))]

theorem orderItems_congr {W1 W2 : World} {stores : List String} {rec1 rec2 : OrdRec} :
    ∀ (its : List Item) (produced : List String),
      (∀ it ∈ its, ∀ f, it.calleeName = some f → W1.find f = W2.find f) →
      (∀ it ∈ its, ∀ f, it.calleeName = some f → ∀ g, W1.find f = some g → ∀ p, rec1 p g = rec2 p g) →
      orderItems W1 stores rec1 produced its = orderItems W2 stores rec2 produced its
  | [], _, _, _ => rfl
  | it :: its, produced, hfind, hrec => by
    have ih := fun p => orderItems_congr (W1 := W1) (W2 := W2) (stores := stores) (rec1 := rec1) (rec2 := rec2) its p
      (fun x hx => hfind x (mem_cons_of_mem _ hx)) (fun x hx => hrec x (mem_cons_of_mem _ hx))
    have step : ∀ f, it.calleeName = some f → ∀ (k : List String → List String),
        (match W1.find f with
          | none => (.error .objectNotFound : Except DdsErr (List String))
          | some g => do let p ← rec1 produced g; orderItems W1 stores rec1 (k p) its) =
        (match W2.find f with
          | none => .error .objectNotFound
          | some g => do let p ← rec2 produced g; orderItems W2 stores rec2 (k p) its) := by
      intro f hf k
      rw [← hfind _ mem_cons_self f hf]
      cases hg : W1.find f with
      | none => rfl
      | some g =>
        simp only
        rw [hrec _ mem_cons_self f hf g hg]
        cases rec2 produced g with
        | error e => rfl
        | ok p => simp only [ok_bind]; exact ih _
    cases it with
    | call f l => simp only [orderItems]; exact step f rfl id
    | ref f l => simp only [orderItems]; exact step f rfl id
    | callArgs f a k ra rk l => simp only [orderItems]; exact step f rfl id
    | keep path f a k ra rk l => simp only [orderItems]; exact step f rfl (fun p => path :: p)
    | load path l =>
      simp only [orderItems]
      split
      · rfl
      · exact ih _
    | evalCall f l => rfl

theorem orderFn_congr {W1 W2 : World} {cone : List String} (hag : AgreeOn W1 W2 cone) (hcl : ConeClosed W1 cone)
    (stores : List String) :
    ∀ (fuel : Nat) (produced : List String) (fn : Fn), fn.callsIn cone →
      orderFn W1 stores fuel produced fn = orderFn W2 stores fuel produced fn
  | 0, _, _, _ => rfl
  | fuel + 1, produced, fn, hfn => by
    unfold orderFn
    rw [orderItems_congr fn.items produced (fun it hit f hf => hag f (hfn it hit f hf))
      (fun it hit f hf g hg p => orderFn_congr hag hcl stores fuel p g (hcl f (hfn it hit f hf) g hg))]

/-! ## Running under dds, and plain execution -/

theorem keepExec_congr {rq : List (String × Sg)} {rec1 rec2 : RunRec} (st : XSt) (path : String) (g : Fn) (env : Env)
    (h : rec1 st g env = rec2 st g env) : keepExec rq rec1 st path g env = keepExec rq rec2 st path g env := by
  unfold keepExec; rw [h]

theorem runCall_congr {W1 W2 : World} {rq : List (String × Sg)} {rec1 rec2 : RunRec} (st : XSt) (f : String)
    (pos : List RVal) (kw : List (String × RVal)) (kp : Option String)
    (hfind : W1.find f = W2.find f) (hrec : ∀ g, W1.find f = some g → ∀ s env, rec1 s g env = rec2 s g env) :
    runCall W1 rq rec1 st f pos kw kp = runCall W2 rq rec2 st f pos kw kp := by
  unfold runCall
  rw [← hfind]
  cases hf : W1.find f with
  | none => rfl
  | some g =>
    simp only
    cases bindRun g.params pos kw 0 with
    | none => rfl
    | some env' =>
      simp only
      cases kp with
      | some path => exact keepExec_congr st path g env' (hrec g hf _ _)
      | none =>
        simp only [callExec]
        cases g.storePath with
        | some p => exact keepExec_congr st p g env' (hrec g hf _ _)
        | none => exact hrec g hf _ _

theorem runItemRes_congr {W1 W2 : World} {rq : List (String × Sg)} {rec1 rec2 : RunRec} (env : Env) (st : XSt)
    (results : List RVal) (it : Item)
    (hfind : ∀ f, it.calleeName = some f → W1.find f = W2.find f)
    (hrec : ∀ f, it.calleeName = some f → ∀ g, W1.find f = some g → ∀ s e, rec1 s g e = rec2 s g e) :
    runItemRes W1 rq rec1 env st results it = runItemRes W2 rq rec2 env st results it := by
  cases it with
  | call f l => simp only [runItemRes]; exact runCall_congr st f _ _ _ (hfind f rfl) (hrec f rfl)
  | ref f l => simp only [runItemRes]; exact runCall_congr st f _ _ _ (hfind f rfl) (hrec f rfl)
  | callArgs f a k ra rk l => simp only [runItemRes]; exact runCall_congr st f _ _ _ (hfind f rfl) (hrec f rfl)
  | keep path f a k ra rk l => simp only [runItemRes]; exact runCall_congr st f _ _ _ (hfind f rfl) (hrec f rfl)
  | load path l => rfl
  | evalCall f l => rfl

theorem runItems_congr {W1 W2 : World} {rq : List (String × Sg)} {rec1 rec2 : RunRec} (fn : Fn) (env : Env) :
    ∀ (its : List Item) (st : XSt) (results : List RVal),
      (∀ it ∈ its, ∀ f, it.calleeName = some f → W1.find f = W2.find f) →
      (∀ it ∈ its, ∀ f, it.calleeName = some f → ∀ g, W1.find f = some g → ∀ s e, rec1 s g e = rec2 s g e) →
      runItems W1 (some rq) rec1 fn env st results its = runItems W2 (some rq) rec2 fn env st results its
  | [], _, _, _, _ => rfl
  | it :: its, st, results, hfind, hrec => by
    rw [runItems_cons, runItems_cons, runItemRes_congr env st results it (hfind it mem_cons_self) (hrec it mem_cons_self)]
    cases runItemRes W2 rq rec2 env st results it with
    | mk r st' =>
      cases r with
      | error e => rfl
      | ok v => exact runItems_congr fn env its st' _ (fun x hx => hfind x (mem_cons_of_mem _ hx)) (fun x hx => hrec x (mem_cons_of_mem _ hx))

theorem bodyValue_ext {W1 W2 : World} (hx : W1.extVersion = W2.extVersion) (fn : Fn) (env : Env) (results : List RVal) :
    bodyValue W1 fn env results = bodyValue W2 fn env results := by
  simp only [bodyValue, hx]

theorem runFn_congr {W1 W2 : World} {cone : List String} (hag : AgreeOn W1 W2 cone) (hcl : ConeClosed W1 cone)
    (hx : W1.extVersion = W2.extVersion) (rq : List (String × Sg)) :
    ∀ (fuel : Nat) (st : XSt) (fn : Fn) (env : Env), fn.callsIn cone →
      runFn W1 rq fuel st fn env = runFn W2 rq fuel st fn env
  | 0, _, _, _, _ => rfl
  | fuel + 1, st, fn, env, hfn => by
    simp only [runFn]
    rw [runItems_congr fn env fn.items _ _ (fun it hit f hf => hag f (hfn it hit f hf))
      (fun it hit f hf g hg s e => runFn_congr hag hcl hx rq fuel s g e (hcl f (hfn it hit f hf) g hg))]
    simp only [bodyValue_ext hx]

theorem plainItemRes_congr {W1 W2 : World} {rec1 rec2 : PlainRec} (env : Env) (st : PSt)
    (results : List RVal) (it : Item)
    (hfind : ∀ f, it.calleeName = some f → W1.find f = W2.find f)
    (hrec : ∀ f, it.calleeName = some f → ∀ g, W1.find f = some g → ∀ s e, rec1 s g e = rec2 s g e) :
    plainItemRes W1 rec1 env st results it = plainItemRes W2 rec2 env st results it := by
  cases it with
  | call f l =>
    simp only [plainItemRes]; rw [← hfind f rfl]
    cases hf : W1.find f with
    | none => rfl
    | some g => simp only; cases bindRun g.params [] [] 0 with
      | none => rfl
      | some e => simp only [hrec f rfl g hf]
  | ref f l =>
    simp only [plainItemRes]; rw [← hfind f rfl]
    cases hf : W1.find f with
    | none => rfl
    | some g => simp only; cases bindRun g.params [] [] 0 with
      | none => rfl
      | some e => simp only [hrec f rfl g hf]
  | callArgs f a k ra rk l =>
    simp only [plainItemRes]; rw [← hfind f rfl]
    cases hf : W1.find f with
    | none => rfl
    | some g => simp only; cases bindRun g.params (zipArgs results env a ra) (zipKw results env k rk) 0 with
      | none => rfl
      | some e => simp only [hrec f rfl g hf]
  | keep path f a k ra rk l =>
    simp only [plainItemRes]; rw [← hfind f rfl]
    cases hf : W1.find f with
    | none => rfl
    | some g => simp only; cases bindRun g.params (zipArgs results env a ra) (zipKw results env k rk) 0 with
      | none => rfl
      | some e => simp only [hrec f rfl g hf]
  | load path l => rfl
  | evalCall f l =>
    simp only [plainItemRes]; rw [← hfind f rfl]
    cases hf : W1.find f with
    | none => rfl
    | some g => simp only; cases bindRun g.params [] [] 0 with
      | none => rfl
      | some e => simp only [hrec f rfl g hf]

theorem plainItems_congr {W1 W2 : World} {rec1 rec2 : PlainRec} (env : Env) :
    ∀ (its : List Item) (st : PSt) (results : List RVal),
      (∀ it ∈ its, ∀ f, it.calleeName = some f → W1.find f = W2.find f) →
      (∀ it ∈ its, ∀ f, it.calleeName = some f → ∀ g, W1.find f = some g → ∀ s e, rec1 s g e = rec2 s g e) →
      plainItems W1 rec1 env st results its = plainItems W2 rec2 env st results its
  | [], _, _, _, _ => rfl
  | it :: its, st, results, hfind, hrec => by
    rw [plainItems_cons, plainItems_cons, plainItemRes_congr env st results it (hfind it mem_cons_self) (hrec it mem_cons_self)]
    cases plainItemRes W2 rec2 env st results it with
    | mk r st' =>
      cases r with
      | error e => rfl
      | ok v => exact plainItems_congr env its st' _ (fun x hx => hfind x (mem_cons_of_mem _ hx)) (fun x hx => hrec x (mem_cons_of_mem _ hx))

theorem plainFn_congr {W1 W2 : World} {cone : List String} (hag : AgreeOn W1 W2 cone) (hcl : ConeClosed W1 cone)
    (hx : W1.extVersion = W2.extVersion) :
    ∀ (fuel : Nat) (st : PSt) (fn : Fn) (env : Env), fn.callsIn cone →
      plainFn W1 fuel st fn env = plainFn W2 fuel st fn env
  | 0, _, _, _, _ => rfl
  | fuel + 1, st, fn, env, hfn => by
    simp only [plainFn]
    rw [plainItems_congr env fn.items _ _ (fun it hit f hf => hag f (hfn it hit f hf))
      (fun it hit f hf g hg s e => plainFn_congr hag hcl hx fuel s g e (hcl f (hfn it hit f hf) g hg))]
    simp only [bodyValue_ext hx]

/-! ## One evaluation -/

theorem analysisPhase_congr {m : Nat} {W1 W2 : World} {cone : List String} (hag : AgreeOn W1 W2 cone)
    (hcl : ConeClosed W1 cone) (hfuel : W1.fuel = W2.fuel) (S : PStore) (rq : Request) (hrq : rq.fn ∈ cone) :
    analysisPhase m W1 S rq = analysisPhase m W2 S rq := by
  unfold analysisPhase
  rw [← hag rq.fn hrq]
  cases hf : W1.find rq.fn with
  | none => rfl
  | some fn =>
    have hfn := hcl rq.fn hrq fn hf
    simp only [← hfuel]
    rw [indirectFn_congr hag hcl W1.fuel [] ({}, []) fn hfn]
    have ho : ∀ stores, orderFn W1 stores W1.fuel [] fn = orderFn W2 stores W1.fuel [] fn :=
      fun stores => orderFn_congr hag hcl stores W1.fuel [] fn hfn
    simp only [ho]
    have ha : ∀ named refs0, analysisWith m W1 rq fn named refs0 = analysisWith m W2 rq fn named refs0 := by
      intro named refs0
      unfold analysisWith
      rw [← hfuel, analyse_congr hag hcl W1.fuel refs0 [] fn ⟨named, none⟩ hfn]
    simp only [ha]

/-- **Edits outside the cone are invisible.** If two versions of the code agree on every function that the evaluated
function can reach (and on the non-accepted code), an evaluation gives the same outcome in both: the same value or
error, the same executed bodies, the same signatures, the same store. -/
theorem evalStep_congr {m : Nat} {W1 W2 : World} {cone : List String} (hag : AgreeOn W1 W2 cone)
    (hcl : ConeClosed W1 cone) (hfuel : W1.fuel = W2.fuel) (hx : W1.extVersion = W2.extVersion)
    (S : PStore) (rq : Request) (hrq : rq.fn ∈ cone) :
    evalStep m W1 S rq = evalStep m W2 S rq := by
  unfold evalStep
  rw [← analysisPhase_congr hag hcl hfuel S rq hrq]
  cases ha : analysisPhase m W1 S rq with
  | error e => rfl
  | ok r =>
    obtain ⟨fn, env, fis, paths⟩ := r
    obtain ⟨_, _, _, _, P⟩ := analysisPhase_inv ha
    have hfn := hcl rq.fn hrq fn P.hfind
    simp only [← hfuel, runFn_congr hag hcl hx paths W1.fuel _ fn env hfn]

/-! ## Re-evaluation -/

theorem storeBlob_noop (S : PStore) (k : Sg) (v : RVal) : (S.storeBlob k v).noop = S.noop := by
  unfold PStore.storeBlob; split <;> rfl

def NoopFrame (rec : RunRec) : Prop := ∀ st fn env, (rec st fn env).2.store.noop = st.store.noop

theorem keepExec_noop (rq : List (String × Sg)) (rec : RunRec) (hrec : NoopFrame rec) (st : XSt) (path : String)
    (g : Fn) (env : Env) : (keepExec rq rec st path g env).2.store.noop = st.store.noop := by
  unfold keepExec
  cases aget rq path with
  | none => rfl
  | some key =>
    simp only
    cases sgGet st.store.blobs key with
    | some v => rfl
    | none =>
      simp only
      have h := hrec st g env
      cases hr : rec st g env with
      | mk r st' =>
        rw [hr] at h
        cases r with
        | ok v => simp only [storeBlob_noop]; exact h
        | error e => exact h

theorem runCall_noop (W : World) (rq : List (String × Sg)) (rec : RunRec) (hrec : NoopFrame rec) (st : XSt) (f : String)
    (pos : List RVal) (kw : List (String × RVal)) (kp : Option String) :
    (runCall W rq rec st f pos kw kp).2.store.noop = st.store.noop := by
  unfold runCall
  cases W.find f with
  | none => rfl
  | some g =>
    simp only
    cases bindRun g.params pos kw 0 with
    | none => rfl
    | some env' =>
      simp only
      cases kp with
      | some path => exact keepExec_noop rq rec hrec st path g env'
      | none =>
        simp only [callExec]
        cases g.storePath with
        | some p => exact keepExec_noop rq rec hrec st p g env'
        | none => exact hrec st g env'

theorem runItemRes_noop (W : World) (rq : List (String × Sg)) (rec : RunRec) (hrec : NoopFrame rec) (env : Env) (st : XSt)
    (results : List RVal) (it : Item) : (runItemRes W rq rec env st results it).2.store.noop = st.store.noop := by
  cases it with
  | call f l => exact runCall_noop W rq rec hrec st f _ _ _
  | ref f l => exact runCall_noop W rq rec hrec st f _ _ _
  | callArgs f a k ra rk l => exact runCall_noop W rq rec hrec st f _ _ _
  | keep path f a k ra rk l => exact runCall_noop W rq rec hrec st f _ _ _
  | load path l =>
    simp only [runItemRes]
    cases (aget rq path).orElse (fun _ => aget st.store.paths path) <;> rfl
  | evalCall f l => rfl

theorem runItems_noop (W : World) (rq : List (String × Sg)) (rec : RunRec) (hrec : NoopFrame rec) (fn : Fn) (env : Env) :
    ∀ (its : List Item) (st : XSt) (results : List RVal),
      (runItems W (some rq) rec fn env st results its).2.store.noop = st.store.noop
  | [], _, _ => rfl
  | it :: its, st, results => by
    rw [runItems_cons]
    have h := runItemRes_noop W rq rec hrec env st results it
    cases hr : runItemRes W rq rec env st results it with
    | mk r st' =>
      rw [hr] at h
      cases r with
      | error e => exact h
      | ok v => simp only; rw [runItems_noop W rq rec hrec fn env its st' _]; exact h

theorem runFn_noop (W : World) (rq : List (String × Sg)) : ∀ fuel, NoopFrame (runFn W rq fuel)
  | 0 => fun _ _ _ => rfl
  | fuel + 1 => by
    intro st fn env
    rw [(runFn_succ W rq fuel st fn env).2]
    exact runItems_noop W rq _ (runFn_noop W rq fuel) fn env fn.items _ _

theorem sgGet_storeBlob_self (S : PStore) (k : Sg) (v : RVal) (h : S.noop = false) :
    sgGet (S.storeBlob k v).blobs k = some v := by
  simp [PStore.storeBlob, h, sgGet]

/-- a successful evaluation of a *kept* function on a real store leaves its result under its signature -/
theorem root_blob_stored {m : Nat} {W : World} {S : PStore} {rq : Request} {fn : Fn} {env : Env} {fis : FIS}
    {paths : List (String × Sg)} (ha : analysisPhase m W S rq = .ok (fn, env, fis, paths)) (hs : Stage.eval ∈ rq.stages)
    (hn : S.noop = false) {p : String} (hp : fis.storePath = some p) {v : RVal}
    (hv : (evalStep m W S rq).value = .ok (some v)) :
    sgGet (evalStep m W S rq).store.blobs fis.retSig = some v := by
  obtain ⟨named, refs0, fis0, r, P⟩ := analysisPhase_inv ha
  have k1 := ((pathsOK_iff paths fis).mp ((allStorePaths_ok fis [] paths P.hpaths).2 paths (fun _ _ h => h))).1 p hp
  simp only [evalStep, ha, hs, not_true_eq_false, if_false] at hv ⊢
  cases hb : sgGet S.blobs fis.retSig with
  | some w =>
    simp only [hb, Except.ok.injEq, Option.some.injEq] at hv ⊢
    subst hv
    split <;> simp [sync_blobs, hb]
  | none =>
    simp only [hb] at hv ⊢
    have hno := runFn_noop W paths W.fuel { store := S } fn env
    cases hr : runFn W paths W.fuel { store := S } fn env with
    | mk rv st =>
      rw [hr] at hno
      simp only [hr] at hv ⊢
      cases rv with
      | error e => simp at hv
      | ok w =>
        simp only [hp, k1, Except.ok.injEq, Option.some.injEq] at hv ⊢
        subst hv
        have : st.store.noop = false := by rw [hno]; exact hn
        split <;> simp [sync_blobs, sgGet_storeBlob_self _ _ _ this]

end Dds
