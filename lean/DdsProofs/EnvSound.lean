import DdsProofs.Shape
/-!
# A signature determines the parameter values (`env_sound`)

`Chain` describes how a call comes to be analysed *and* run inside an evaluation: either all its arguments are
known to the analysis (entry call, literals, defaults: `Chain.const`), or some argument is computed at run time
and the analysis uses the context signature of the call site (`Chain.site`).

`env_sound`: two chained calls — possibly in two versions of the code — with the same parameters and the same
argument pairs in their signatures are run with the same parameter values. Together with `sig_sound` this gives
`sig_sound_full`: equal return signatures ⇒ equal plain values.
-/
namespace Dds
open List

/-! ## Small facts about signatures -/

theorem contextSig_inj {b1 b2 i1 i2 : Sg} {o1 o2 : Option Sg} (h : contextSig b1 i1 o1 = contextSig b2 i2 o2) :
    b1 = b2 ∧ i1 = i2 ∧ o1 = o2 := by
  have hp := hashCommut_inj h
  have hl := hp.length_eq
  have m1 := hp.subset (show ("body_sig", b1) ∈ _ by simp)
  have m2 := hp.subset (show ("function_input_hash", i1) ∈ _ by simp)
  cases o1 with
  | none =>
    cases o2 with
    | none =>
      simp at m1 m2
      exact ⟨m1, m2, rfl⟩
    | some x => simp at hl
  | some y =>
    cases o2 with
    | none => simp at hl
    | some x =>
      have m3 := hp.subset (show ("function_inter_hash", y) ∈ _ by simp)
      simp at m1 m2 m3
      exact ⟨m1, m2, by rw [m3]⟩

theorem contextSig_isSome (b i : Sg) (o : Option Sg) : ∃ k, contextSig b i o = some k := by
  unfold contextSig
  cases o with
  | none => exact ⟨_, rfl⟩
  | some h => exact ⟨_, rfl⟩

theorem hashCommut_ne_hJoin_nil {l : List (String × Sg)} {s : Sg} (h : hashCommut l = some s) : s ≠ hJoin [] := by
  match l, h with
  | [], h => simp [hashCommut] at h
  | [(k, v)], h =>
    simp only [hashCommut, Option.some.injEq] at h
    subst h
    simp [kvSg, hJoin, joinSg]
  | p :: q :: r, h =>
    rw [hashCommut_cons_cons] at h
    simp only [Option.some.injEq] at h
    subst h
    simp [hJoin]

theorem hashCommut_none_iff {l : List (String × Sg)} : hashCommut l = none ↔ l = [] := by
  match l with
  | [] => simp [hashCommut]
  | [(k, v)] => simp [hashCommut]
  | p :: q :: r => rw [hashCommut_cons_cons]; simp

/-- the input signatures of two callers agree ⇒ so do their argument pairs -/
theorem inputSig_argPairs {a1 a2 : ArgCtx} {ed1 ed2 : List (String × String)} {ev1 ev2 : List (String × Sg)}
    {io1 io2 : Option Sg} {pa1 pa2 : List (String × Sg)}
    (h1 : buildReturnSig none a1 [] [] ed1 ev1 = .ok io1) (h2 : buildReturnSig none a2 [] [] ed2 ev2 = .ok io2)
    (hp1 : argPairs a1 = .ok pa1) (hp2 : argPairs a2 = .ok pa2)
    (h : io1.getD (hJoin []) = io2.getD (hJoin [])) : pa1 ~ pa2 := by
  have e1 := buildReturnSig_eq none a1 [] [] ed1 ev1 pa1 hp1
  have e2 := buildReturnSig_eq none a2 [] [] ed2 ev2 pa2 hp2
  rw [h1] at e1; rw [h2] at e2
  simp only [Except.ok.injEq] at e1 e2
  have hnil : ∀ {pa : List (String × Sg)} {ed : List (String × String)} {ev : List (String × Sg)},
      hashCommut (SigParts.all ⟨bodyPart none, pa, depPart [], fisSigList [], extdPart ed, extvPart ev⟩) = none → pa = [] := by
    intro pa ed ev hn
    have := hashCommut_none_iff.mp hn
    simp only [SigParts.all, append_eq_nil_iff] at this
    exact this.1.1.1.1.2
  cases io1 with
  | none =>
    cases io2 with
    | none =>
      rw [hnil e1.symm, hnil e2.symm]
    | some s2 =>
      simp only [Option.getD_none, Option.getD_some] at h
      exact absurd h.symm (hashCommut_ne_hJoin_nil e2.symm)
  | some s1 =>
    cases io2 with
    | none =>
      simp only [Option.getD_none, Option.getD_some] at h
      exact absurd h (hashCommut_ne_hJoin_nil e1.symm)
    | some s2 =>
      simp only [Option.getD_some] at h
      subst h
      exact (buildReturnSig_inj _ _ _ _ _ _ _ _ _ _ _ _ pa1 pa2 hp1 hp2 (h1.trans h2.symm)).2.1

/-! ## Call chains -/

/-- the callee and the argument expressions of a call-like item -/
def Item.callee : Item → Option (String × List AstArg × List (String × AstArg) × List (Option RtExpr) × List (String × Option RtExpr))
  | .call f _ => some (f, [], [], [], [])
  | .ref f _ => some (f, [], [], [], [])
  | .callArgs f a k ra rk _ => some (f, a, k, ra, rk)
  | .keep _ f a k ra rk _ => some (f, a, k, ra, rk)
  | _ => none

/-- parameter values known to the analysis: name, value, hash of the value -/
abbrev Vals := List (String × PyVal × Sg)
def Vals.named (v : Vals) : List (String × Option Sg) := v.map (fun x => (x.1, some x.2.2))
def Vals.env (v : Vals) : Env := v.map (fun x => (x.1, RVal.py x.2.1))
def Vals.hashes (v : Vals) : List (String × Sg) := v.map (fun x => (x.1, x.2.2))

inductive Chain (U : Universe) (m : Nat) (Ω : Blobs) : World → Fn → ArgCtx → Env → Prop
  /-- every parameter value is known to the analysis (entry call; literals and defaults) -/
  | const (W : World) (fn : Fn) (inner : Option Sg) (vals : Vals) :
      vals.map (fun x => x.1) = fn.params.map Param.name →
      (∀ x ∈ vals, ddsHash m x.2.1 = .ok x.2.2 ∧ U.avals x.2.1) →
      Chain U m Ω W fn ⟨vals.named, inner⟩ vals.env
  /-- some argument is computed at run time: the analysis uses the context signature of the call site -/
  | site (W : World) (caller : Fn) (cctx : ArgCtx) (cenv : Env) (fuel : Nat) (stack : List String) (refs : Refs)
      (pre : List Item) (it : Item) (post : List Item) (st : VisitSt) (results : List RVal) (p : PSt)
      (f : String) (args : List AstArg) (kwargs : List (String × AstArg)) (rtA : List (Option RtExpr))
      (rtK : List (String × Option RtExpr)) (g : Fn) (k : Sg) (named : List (String × Option Sg)) (fis : FIS)
      (rf : Refs) (env' : Env) (ev : List (String × Sg)) (io : Option Sg) :
      Chain U m Ω W caller cctx cenv → U.world W → U.fns caller →
      caller.items = pre ++ it :: post →
      hashVars m caller.vars = .ok ev →
      buildReturnSig none cctx [] [] caller.exts ev = .ok io →
      visitItems m W (analyse m W fuel) caller (io.getD (hJoin [])) stack { refs := refs } pre = .ok st →
      (plainItems W (plainFn W fuel) cenv p [] pre).1 = .ok results →
      -- the plain state the body was run from holds, at every path loaded so far, the blob of the signature it resolved to
      FIS.loadsOKL Ω p.kept st.inters →
      (∀ path ∈ st.loads, ∃ s v, aget st.refs path = some s ∧ sgGet Ω s = some v ∧ aget p.kept path = some v) →
      it.callee = some (f, args, kwargs, rtA, rtK) →
      CallStep m W (analyse m W fuel) caller (io.getD (hJoin [])) stack st f args kwargs it.line g (some k) named fis rf →
      allSome named = none →
      bindRun g.params (zipArgs results cenv args rtA) (zipKw results cenv kwargs rtK) 0 = some env' →
      Chain U m Ω W g ⟨named, some k⟩ env'

theorem Vals.named_eq (v : Vals) : v.named = v.hashes.map (fun p => (p.1, some p.2)) := by
  simp [Vals.named, Vals.hashes, map_map, Function.comp_def]

theorem argPairs_const (v : Vals) (i : Option Sg) :
    argPairs ⟨v.named, i⟩ = .ok (v.hashes.map (fun p => ("arg_" ++ p.1, p.2))) := by
  rw [Vals.named_eq]; exact argPairs_known _ _

theorem argPairs_site {named : List (String × Option Sg)} {k : Sg} (h : allSome named = none) :
    argPairs ⟨named, some k⟩ = .ok [("arg_context", k)] := by
  simp [argPairs, h]

/-- renamed pair lists with the same distinct names that are permutations of each other are equal -/
theorem arg_perm_eq (c₁ c₂ : List (String × Sg)) (hnames : c₁.map Prod.fst = c₂.map Prod.fst)
    (hnd : (c₁.map Prod.fst).Nodup)
    (hp : c₁.map (fun p => ("arg_" ++ p.1, p.2)) ~ c₂.map (fun p => ("arg_" ++ p.1, p.2))) : c₁ = c₂ := by
  have hk : (c₁.map (fun p => ("arg_" ++ p.1, p.2))).map Prod.fst = (c₂.map (fun p => ("arg_" ++ p.1, p.2))).map Prod.fst := by
    have : ∀ c : List (String × Sg), (c.map (fun p => ("arg_" ++ p.1, p.2))).map Prod.fst = (c.map Prod.fst).map ("arg_" ++ ·) := by
      intro c; simp [map_map, Function.comp_def]
    rw [this, this, hnames]
  have hn : KeysNodup (c₁.map (fun p => ("arg_" ++ p.1, p.2))) := by
    unfold KeysNodup
    have : (c₁.map (fun p => ("arg_" ++ p.1, p.2))).map Prod.fst = (c₁.map Prod.fst).map ("arg_" ++ ·) := by
      simp [map_map, Function.comp_def]
    rw [this]
    exact Pairwise.map _ (fun a b hab h' => hab ((String.append_right_inj _).mp h')) hnd
  have heq := perm_same_keys_eq _ _ hk hn hp
  have hinj : Function.Injective (fun p : String × Sg => ("arg_" ++ p.1, p.2)) := by
    intro a b hab
    simp only [Prod.mk.injEq] at hab
    exact Prod.ext ((String.append_right_inj _).mp hab.1) hab.2
  exact (map_inj_right hinj).mp heq

/-- equal (name, hash) lists of known values ⇒ equal environments -/
theorem vals_env_eq (U : Universe) {m : Nat} : ∀ (v w : Vals), v.hashes = w.hashes →
    (∀ x ∈ v, ddsHash m x.2.1 = .ok x.2.2 ∧ U.avals x.2.1) → (∀ x ∈ w, ddsHash m x.2.1 = .ok x.2.2 ∧ U.avals x.2.1) →
    v.env = w.env
  | [], [], _, _, _ => rfl
  | [], _ :: _, h, _, _ => by simp [Vals.hashes] at h
  | _ :: _, [], h, _, _ => by simp [Vals.hashes] at h
  | (n, a, h) :: v, (n', b, h') :: w, he, hv, hw => by
    simp only [Vals.hashes, map_cons, cons.injEq, Prod.mk.injEq] at he
    obtain ⟨⟨hn, hh⟩, ht⟩ := he
    subst hn; subst hh
    have h1 := hv _ mem_cons_self
    have h2 := hw _ mem_cons_self
    have e1 := ddsHash_eq_hashC m _ _ h1.1
    have e2 := ddsHash_eq_hashC m _ _ h2.1
    have : a = b := U.argsInj a b h1.2 h2.2 (hashC_inj _ _ (canonKF_wf _) (canonKF_wf _) (e1.symm.trans e2))
    subst this
    have := vals_env_eq U v w ht (fun x hx => hv x (mem_cons_of_mem _ hx)) (fun x hx => hw x (mem_cons_of_mem _ hx))
    simp only [Vals.env, map_cons, cons.injEq, true_and]
    exact this

/-! ## Lemmas for the call-site case -/

theorem siteCtx_inv {m : Nat} {fn : Fn} {isig : Sg} {inters : List FIS} {line : Nat} {refs : Refs} {loads : List String}
    {c : Option Sg} (h : siteCtx m fn isig inters line refs loads = .ok c) :
    ∃ bh, hashLines m (fn.lines.take (line + 1)) = .ok bh ∧
      c = contextSig bh isig (hashCommut (fisSigList (inters.map FIS.retSig) ++ loadsSigList refs (dedupStr loads))) := by
  unfold siteCtx at h
  obtain ⟨bh, hb, h⟩ := bind_ok h
  simp only [pure, Except.pure, Except.ok.injEq] at h
  exact ⟨bh, hb, h.symm⟩

/-- in a body whose items are in line order, the items up to the line of an item are that item and those before it -/
theorem filter_le_split {items pre post : List Item} {it : Item} (hs : items.Pairwise (fun a b => a.line < b.line))
    (h : items = pre ++ it :: post) : items.filter (fun x => x.line ≤ it.line) = pre ++ [it] := by
  subst h
  rw [pairwise_append] at hs
  obtain ⟨_, hcons, hcross⟩ := hs
  rw [pairwise_cons] at hcons
  rw [filter_append, filter_cons]
  have h1 : pre.filter (fun x => decide (x.line ≤ it.line)) = pre := by
    rw [filter_eq_self]
    intro a ha
    exact decide_eq_true (Nat.le_of_lt (hcross a ha it mem_cons_self))
  have h2 : post.filter (fun x => decide (x.line ≤ it.line)) = [] := by
    rw [filter_eq_nil_iff]
    intro a ha
    have := hcons.1 a ha
    simp only [decide_eq_true_eq]
    omega
  rw [h1, h2]
  simp

theorem const_site_absurd (U : Universe) {fn : Fn} (hU : U.fns fn) {vals : Vals} {k : Sg}
    (hnames : vals.map (fun x => x.1) = fn.params.map Param.name)
    (hp : vals.hashes.map (fun p => ("arg_" ++ p.1, p.2)) ~ [("arg_context", k)]) : False := by
  have hl := hp.length_eq
  simp only [length_map, length_cons, length_nil, Vals.hashes] at hl
  match vals, hl, hnames, hp with
  | [(n, a, h)], _, hnames, hp =>
    simp only [Vals.hashes, map_cons, map_nil, perm_singleton, cons.injEq, Prod.mk.injEq, and_true] at hp
    have hn : n = "context" := by
      have : "arg_" ++ n = "arg_" ++ "context" := hp.1
      exact (String.append_right_inj _).mp this
    subst hn
    have : "context" ∈ fn.params.map Param.name := by rw [← hnames]; simp
    obtain ⟨p, hp1, hp2⟩ := mem_map.mp this
    exact U.noCtxParam fn hU p hp1 hp2

theorem plainItems_results_eq {W1 W2 : World} {rec1 rec2 : PlainRec} {env : Env} {p1 p2 : PSt} {its : List Item}
    {r1 r2 : List RVal}
    (h : (plainItems W1 rec1 env p1 [] its).1 = (plainItems W2 rec2 env p2 [] its).1)
    (h1 : (plainItems W1 rec1 env p1 [] its).1 = .ok r1) (h2 : (plainItems W2 rec2 env p2 [] its).1 = .ok r2) :
    r1 = r2 := by
  rw [h1, h2] at h
  exact Except.ok.inj h

theorem mem_loadsSigList {refs : Refs} {k : String} {s : Sg} : ∀ {ps : List String},
    (k, s) ∈ loadsSigList refs ps ↔ ∃ p ∈ ps, k = "dep_" ++ p ∧ aget refs p = some s
  | [] => by simp [loadsSigList]
  | q :: qs => by
    unfold loadsSigList
    cases hq : aget refs q with
    | none =>
      simp only [mem_loadsSigList (ps := qs), mem_cons, exists_eq_or_imp]
      constructor
      · intro h; exact Or.inr h
      · rintro (⟨_, h⟩ | h)
        · rw [hq] at h; cases h
        · exact h
    | some s' =>
      simp only [mem_cons, Prod.mk.injEq, mem_loadsSigList (ps := qs), exists_eq_or_imp]
      constructor
      · rintro (⟨h1, h2⟩ | h)
        · exact Or.inl ⟨h1, by rw [hq, h2]⟩
        · exact Or.inr h
      · rintro (⟨h1, h2⟩ | h)
        · rw [hq] at h2; exact Or.inl ⟨h1, (Option.some.inj h2).symm⟩
        · exact Or.inr h

theorem loadsSigList_cat (refs : Refs) (ps : List String) : inCat 2 (loadsSigList refs ps) := by
  intro kv hkv
  obtain ⟨k, s⟩ := kv
  obtain ⟨p, _, hk, _⟩ := mem_loadsSigList.mp hkv
  simp only [hk]; exact keyCat_dep p

/-- the interaction hash of a call site determines the signatures of the calls made so far and of the paths loaded so far -/
theorem inter_hash_split {sigs1 sigs2 : List Sg} {refs1 refs2 : Refs} {l1 l2 : List String}
    (h : hashCommut (fisSigList sigs1 ++ loadsSigList refs1 l1) = hashCommut (fisSigList sigs2 ++ loadsSigList refs2 l2)) :
    sigs1 = sigs2 ∧ loadsSigList refs1 l1 ~ loadsSigList refs2 l2 := by
  have hp := hashCommut_inj h
  have c3 : ∀ sigs, inCat 3 (fisSigList sigs) := fun sigs => fisSigListFrom_cat sigs 0
  have f3 := hp.filter (fun kv => keyCat kv.1 == 3)
  have f2 := hp.filter (fun kv => keyCat kv.1 == 2)
  simp only [filter_append] at f3 f2
  rw [filter_cat_self (c3 sigs1), filter_cat_self (c3 sigs2), filter_cat_nil (loadsSigList_cat refs1 l1) (by decide),
    filter_cat_nil (loadsSigList_cat refs2 l2) (by decide), append_nil, append_nil] at f3
  rw [filter_cat_nil (c3 sigs1) (by decide), filter_cat_nil (c3 sigs2) (by decide), filter_cat_self (loadsSigList_cat refs1 l1),
    filter_cat_self (loadsSigList_cat refs2 l2), nil_append, nil_append] at f2
  exact ⟨fisSigList_perm_eq _ _ f3, f2⟩

theorem Chain.mono {U : Universe} {m : Nat} {Ω Ω' : Blobs} (h : ∀ s v, sgGet Ω s = some v → sgGet Ω' s = some v)
    {W : World} {fn : Fn} {ctx : ArgCtx} {env : Env} (c : Chain U m Ω W fn ctx env) : Chain U m Ω' W fn ctx env := by
  induction c with
  | const fn inner vals hnames hvals => exact Chain.const W fn inner vals hnames hvals
  | site caller cctx cenv fuel stack refs pre it post st results p f args kwargs rtA rtK g k named fis rf env' ev io
      hch hW hUc hitems hev hio hvis hres hlo hlown hcallee hstep hnone hbind ih =>
    refine Chain.site W caller cctx cenv fuel stack refs pre it post st results p f args kwargs rtA rtK g k named fis rf env' ev io
      ih hW hUc hitems hev hio hvis hres (loadsOKL_mono h _ hlo) ?_ hcallee hstep hnone hbind
    intro path hp
    obtain ⟨s, v, h1, h2, h3⟩ := hlown path hp
    exact ⟨s, v, h1, h _ _ h2, h3⟩

/-- **`env_sound`.** Two chained calls with the same parameters whose signatures carry the same argument pairs
are run with the same parameter values. -/
theorem env_sound (U : Universe) (m : Nat) {Ω : Blobs} {W1 : World} {fn1 : Fn} {ctx1 : ArgCtx} {env1 : Env}
    (h1 : Chain U m Ω W1 fn1 ctx1 env1) :
    ∀ {W2 : World} {fn2 : Fn} {ctx2 : ArgCtx} {env2 : Env}, Chain U m Ω W2 fn2 ctx2 env2 →
      W1.extVersion = W2.extVersion → U.fns fn1 → U.fns fn2 → fn1.params = fn2.params →
      ∀ pa1 pa2, argPairs ctx1 = .ok pa1 → argPairs ctx2 = .ok pa2 → pa1 ~ pa2 → env1 = env2 := by
  induction h1 with
  | const fn inner vals hnames hvals =>
    intro W2 fn2 ctx2 env2 h2 hext hU1 hU2 hpar pa1 pa2 hp1 hp2 hperm
    rw [argPairs_const] at hp1
    simp only [Except.ok.injEq] at hp1
    subst hp1
    cases h2 with
    | const fn' inner' vals' hnames' hvals' =>
      rw [argPairs_const] at hp2
      simp only [Except.ok.injEq] at hp2
      subst hp2
      have hn : vals.hashes.map Prod.fst = vals'.hashes.map Prod.fst := by
        simp only [Vals.hashes, map_map, Function.comp_def]
        rw [hnames, hnames', hpar]
      have hnd : (vals.hashes.map Prod.fst).Nodup := by
        simp only [Vals.hashes, map_map, Function.comp_def]
        rw [hnames]; exact U.paramNames fn hU1
      exact vals_env_eq U vals vals' (arg_perm_eq _ _ hn hnd hperm) hvals hvals'
    | site caller cctx cenv fuel stack refs pre it post st results p f args kwargs rtA rtK g k named fis rf env' ev io
        hch hW hUc hitems hev hio hvis hres hlo hlown hcallee hstep hnone hbind =>
      rw [argPairs_site hnone] at hp2
      simp only [Except.ok.injEq] at hp2
      subst hp2
      exact absurd hperm (fun hp => const_site_absurd U hU1 hnames hp)
  | site caller cctx cenv fuel stack refs pre it post st results p f args kwargs rtA rtK g k named fis rf env' ev io
      hch hW hUc hitems hev hio hvis hres hlo hlown hcallee hstep hnone hbind ih =>
    intro W2 fn2 ctx2 env2 h2 hext hU1 hU2 hpar pa1 pa2 hp1 hp2 hperm
    rw [argPairs_site hnone] at hp1
    simp only [Except.ok.injEq] at hp1
    subst hp1
    cases h2 with
    | const fn' inner' vals' hnames' hvals' =>
      rw [argPairs_const] at hp2
      simp only [Except.ok.injEq] at hp2
      subst hp2
      exact absurd hperm.symm (fun hp => const_site_absurd U hU2 hnames' hp)
    | site caller' cctx' cenv' fuel' stack' refs' pre' it' post' st' results' p' f' args' kwargs' rtA' rtK' g' k' named' fis' rf' env'' ev' io'
        hch' hW' hUc' hitems' hev' hio' hvis' hres' hlo' hlown' hcallee' hstep' hnone' hbind' =>
      rw [argPairs_site hnone'] at hp2
      simp only [Except.ok.injEq] at hp2
      subst hp2
      -- the two context signatures are equal
      have hk : k = k' := by
        have := perm_singleton.mp hperm
        simp only [cons.injEq, Prod.mk.injEq, true_and, and_true] at this
        exact this
      subst hk
      obtain ⟨bh, hb, hc⟩ := siteCtx_inv hstep.site
      obtain ⟨bh', hb', hc'⟩ := siteCtx_inv hstep'.site
      obtain ⟨e1, e2, e3⟩ := contextSig_inj (hc.symm.trans hc')
      subst e1
      -- same text up to the call: same line, same items up to it, same parameters of the callers
      have hlines := hashLines_inj hb hb'
      have hmem : it ∈ caller.items := by rw [hitems]; simp
      have hmem' : it' ∈ caller'.items := by rw [hitems']; simp
      have hline : it.line = it'.line := by
        have := congrArg length hlines
        have b1 := U.lineBound caller hUc it hmem
        have b2 := U.lineBound caller' hUc' it' hmem'
        simp only [length_take] at this
        omega
      rw [← hline] at hlines
      obtain ⟨hcpar, hfilt⟩ := U.prefixFaithful caller caller' it.line hUc hUc' hlines
      have s1 := filter_le_split (U.sorted caller hUc) hitems
      have s2 := filter_le_split (U.sorted caller' hUc') hitems'
      rw [← hline] at s2
      have hsplit : pre ++ [it] = pre' ++ [it'] := by rw [← s1, ← s2, hfilt]
      have hpre : pre = pre' := append_inj_left' hsplit rfl
      have hit : it = it' := by
        have := append_inj_right' hsplit rfl
        simpa using this
      subst hpre; subst hit
      rw [hcallee] at hcallee'
      simp only [Option.some.injEq, Prod.mk.injEq] at hcallee'
      obtain ⟨rfl, rfl, rfl, rfl, rfl⟩ := hcallee'
      -- the callers were run with the same parameter values
      obtain ⟨cpa, hcpa⟩ := buildReturnSig_argPairs hio
      obtain ⟨cpa', hcpa'⟩ := buildReturnSig_argPairs hio'
      have hcenv : cenv = cenv' := ih hch' hext hUc hUc' hcpar cpa cpa' hcpa hcpa' (inputSig_argPairs hio hio' hcpa hcpa' e2)
      subst hcenv
      -- the calls before this one have the same signatures, the paths loaded so far resolve to the same signatures:
      -- the two plain states agree on everything loaded before this call, hence the same results
      obtain ⟨hsigs, hdeps⟩ := inter_hash_split e3
      have hne : ∀ x ∈ pre, ¬ x.isEval := fun x hx => U.noEval caller hUc x (by rw [hitems]; simp [hx])
      have hshape := lockstep_shape U (sig_shape U m fuel) hW hW' caller caller' _ _ stack stack' pre hne
        _ st _ st' hvis hvis' rfl rfl hsigs trivial
      have hag : KAgree (st.loads ++ FIS.allLoadsL st.inters) p p' := by
        intro path hp
        rcases mem_append.mp hp with hp | hp
        · obtain ⟨s, v, r1, r2, r3⟩ := hlown path hp
          have hm : ("dep_" ++ path, s) ∈ loadsSigList st.refs (dedupStr st.loads) :=
            mem_loadsSigList.mpr ⟨path, (mem_dedupStr path _).mpr hp, rfl, r1⟩
          obtain ⟨path', hp', hk', hr'⟩ := mem_loadsSigList.mp (hdeps.subset hm)
          have : path' = path := ((String.append_right_inj _).mp hk').symm
          subst this
          obtain ⟨s', v', r1', r2', r3'⟩ := hlown' path' ((mem_dedupStr path' _).mp hp')
          rw [hr'] at r1'
          cases r1'
          rw [r3, r3', ← r2, ← r2']
        · exact loadsOKL_agree _ _ hshape hlo hlo' path hp
      have hls := (lockstep U (sig_sound U m fuel) hW hW' hext caller caller' _ _ stack stack' cenv
        (st.loads ++ FIS.allLoadsL st.inters) pre hne
        _ st _ st' [] p p' hvis hvis' rfl rfl (fun f hf => absurd hf (by simp)) hsigs
        (fun x hx => mem_append_left _ hx) (fun x hx => mem_append_right _ hx) hag).1
      have hresults := plainItems_results_eq hls hres hres'
      subst hresults
      rw [hpar] at hbind
      rw [hbind] at hbind'
      exact Option.some.inj hbind'

theorem sig_argPairs {m : Nat} {W1 W2 : World} {fuel1 fuel2 : Nat} {refs1 refs2 : Refs}
    {stack1 stack2 : List String} {fn1 fn2 : Fn} {ctx1 ctx2 : ArgCtx} {fis1 fis2 : FIS} {r1 r2 : Refs}
    (h1 : analyse m W1 fuel1 refs1 stack1 fn1 ctx1 = .ok (fis1, r1))
    (h2 : analyse m W2 fuel2 refs2 stack2 fn2 ctx2 = .ok (fis2, r2))
    (hs : fis1.retSig = fis2.retSig) : ∃ pa1 pa2, argPairs ctx1 = .ok pa1 ∧ argPairs ctx2 = .ok pa2 ∧ pa1 ~ pa2 := by
  cases fuel1 with
  | zero => exact absurd h1 analyse_zero
  | succ k1 =>
    cases fuel2 with
    | zero => exact absurd h2 analyse_zero
    | succ k2 =>
      obtain ⟨_, _, _, _, _, _, a1⟩ := analyse_inv h1
      obtain ⟨_, _, _, _, _, _, a2⟩ := analyse_inv h2
      rw [a1.retSig, a2.retSig] at hs
      subst hs
      obtain ⟨pa1, hpa1⟩ := buildReturnSig_argPairs a1.hret
      obtain ⟨pa2, hpa2⟩ := buildReturnSig_argPairs a2.hret
      exact ⟨pa1, pa2, hpa1, hpa2,
        (buildReturnSig_inj _ _ _ _ _ _ _ _ _ _ _ _ pa1 pa2 hpa1 hpa2 (a1.hret.trans a2.hret.symm)).2.1⟩

/-- **`sig_sound`.** Two calls made inside evaluations — of any two versions of the code from the universe, at any
depth, with literal, default or run-time arguments, loading paths or not — to which the analysis gives the same return
signature return the same value (or raise the same exception) under plain execution, when run from plain states that hold,
at every path the calls load, the blob of the signature the path resolved to (with respect to one blob map). -/
theorem sig_sound_full (U : Universe) (m : Nat) {Ω : Blobs} {W1 W2 : World} {fn1 fn2 : Fn} {ctx1 ctx2 : ArgCtx} {env1 env2 : Env}
    (c1 : Chain U m Ω W1 fn1 ctx1 env1) (c2 : Chain U m Ω W2 fn2 ctx2 env2)
    (hW1 : U.world W1) (hW2 : U.world W2) (hext : W1.extVersion = W2.extVersion) (hU1 : U.fns fn1) (hU2 : U.fns fn2)
    {fuel1 fuel2 : Nat} {refs1 refs2 : Refs} {stack1 stack2 : List String} {fis1 fis2 : FIS} {r1 r2 : Refs}
    (h1 : analyse m W1 fuel1 refs1 stack1 fn1 ctx1 = .ok (fis1, r1))
    (h2 : analyse m W2 fuel2 refs2 stack2 fn2 ctx2 = .ok (fis2, r2))
    (hs : fis1.retSig = fis2.retSig) (p1 p2 : PSt)
    (hl1 : FIS.loadsOK Ω p1.kept fis1) (hl2 : FIS.loadsOK Ω p2.kept fis2) :
    (plainFn W1 fuel1 p1 fn1 env1).1 = (plainFn W2 fuel2 p2 fn2 env2).1 := by
  have hpar : fn1.params = fn2.params := congrArg Code.params (sig_params U h1 h2 hU1 hU2 hs).1
  obtain ⟨pa1, pa2, hp1, hp2, hperm⟩ := sig_argPairs h1 h2 hs
  have henv := env_sound U m c1 c2 hext hU1 hU2 hpar pa1 pa2 hp1 hp2 hperm
  subst henv
  have hsh := sig_shape U m fuel1 fuel2 W1 W2 _ _ _ _ fn1 fn2 _ _ fis1 fis2 _ _ hW1 hW2 hU1 hU2 h1 h2 hs
  exact (sig_sound U m fuel1 fuel2 W1 W2 _ _ _ _ fn1 fn2 _ _ env1 fis1 fis2 _ _ p1 p2 hW1 hW2 hext hU1 hU2 h1 h2 hs
    (loadsOK_agree fis1 fis2 hsh hl1 hl2)).1

end Dds
