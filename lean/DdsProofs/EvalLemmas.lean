import DdsModel.Eval
/-! Frame lemmas about running user code under dds: the path table is only written by the commit. -/
namespace Dds

theorem storeBlob_paths' (S : PStore) (k : Sg) (v : RVal) : (S.storeBlob k v).paths = S.paths := by
  unfold PStore.storeBlob; split <;> rfl

/-- a run function that never writes the path table -/
def PathsFrame (rec : RunRec) : Prop := ∀ st fn env, (rec st fn env).2.store.paths = st.store.paths

theorem keepExec_paths (requested : List (String × Sg)) (rec : RunRec) (hrec : PathsFrame rec)
    (st : XSt) (path : String) (g : Fn) (env : Env) :
    (keepExec requested rec st path g env).2.store.paths = st.store.paths := by
  unfold keepExec
  cases aget requested path with
  | none => rfl
  | some key =>
    simp only []
    cases sgGet st.store.blobs key with
    | some v => rfl
    | none =>
      simp only []
      have h := hrec st g env
      cases hr : rec st g env with
      | mk r st' =>
        rw [hr] at h
        cases r with
        | ok v => simp only [storeBlob_paths']; exact h
        | error e => exact h

theorem callExec_paths (requested : List (String × Sg)) (rec : RunRec) (hrec : PathsFrame rec)
    (st : XSt) (g : Fn) (env : Env) :
    (callExec requested rec st g env).2.store.paths = st.store.paths := by
  unfold callExec
  cases g.storePath with
  | some p => exact keepExec_paths requested rec hrec st p g env
  | none => exact hrec st g env

theorem runItems_paths (W : World) (requested : List (String × Sg)) (rec : RunRec) (hrec : PathsFrame rec)
    (fn : Fn) (env : Env) : ∀ (its : List Item) (st : XSt) (results : List RVal),
    (runItems W (some requested) rec fn env st results its).2.store.paths = st.store.paths
  | [], _, _ => rfl
  | it :: its, st, results => by
    have key : ∀ (r : XRes), r.2.store.paths = st.store.paths →
        (match r with
          | (.ok v, st') => runItems W (some requested) rec fn env st' (results ++ [v]) its
          | (.error e, st') => (.error e, st')).2.store.paths = st.store.paths := by
      intro r hr
      obtain ⟨rv, st'⟩ := r
      cases rv with
      | ok v => simp only []; rw [runItems_paths W requested rec hrec fn env its st' _]; exact hr
      | error e => exact hr
    unfold runItems
    apply key
    cases it with
    | call f line =>
      simp only []
      cases W.find f with
      | none => rfl
      | some g =>
        simp only []
        cases bindRun g.params [] [] 0 with
        | none => rfl
        | some env' => exact callExec_paths requested rec hrec st g env'
    | ref f line =>
      simp only []
      cases W.find f with
      | none => rfl
      | some g =>
        simp only []
        cases bindRun g.params [] [] 0 with
        | none => rfl
        | some env' => exact callExec_paths requested rec hrec st g env'
    | callArgs f args kwargs rtA rtK line =>
      simp only []
      cases W.find f with
      | none => rfl
      | some g =>
        simp only []
        cases bindRun g.params (zipArgs results env args rtA) (zipKw results env kwargs rtK) 0 with
        | none => rfl
        | some env' => exact callExec_paths requested rec hrec st g env'
    | keep path f args kwargs rtA rtK line =>
      simp only []
      cases W.find f with
      | none => rfl
      | some g =>
        simp only []
        cases bindRun g.params (zipArgs results env args rtA) (zipKw results env kwargs rtK) 0 with
        | none => rfl
        | some env' => exact keepExec_paths requested rec hrec st path g env'
    | load path line =>
      simp only []
      cases (aget requested path).orElse (fun _ => aget st.store.paths path) with
      | none => rfl
      | some key => rfl
    | evalCall f line => rfl

theorem runFn_paths (W : World) (requested : List (String × Sg)) : ∀ fuel, PathsFrame (runFn W requested fuel)
  | 0 => fun _ _ _ => rfl
  | fuel + 1 => by
    intro st fn env
    unfold runFn
    have h := runItems_paths W requested (runFn W requested fuel) (runFn_paths W requested fuel) fn env fn.items
      { st with log := st.log ++ [fn.name] } []
    simp only []
    split
    · rename_i e st' heq
      rw [heq] at h; exact h
    · rename_i results st' heq
      rw [heq] at h
      split <;> exact h

end Dds
